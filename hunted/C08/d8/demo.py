"""C08 d8: in an interaction of two text columns, two different level pairs whose
formatted names coincide share one indicator column (name-keyed dict)."""
import sys, warnings
import numpy as np, pandas as pd
from formulaic import model_matrix
warnings.simplefilter("ignore")

df = pd.DataFrame({"a": ["x", "x]:b[y", "x", "x]:b[y"], "b": ["y]:b[z", "z", "z", "y]:b[z"]})
bad = False
for out in ("pandas", "numpy", "sparse"):
    mm = model_matrix("a:b - 1", df, output=out)
    raw = mm.__wrapped__
    arr = raw.toarray() if hasattr(raw, "toarray") else np.asarray(raw, dtype=float)
    print("output=%-6s %d columns %s row sums %s" % (out, arr.shape[1], list(mm.model_spec.column_names), arr.sum(axis=1).tolist()))
    bad |= arr.shape[1] != 4 or not np.array_equal(arr.sum(axis=1), np.ones(4))
print("required: 2 x 2 = 4 indicator columns; each row (all four level pairs occur) has exactly one 1")
print("DEFECT PRESENT" if bad else "ok")
sys.exit(1 if bad else 0)
