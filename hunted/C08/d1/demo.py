"""C08 d1: a pandas column with an Arrow dictionary (categorical) dtype is not
dummy-coded; its text goes into the model matrix verbatim."""
import sys, warnings
import numpy as np, pandas as pd, pyarrow as pa
from formulaic import model_matrix
warnings.simplefilter("ignore")

v = pd.Series(pa.array(["b", "a", "c", "a"]).dictionary_encode()
              .to_pandas(types_mapper=pd.ArrowDtype))   # what read_parquet(dtype_backend="pyarrow") yields for categoricals
df = pd.DataFrame({"v": v, "x": [1.0, 2.0, 3.0, 4.0]})
print("column dtype:", df["v"].dtype)

bad = False
for kw in ({}, {"materializer": "narwhals"}):
    for out in ("pandas", "numpy", "sparse"):
        label = "materializer=%s output=%s" % (kw.get("materializer", "pandas"), out)
        try:
            mm = model_matrix("v + x", df, output=out, **kw)
        except Exception as e:
            print(label, "-> raised", type(e).__name__, str(e)[:90]); bad = True; continue
        raw = mm.__wrapped__
        arr = raw.toarray() if hasattr(raw, "toarray") else np.asarray(raw)
        numeric = arr.dtype.kind in "biuf"
        print(label, "-> columns", list(mm.model_spec.column_names), "cell dtype", arr.dtype,
              "first row", arr[0].tolist())
        if not numeric or list(mm.model_spec.column_names) != ["Intercept", "v[T.a]", "v[T.c]", "x"] and \
           list(mm.model_spec.column_names) != ["Intercept", "v[T.b]", "v[T.c]", "x"]:
            bad = True
print("required: the categorical column is encoded as 0/1 indicator columns (v[T.*]) and every cell is a number")
print("DEFECT PRESENT" if bad else "ok")
sys.exit(1 if bad else 0)
