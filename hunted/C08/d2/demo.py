"""C08 d2: narwhals materializer (the only one for pyarrow Tables) assembles the
matrix through a name-keyed dict, so the indicator column of a text level is
overwritten when a data column carries the same label."""
import sys, warnings
import numpy as np, pandas as pd, pyarrow as pa
from formulaic import model_matrix
warnings.simplefilter("ignore")

data = {"A": ["a", "b", "c", "b"], "A[T.b]": [10.0, 20.0, 30.0, 40.0]}
expected = np.array([[1, 0, 0, 10], [1, 1, 0, 20], [1, 0, 1, 30], [1, 1, 0, 40]], dtype=float)
bad = False
for label, d, kw in (("pyarrow.Table", pa.table(data), {}),
                     ("pandas via materializer='narwhals'", pd.DataFrame(data), {"materializer": "narwhals"}),
                     ("pandas (reference)", pd.DataFrame(data), {})):
    for out in ("pandas", "numpy", "sparse"):
        mm = model_matrix("A + `A[T.b]`", d, output=out, **kw)
        raw = mm.__wrapped__
        arr = raw.toarray() if hasattr(raw, "toarray") else np.asarray(raw, dtype=float)
        ok = arr.shape == expected.shape and np.array_equal(arr, expected)
        print("%-36s output=%-6s column_names=%s shape=%s %s" % (label, out, list(mm.model_spec.column_names), arr.shape, "ok" if ok else "<-- indicator column A[T.b] lost"))
        if not ok:
            print(arr); bad = True
print("required: text column A dummy-coded as A[T.b], A[T.c] (rows 1 and 3 have A[T.b]=1), then the numeric column unchanged -> 4 columns, for every output type and materializer")
print("DEFECT PRESENT" if bad else "ok")
sys.exit(1 if bad else 0)
