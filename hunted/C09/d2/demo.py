"""C09 d2: two recorded specs collected in a `ModelSpecs` (documented: "You can
either create these structures yourself") share one pooled encoder state in
which the LAST spec's record of a factor wins.  A spec that recorded `v` as
CATEGORICAL is then applied to numerical `v` without any error: its
`v[T.y]`, `v[T.z]` columns are both filled with the raw numbers."""
import sys
import warnings

import pandas as pd

from formulaic import ModelSpecs, model_matrix
from formulaic.errors import FactorEncodingError

spec_cat = model_matrix("v + b", pd.DataFrame({"v": ["x", "y", "z"], "b": [1.0, 2, 3]})).model_spec
spec_num = model_matrix("v", pd.DataFrame({"v": [1.0, 2.0, 3.0]})).model_spec
new = pd.DataFrame({"v": [5.0, 6.0, 7.0, 8.0], "b": [1.0, 2, 3, 4]})

# reference: the categorical spec on its own refuses the numerical data
try:
    spec_cat.get_model_matrix(new)
    print("reference: spec_cat alone returned a matrix (unexpected)")
except FactorEncodingError as e:
    print("reference: spec_cat alone ->", type(e).__name__)

specs = ModelSpecs(spec_num, other=spec_cat)
try:
    with warnings.catch_warnings():
        warnings.simplefilter("ignore")
        mms = specs.get_model_matrix(new)
except FactorEncodingError as e:
    print("ok: FactorEncodingError:", e)
    sys.exit(0)

print("observed: part `other` (recorded kind of v: categorical) produced a matrix from numerical v:")
print(mms.other)
print("required: an encoding error (FactorEncodingError), as raised when the same spec is applied on its own "
      "or when the parts are given in the other order")
sys.exit(1)
