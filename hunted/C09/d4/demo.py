"""C09 d4: when a term generates exactly ONE column on the follow-up data but
the recorded structure has several, `_enforce_structure` silently copies that
column into every recorded column instead of failing.  Reachable in a single
spec when the levels are written as an expression of the column itself."""
import sys
import warnings

import pandas as pd

from formulaic import model_matrix

f = "C(a, levels=sorted(a.unique()))"
train = pd.DataFrame({"a": ["x", "y", "z", "x"]})
new = pd.DataFrame({"a": ["x", "y", "y", "x"]})  # level z absent

spec = model_matrix(f, train).model_spec
with warnings.catch_warnings(record=True) as w:
    warnings.simplefilter("always")
    try:
        mm = spec.get_model_matrix(new)
    except Exception as e:  # noqa: BLE001
        print("ok (loud failure):", type(e).__name__, e)
        sys.exit(0)
ty, tz = [c for c in mm.columns if c != "Intercept"]
print("columns:", list(mm.columns))
print("T.y column:", mm[ty].tolist())
print("T.z column:", mm[tz].tolist(), "  warnings:", [str(x.message)[:60] for x in w])
if mm[tz].any():
    print("required: the column of the absent level z is all zero (or the call fails loudly); "
          "observed: it is a copy of the T.y column")
    sys.exit(1)
sys.exit(0)
