"""C09 d3 (same root cause as d2, level flavour): in a hand-assembled
`ModelSpecs`, the spec that recorded levels x,y,z for `a` is materialized with
the OTHER spec's levels (x,y): level z, which it saw at fit time, is announced
as unseen and its column a[T.z] is a copy of a[T.y]."""
import sys
import warnings

import numpy as np
import pandas as pd

from formulaic import ModelSpecs, model_matrix
from formulaic.errors import DataMismatchWarning

s_xy = model_matrix("a", pd.DataFrame({"a": ["x", "y", "x"]})).model_spec
s_xyz = model_matrix("a + b", pd.DataFrame({"a": ["x", "y", "z"], "b": [1.0, 2, 3]})).model_spec
new = pd.DataFrame({"a": ["x", "y", "z", "y"], "b": [1.0, 2, 3, 4]})

expected = s_xyz.get_model_matrix(new)  # spec applied on its own: correct
with warnings.catch_warnings(record=True) as w:
    warnings.simplefilter("always")
    got = ModelSpecs(s_xyz, other=s_xy).get_model_matrix(new).root
mismatch = [str(x.message) for x in w if issubclass(x.category, DataMismatchWarning)]

print("spec (levels x,y,z) applied on its own:")
print(expected)
print("same spec as the root of ModelSpecs(s_xyz, other=s_xy):")
print(got)
print("data-mismatch warnings:", mismatch)
same = list(got.columns) == list(expected.columns) and np.array_equal(got.values, expected.values)
if same:
    print("ok")
    sys.exit(0)
print("required: identical matrices (a[T.z] = indicator of z = [0,0,1,0]); observed a[T.z] =",
      got["a[T.z]"].tolist(), "(a copy of a[T.y]) and level 'z', seen at fit time, reported as unseen")
sys.exit(1)
