"""C09 d1: with the pandas materializer, a follow-up column stored as an Arrow
dictionary (pyarrow's categorical) / Arrow binary / Sparse[object] of text is
not recognised as categorical.

 (a) spec recorded `b` as NUMERICAL; follow-up `b` holds dictionary-encoded
     strings -> a matrix (containing the strings) is returned, no error.
 (b) spec recorded `a` as CATEGORICAL (levels x,y,z); follow-up `a` holds the
     same kind of data (categorical strings, level z absent) as an Arrow
     dictionary column -> FactorEncodingError instead of the matrix with the
     all-zero a[T.z] column.
"""
import sys
import warnings

import pandas as pd
import pyarrow as pa

from formulaic import model_matrix
from formulaic.errors import FactorEncodingError

train = pd.DataFrame({"a": ["x", "y", "z", "x"], "b": [1.0, 2.0, 3.0, 4.0]})
dict_dtype = pd.ArrowDtype(pa.dictionary(pa.int32(), pa.string()))
bad = 0

# (a) numerical at fit time, categorical (dictionary-encoded text) afterwards
spec_b = model_matrix("b", train).model_spec
new_b = pd.DataFrame({"b": pd.Series(["x", "y", "q", "x"], dtype=dict_dtype)})
try:
    with warnings.catch_warnings():
        warnings.simplefilter("ignore")
        mm = spec_b.get_model_matrix(new_b)
    print("(a) observed: a matrix was returned for a text column:")
    print(mm)
    print("    dtypes:", dict(mm.dtypes))
    print("(a) required: FactorEncodingError (recorded kind numerical, data categorical)")
    bad = 1
except FactorEncodingError as e:
    print("(a) ok: FactorEncodingError:", e)

# (b) categorical at fit time, still categorical afterwards (a level is absent)
spec_a = model_matrix("a", train).model_spec
new_a = pd.DataFrame({"a": pd.Series(["x", "y", "y", "x"], dtype=dict_dtype)})
try:
    with warnings.catch_warnings():
        warnings.simplefilter("ignore")
        mm = spec_a.get_model_matrix(new_a)
    ok = list(mm.columns) == ["Intercept", "a[T.y]", "a[T.z]"] and not mm["a[T.z]"].any()
    print("(b) matrix returned; columns", list(mm.columns), "-> ok" if ok else "-> WRONG")
    bad = bad or (not ok)
except Exception as e:  # noqa: BLE001
    print(f"(b) observed: {type(e).__name__}: {e}")
    print("(b) required: columns ['Intercept','a[T.y]','a[T.z]'] with an all-zero a[T.z] "
          "(the kind did not change; only level z is absent)")
    bad = 1

sys.exit(1 if bad else 0)
