"""C06 d1: a string-valued numpy array factor (no nulls anywhere) makes the
null check itself crash under the `raise` and `drop` policies."""
import sys
import warnings

import numpy as np
import pandas as pd

warnings.filterwarnings("ignore")
from formulaic import model_matrix

df = pd.DataFrame({"x": [1.0, 2.0, 3.0, 4.0, 5.0]})
formula = "C(np.where(x > 2, 'hi', 'lo'))"  # a plain numpy array of strings, no nulls

bad = False

# Reference: under `ignore` the very same formula materializes fine (5 rows).
ref = model_matrix(formula, df, na_action="ignore")
print("ignore  ->", ref.shape, list(ref.columns))

# raise policy: no evaluated factor has a null => no error may occur.
try:
    m = model_matrix(formula, df, na_action="raise")
    print("raise   -> returned", m.shape)
except Exception as e:  # noqa: BLE001
    bad = True
    print(f"raise   -> {type(e).__name__}: {str(e)[:100]}")
    print("          REQUIRED: no error (an error occurs iff some evaluated factor has a null; none has)")

# drop policy: output must contain exactly the 5 input rows, drop set stays empty.
drop = set()
try:
    m = model_matrix(formula, df, drop_rows=drop)
    print("drop    -> returned", m.shape, "drop set", drop)
    if m.shape[0] != 5 or drop:
        bad = True
except Exception as e:  # noqa: BLE001
    bad = True
    print(f"drop    -> {type(e).__name__}: {str(e)[:100]}")
    print("          REQUIRED: all 5 rows returned (no factor is null), drop set == set()")

print("DEFECT PRESENT" if bad else "ok")
sys.exit(1 if bad else 0)
