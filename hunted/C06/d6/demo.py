"""C06 d6: NaN cells of a pyarrow (or Arrow-backed pandas) float column are not
treated as missing by the column lookup, but are by any transform of it."""
import sys
import warnings

import pandas as pd
import pyarrow as pa

warnings.filterwarnings("ignore")
from formulaic import model_matrix

nan = float("nan")
tb = pa.table({"id": [0.0, 1.0, 2.0, 3.0], "x": pa.array([1.0, nan, None, 4.0])})
bad = False
for f in ["0 + id + x", "0 + id + np.log(x)"]:
    drop = set()
    m = model_matrix(f, tb, output="pandas", drop_rows=drop)
    print(f"{f!r:22} pyarrow table  -> kept ids {m['id'].tolist()}, drop set {sorted(map(int, drop))}, NaN left in output: {bool(m.isnull().any().any())}")
    bad |= sorted(map(int, drop)) != [1, 2]
pdf = tb.to_pandas(types_mapper=pd.ArrowDtype)
drop = set()
m = model_matrix("0 + id + x", pdf, drop_rows=drop)
print(f"pandas frame with double[pyarrow] column -> kept ids {m['id'].tolist()}, drop set {sorted(map(int, drop))}")
bad |= sorted(map(int, drop)) != [1, 2]
drop = set()
m = model_matrix("0 + id + x", tb.to_pandas(), drop_rows=drop)
print(f"same data as numpy-backed pandas          -> kept ids {m['id'].tolist()}, drop set {sorted(map(int, drop))}")
print("REQUIRED: rows 1 (NaN) and 2 (null) are both missing data: kept ids [0.0, 3.0], drop set [1, 2] on every backend")
print("DEFECT PRESENT" if bad else "ok")
sys.exit(1 if bad else 0)
