"""C06 d8: a factor that evaluates to a null CONSTANT makes the drop policy
raise instead of dropping (all) rows."""
import sys
import warnings

import numpy as np
import pandas as pd

warnings.filterwarnings("ignore")
from formulaic import model_matrix

df = pd.DataFrame({"x": [1.0, 2.0, 3.0], "i": pd.array([None, None, None], dtype="Int64")})
bad = False
for f in ["x + {i.max()}", "x + {np.nan}"]:
    drop = set()
    try:
        m = model_matrix(f, df, drop_rows=drop)
        print(f"{f!r}: drop -> {m.shape}, drop set {drop}")
        bad |= not (m.shape[0] == 0 and {int(k) for k in drop} == {0, 1, 2})
    except Exception as e:  # noqa: BLE001
        bad = True
        print(f"{f!r}: drop -> {type(e).__name__}: {str(e)[:110]}")
    m = model_matrix(f, df, na_action="ignore")
    print(f"{f!r}: ignore -> {m.shape}")
print("REQUIRED (drop policy): every row has a null factor -> empty output, drop set {0,1,2}; errors are reserved for the raise policy")
print("DEFECT PRESENT" if bad else "ok")
sys.exit(1 if bad else 0)
