"""C06 d4: an empty (no-column) model matrix produced by the narwhals
materializer for pandas data is labelled with the FIRST n-k rows instead of the
rows that were retained (labels of removed rows appear, labels of kept rows vanish)."""
import sys
import warnings

import numpy as np
import pandas as pd

warnings.filterwarnings("ignore")
import narwhals.stable.v1 as nw
from formulaic import model_matrix

df = pd.DataFrame({"x": [np.nan, 1.0, 3.0, 4.0, 5.0]}, index=list("pqrst"))
expected = ["q", "r", "s", "t"]  # row 0 ('p') has a null in x and is removed

bad = False
ref = model_matrix("x ~ 0", df)
print("pandas materializer        rhs ->", list(ref.rhs.index))

drop = set()
m = model_matrix("x ~ 0", df, materializer="narwhals", drop_rows=drop)
print("materializer='narwhals'    rhs ->", list(m.rhs.index), "shape", m.rhs.shape, "drop set", drop)
bad |= list(m.rhs.index) != expected

m = model_matrix("x ~ 0", nw.from_native(df))
native = m.rhs.to_native()
print("narwhals-wrapped pandas    rhs ->", list(native.index))
bad |= list(native.index) != expected

drop = {0}
m = model_matrix("0", df, materializer="narwhals", drop_rows=drop)
print("caller drop {0}, formula '0'   ->", list(m.index))
bad |= list(m.index) != expected

print("REQUIRED: the rows of the output are the retained input rows, labels", expected,
      "(row 'p' was removed and must not be in the output; row 't' was kept)")
print("DEFECT PRESENT" if bad else "ok")
sys.exit(1 if bad else 0)
