"""C06 d3: with the narwhals materializer a pandas data frame comes back as a
pandas data frame (output type 'narwhals' = native frame) WITHOUT its row labels."""
import sys
import warnings

import numpy as np
import pandas as pd

warnings.filterwarnings("ignore")
from formulaic import ModelSpec, Formula, model_matrix

df = pd.DataFrame(
    {"x": [1.0, np.nan, 3.0, 4.0, 5.0], "a": ["u", "v", "v", "u", "v"]},
    index=list("pqrst"),
)
expected = ["p", "r", "s", "t"]  # row 1 ('q') has a null

bad = False
ref = model_matrix("x + a", df)
print("pandas materializer            ->", type(ref.__wrapped__).__name__, list(ref.index))

drop = set()
m = model_matrix("x + a", df, materializer="narwhals", drop_rows=drop)
print("materializer='narwhals'        ->", type(m.__wrapped__).__name__, list(m.index), "drop set", drop)
if isinstance(m.__wrapped__, pd.DataFrame) and list(m.index) != expected:
    bad = True

m2 = ModelSpec(formula=Formula("x + a"), materializer="narwhals").get_model_matrix(df)
print("ModelSpec(materializer=...)    ->", type(m2.__wrapped__).__name__, list(m2.index))
if isinstance(m2.__wrapped__, pd.DataFrame) and list(m2.index) != expected:
    bad = True

# the same materializer does restore them when output='pandas' is spelled out
m3 = model_matrix("x + a", df, materializer="narwhals", output="pandas")
print("materializer='narwhals', output='pandas' ->", list(m3.index))

print("REQUIRED: the pandas data frame that is returned carries the labels of the retained rows:", expected)
print("DEFECT PRESENT" if bad else "ok")
sys.exit(1 if bad else 0)
