"""C06 d2: factor values that are pandas arrays (Categorical, extension arrays,
Index) have no null check at all: `raise`/`drop` fail although nothing is null."""
import sys
import warnings

import numpy as np
import pandas as pd

warnings.filterwarnings("ignore")
from formulaic import model_matrix

df = pd.DataFrame({"x": [1.0, 2.0, 3.0, 4.0, 5.0], "a": ["u", "v", "v", "u", "v"]})
ctx = {"pd": pd}
formulas = [
    "pd.Categorical(a)",     # pandas.Categorical is explicitly recognised by PandasMaterializer._is_categorical
    "pd.cut(x.values, 2)",   # -> pandas.Categorical
    "C(a.values)",           # pandas 3: `.values` of a str column is an extension array
    "pd.array(x)",           # FloatingArray
]

bad = False
for f in formulas:
    ref = model_matrix(f, df, na_action="ignore", context=ctx)
    print(f"{f!r}: ignore -> {ref.shape}")
    for na in ("raise", "drop"):
        drop = set()
        try:
            m = model_matrix(f, df, na_action=na, drop_rows=drop, context=ctx)
            ok = m.shape[0] == 5 and not drop
            print(f"   {na:5s} -> returned {m.shape}, drop set {drop}")
            bad |= not ok
        except Exception as e:  # noqa: BLE001
            bad = True
            print(f"   {na:5s} -> {type(e).__name__}: {str(e)[:110]}")
print("REQUIRED: no value is null, so `raise` must not error and `drop` must return all 5 rows with an empty drop set")
print("DEFECT PRESENT" if bad else "ok")
sys.exit(1 if bad else 0)
