"""C06 d5: a call that FAILS (nothing is returned, no row is removed) still
leaves null positions behind in the caller's drop set."""
import sys
import warnings

import numpy as np
import pandas as pd

warnings.filterwarnings("ignore")
from formulaic import model_matrix

df = pd.DataFrame({"x": [1.0, np.nan, 3, 4, 5], "a": ["u", "v", "v", "u", "v"], "w": [1.0, 2, 3, 4, np.nan]})

drop = set()
try:
    # user mistake in the contrast of `a` (3 weights for 2 levels): fails while encoding
    model_matrix("x + C(a, {'c1': [1, 2, 3]})", df, drop_rows=drop)
    print("unexpectedly succeeded")
except Exception as e:  # noqa: BLE001
    print(f"call raised {type(e).__name__}: {str(e)[:60]}")
print("caller's drop set after the failed call:", drop)
bad = drop != set()

# consequence: retrying with a formula that does not use `x` at all
m = model_matrix("0 + w + a", df, drop_rows=drop)
print("retry '0 + w + a' with the same set -> rows", list(m.index), "drop set", drop)
print("REQUIRED: failed call removes no row, so the set stays set(); the retry keeps rows [0,1,2,3] (only w is null at 4)")
bad |= list(m.index) != [0, 1, 2, 3]
print("DEFECT PRESENT" if bad else "ok")
sys.exit(1 if bad else 0)
