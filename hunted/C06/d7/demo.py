"""C06 d7: negative (from-the-end) positions in the caller's drop set are
honoured when removing rows, but the reported set / row arithmetic treat them as
distinct positions."""
import sys
import warnings

import numpy as np
import pandas as pd

warnings.filterwarnings("ignore")
from formulaic import model_matrix

df = pd.DataFrame({"x": [1.0, np.nan, 3, 4, 5]}, index=list("pqrst"))
bad = False
drop = {-1}
m = model_matrix("0 + x", df, drop_rows=drop)
removed = sorted(set(range(5)) - {list("pqrst").index(l) for l in m.index})
print("drop_rows={-1}: rows removed (positions)", removed, "| drop set afterwards", drop)
bad |= {int(k) for k in drop} != set(removed)
drop = {4, -1}
try:
    m = model_matrix("1 + x", df, drop_rows=drop)
    print("drop_rows={4,-1}: returned", m.shape)
except Exception as e:  # noqa: BLE001
    bad = True
    print(f"drop_rows={{4,-1}} with an intercept: {type(e).__name__}: {e}")
print("REQUIRED: the drop set equals exactly the positions removed ({1, 4}); or the negative position is rejected up front")
print("DEFECT PRESENT" if bad else "ok")
sys.exit(1 if bad else 0)
