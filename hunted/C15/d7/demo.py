"""C15 d7: a Python fragment containing a triple-quoted string with an embedded quote
character is not taken verbatim: the tokenizer loses track of the string and raises."""
import sys
from formulaic import Formula

bad = False
for formula, same_as in [('f("""a"b""")', "f('a\"b')"), ("{'''it's'''}", '{"it\'s"}'), ('f("""ab""")', "f('ab')")]:
    want = repr(Formula(same_as))
    try:
        got = repr(Formula(formula))
    except Exception as e:
        got = f"{type(e).__name__}: {str(e).splitlines()[0]}"
    ok = got == want
    print(f"{formula!r}: {got}   required (same as {same_as!r}): {want} -> {'ok' if ok else 'DEFECT'}")
    bad |= not ok
sys.exit(1 if bad else 0)
