"""C15 d5: the recorded source span of a quoted token (`name`, {python}, %op%) starts at the
opening quote but stops BEFORE the closing quote, so it delimits neither the token's text
nor the quoted text in the original string."""
import sys
from formulaic.parser.algos.tokenize import tokenize
from formulaic import Formula

bad = False
for formula in ["`a b` + c", "{a+b} + c", "a %in% b"]:
    tok = next(t for t in tokenize(formula) if t.token in ("a b", "a+b", "in"))
    s, e = tok.source_loc
    covered = formula[s:e + 1]
    inner_ok = covered == tok.token
    outer_ok = covered[1:-1] == tok.token and len(covered) == len(tok.token) + 2
    ok = inner_ok or outer_ok
    print(f"{formula!r}: token {tok.token!r} span {tok.source_loc} covers {covered!r} -> {'ok' if ok else 'DEFECT (opening quote included, closing quote excluded)'}")
    bad |= not ok
try:
    Formula("a `b`")
except Exception as e:
    print("visible in error messages:", repr(str(e).replace("\x1b[1;31m", "").replace("\x1b[0m", "")))
print("required: each token's span delimits its text in the original string (either the bare text or the whole quoted text)")
sys.exit(1 if bad else 0)
