"""C15 d8 (low confidence): a call-style Python fragment stops at the first closing bracket
followed by '.', so method chains / attribute access on a call result are not taken as one
fragment, while the same code in braces is."""
import sys
from formulaic import Formula

bad = False
for formula, braced in [("x.abs().clip(0)", "{x.abs().clip(0)}"), ("f(x).T", "{f(x).T}")]:
    want = repr(Formula(braced))
    try:
        got = repr(Formula(formula))
    except Exception as e:
        got = f"{type(e).__name__}: {str(e).splitlines()[0]}"
    ok = got == want
    print(f"{formula!r}: {got}; required (as {braced!r}): {want} -> {'ok' if ok else 'DEFECT'}")
    bad |= not ok
sys.exit(1 if bad else 0)
