"""C15 d9 (low confidence): the legacy u'' string prefix survives normalisation, so two
fragments that differ only in how a string literal is written are different factors."""
import sys
from formulaic import Formula

f = Formula("f(u'x') + f('x') - 1")
print("Formula(\"f(u'x') + f('x') - 1\") ->", repr(f), f"({len(f)} terms)")
print("required: one term (u'x' == 'x', as f(\"x\") + f('x') and f(r'x') + f('x') give one term):", repr(Formula("f(\"x\") + f('x') + f(r'x') - 1")))
sys.exit(1 if len(f) != 1 else 0)
