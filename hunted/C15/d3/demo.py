"""C15 d3: the empty column name `` is silently discarded at the top level of a formula
(but is looked up when it appears inside a Python fragment)."""
import sys
import pandas as pd
from formulaic import Formula, model_matrix

df = pd.DataFrame({"": [7.0, 8.0, 9.0], "a": [1.0, 2.0, 3.0]})
bad = False
for formula, want in [("`` + a", ["Intercept", "", "a"]), ("a + `` + a", ["Intercept", "a", ""]), ("`` - 1", [""])]:
    try:
        cols = list(model_matrix(formula, df).columns)
    except Exception as e:
        cols = f"{type(e).__name__}: {e}"
    ok = cols == want
    print(f"{formula!r}: parsed {Formula(formula)!r}; columns {cols}; required {want} -> {'ok' if ok else 'DEFECT'}")
    bad |= not ok
print("control: '{``} - 1' ->", list(model_matrix("{``} - 1", df).columns), model_matrix("{``} - 1", df).values.ravel().tolist())
print("required: a back-quoted name is taken verbatim (or at least rejected), not dropped so that 'a + `` + a' silently means 'a'")
sys.exit(1 if bad else 0)
