"""C15 d1: a column whose name is "1" cannot be referenced: the back-quoted name `1` is
conflated with the numeric literal 1 (the intercept)."""
import sys
import pandas as pd
from formulaic import Formula, model_matrix

df = pd.DataFrame({"1": [5.0, 6.0, 7.0], "a": [1.0, 2.0, 3.0]})
bad = False

def show(formula, want_cols, want_values):
    global bad
    mm = model_matrix(formula, df)
    cols, vals = list(mm.columns), mm.values.tolist()
    ok = cols == want_cols and vals == want_values
    print(f"formula {formula!r}: parsed as {Formula(formula)!r}")
    print(f"   observed columns {cols} values {vals}")
    print(f"   required columns {want_cols} values {want_values}  -> {'ok' if ok else 'DEFECT'}")
    bad |= not ok

# `1` is a back-quoted NAME: it must look up the column called "1" (values 5,6,7),
# exactly as `2` looks up a column called "2".
show("`1` + a", ["Intercept", "1", "a"], [[1.0, 5.0, 1.0], [1.0, 6.0, 2.0], [1.0, 7.0, 3.0]])
show("`1`:a", ["Intercept", "1:a"], [[1.0, 5.0], [1.0, 12.0], [1.0, 21.0]])
show("`1` - 1", ["1"], [[5.0], [6.0], [7.0]])
# control (works): without an intercept the name is looked up
show("0 + `1`", ["1"], [[5.0], [6.0], [7.0]])

print("Property: 'backtick-quoted names ... are taken verbatim ..., so any column name can be referenced'")
sys.exit(1 if bad else 0)
