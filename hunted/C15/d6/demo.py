"""C15 d6: tokens produced by DefaultFormulaParser.get_tokens_from_formula from a merged
operator token ('~-', '|+', '~ +', ...) all carry the span of the whole merged token:
spans overlap and do not delimit the token text."""
import sys
from formulaic.parser import DefaultFormulaParser

bad = False
for formula in ["y ~- x", "y ~ + x", "y ~ x |- z"]:
    toks = [t for t in DefaultFormulaParser().get_tokens_from_formula(formula, context={}) if t.source_start is not None]
    desc = [(t.token, t.source_loc, formula[t.source_start:t.source_end + 1]) for t in toks]
    print(f"{formula!r}: {desc}")
    for t in toks:
        if t.kind.value == "operator" and formula[t.source_start:t.source_end + 1].replace(" ", "") != t.token:
            print(f"   DEFECT: token {t.token!r} span {t.source_loc} covers {formula[t.source_start:t.source_end + 1]!r}")
            bad = True
    for t1, t2 in zip(toks, toks[1:]):
        if not t1.source_end < t2.source_start:
            print(f"   DEFECT: spans of {t1.token!r} {t1.source_loc} and {t2.token!r} {t2.source_loc} overlap")
            bad = True
print("required: spans delimit each token's text, ordered and non-overlapping")
sys.exit(1 if bad else 0)
