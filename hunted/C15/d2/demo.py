"""C15 d2: a column whose name ends in a backslash cannot be referenced at all."""
import sys
import pandas as pd
from formulaic import model_matrix

bad = False
for name in ["a\\", "\\", "x y\\"]:
    df = pd.DataFrame({name: [1.0, 2.0, 3.0]})
    for formula in ["`" + name + "` - 1", "{`" + name + "`} - 1", "abs(`" + name + "`) - 1"]:
        try:
            mm = model_matrix(formula, df)
            vals = mm.values.ravel().tolist()
            ok = vals == [1.0, 2.0, 3.0]
            print(f"column {name!r}, formula {formula!r}: values {vals} -> {'ok' if ok else 'DEFECT'}")
            bad |= not ok
        except Exception as e:
            bad = True
            print(f"column {name!r}, formula {formula!r}: raised {type(e).__name__}: {str(e).splitlines()[0]} -> DEFECT")
# there is no alternative spelling: doubling the backslash references a different column
df = pd.DataFrame({"a\\": [1.0, 2.0, 3.0], "a\\\\": [7.0, 8.0, 9.0]})
print("`a\\\\` (two backslashes) references:", model_matrix("`a\\\\` - 1", df).values.ravel().tolist(), "(the two-backslash column, verbatim)")
print("required: a back-quoted name is taken verbatim; every column name without a backtick can be referenced")
sys.exit(1 if bad else 0)
