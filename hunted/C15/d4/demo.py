"""C15 d4: a back-quoted NAME whose text equals a Python fragment / a numeric literal is
conflated with it: one of the two distinct factors silently disappears."""
import sys
import pandas as pd
from formulaic import Formula, model_matrix

df = pd.DataFrame({"a": [-1.0, 2.0, -3.0], "abs(a)": [10.0, 20.0, 30.0], "2": [1.0, 1.0, 2.0]})
bad = False

f = "`abs(a)` + abs(a)"   # column named "abs(a)"  +  the call abs(a)
mm = model_matrix(f, df)
print(f"{f!r}: parsed {Formula(f)!r}; columns {list(mm.columns)}; values {mm.values.tolist()}")
ok = mm.shape[1] == 3 and [10.0, 20.0, 30.0] in mm.values.T.tolist() and [1.0, 2.0, 3.0] in mm.values.T.tolist()
print("   required: intercept + the data column (10,20,30) + the computed abs(a) (1,2,3) ->", "ok" if ok else "DEFECT")
bad |= not ok

f2 = "abs(a) + `abs(a)`"
mm2 = model_matrix(f2, df)
print(f"{f2!r}: columns {list(mm2.columns)}; values {mm2.values.tolist()}  (the other one survives: the result depends on the order)")
bad |= mm2.shape[1] != 3

f3 = "`2`:a + 2:a"   # column "2" times a   +   2 * a
mm3 = model_matrix(f3, df)
print(f"{f3!r}: parsed {Formula(f3)!r}; columns {list(mm3.columns)}; values {mm3.values.tolist()}")
ok3 = mm3.shape[1] == 3
print("   required: two different terms (column '2' times a = -1,2,-6; literal 2 times a = -2,4,-6) ->", "ok" if ok3 else "DEFECT")
bad |= not ok3
sys.exit(1 if bad else 0)
