"""C12 / d6: bs(x, df=..., lower_bound=, upper_bound=, extrapolation='extend') with
training values outside the bounds takes the quantile knots from ALL the data, so
interior knots land outside the bounds and the recorded knot vector is not
non-decreasing: there is no B-spline basis on it, and the in-bounds rows are not the
design matrix of any clamped B-spline basis on [lower_bound, upper_bound]."""
import sys, warnings
import numpy as np, pandas as pd
warnings.simplefilter("ignore")
from formulaic import model_matrix

np.set_printoptions(linewidth=160, precision=4, suppress=True)
d = pd.DataFrame({"x": np.arange(11.0)})
res = {}
for mode in ("extend", "clip"):
    f = f"bs(x, df=6, include_intercept=True, lower_bound=4, upper_bound=6, extrapolation='{mode}') - 1"
    m = model_matrix(f, d)
    t = list(m.model_spec.transform_state.values())[0]["knots"]
    res[mode] = (t, m.values[4:7])
    print(f"extrapolation={mode!r}: recorded knots {np.round(t, 3).tolist()}")
    print("  rows for x=4,5,6 (inside the bounds):\n", m.values[4:7])
t = res["extend"][0]
sorted_ok = all(a <= b for a, b in zip(t, t[1:]))
inside_ok = all(4 <= k <= 6 for k in t)
lb_row = res["extend"][1][0]
print("knot vector non-decreasing:", sorted_ok, "| all knots inside [4, 6]:", inside_ok)
print("row at x = lower_bound:", lb_row, " (a clamped B-spline basis gives [1,0,0,0,0,0] there)")
print("required: a valid (non-decreasing) recorded knot vector whose B-spline design matrix is returned, "
      "e.g. quantile knots of the in-bounds data as in R's bs(Boundary.knots=) and as this library does for clip/na/zero")
if not sorted_ok or not np.allclose(lb_row, [1, 0, 0, 0, 0, 0]):
    print("DEFECT"); sys.exit(1)
print("OK"); sys.exit(0)
