"""C12 / d3: bs() on an UNSIGNED integer column with integer bounds: values below the
knots wrap around (x - knot is computed in unsigned arithmetic), so 'extend' returns
astronomically wrong rows below the lower bound."""
import sys, warnings
import numpy as np, pandas as pd
warnings.simplefilter("ignore")
from formulaic import model_matrix

np.set_printoptions(linewidth=160, precision=4, suppress=True)
f = "bs(x, lower_bound=3, upper_bound=5, include_intercept=True, extrapolation='extend') - 1"
vals = [0, 1, 2, 3, 4, 5, 6, 7]
m_u = model_matrix(f, pd.DataFrame({"x": np.array(vals, dtype="uint8")}))
m_f = model_matrix(f, pd.DataFrame({"x": np.array(vals, dtype="float64")}))
print("recorded knots:", list(m_u.model_spec.transform_state.values())[0]["knots"])
# Reference: no interior knots -> cubic Bernstein polynomials on [3, 5], extended.
u = (np.array(vals, dtype=float) - 3) / 2
ref = np.column_stack([(1 - u) ** 3, 3 * u * (1 - u) ** 2, 3 * u**2 * (1 - u), u**3])
print("x:", vals)
print("observed, uint8 column  :\n", m_u.values)
print("observed, float column  :\n", m_f.values)
print("required (Bernstein polynomials on [3,5] extended):\n", ref)
ok_u = np.allclose(m_u.values, ref); ok_f = np.allclose(m_f.values, ref)
print("uint8 matches:", ok_u, "| float matches:", ok_f)
if not ok_u:
    print("DEFECT: rows for x=0,1,2 (below the lower bound) are wrong by ~7 orders of magnitude for the uint8 column.")
    sys.exit(1)
print("OK"); sys.exit(0)
