"""C12 / d5: bs(x, df=0) is treated as 'df not given' and silently returns `degree`
columns, although every other df < degree (+intercept) raises ValueError and the
property promises df columns."""
import sys, warnings
import numpy as np, pandas as pd
warnings.simplefilter("ignore")
from formulaic import model_matrix

d = pd.DataFrame({"x": np.linspace(0, 1, 9)})
res = {}
for df in (0, 1, 2):
    try:
        m = model_matrix(f"bs(x, df={df}) - 1", d)
        res[df] = f"{m.shape[1]} columns"
    except Exception as e:
        res[df] = f"{type(e).__name__}: {str(e)[:70]}"
    print(f"bs(x, df={df}) [degree 3] ->", res[df])
print("required: df columns, or (as for df=1, df=2) ValueError 'Invalid value for `df`'")
if res[0].endswith("columns") and res[0] != "0 columns":
    print("DEFECT: df=0 returned", res[0]); sys.exit(1)
print("OK"); sys.exit(0)
