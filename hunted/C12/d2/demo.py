"""C12 / d2: the cyclic cubic spline of an INTEGER column wraps out-of-range values
into the knot range with integer truncation, so the row is not the periodic
interpolating spline evaluated at that x (a float column with the same values is)."""
import sys, warnings
import numpy as np, pandas as pd
warnings.simplefilter("ignore")
from formulaic import model_matrix
from scipy.interpolate import CubicSpline

np.set_printoptions(linewidth=160, precision=6, suppress=True)
f = "cc(x, knots=[1.0, 2.0], lower_bound=0, upper_bound=2.5) - 1"
vals = [0, 1, 2, 3, 4, 5, 6, 7]
m_int = model_matrix(f, pd.DataFrame({"x": np.array(vals, dtype="int64")}))
m_flt = model_matrix(f, pd.DataFrame({"x": np.array(vals, dtype="float64")}))
knots = np.array(list(m_int.model_spec.transform_state.values())[0]["knots"])
print("recorded knots:", knots)

# Independent reference: cardinal basis of the periodic interpolating cubic spline
x = np.array(vals, dtype=float)
xm = knots[0] + np.mod(x - knots[0], knots[-1] - knots[0])
ref = np.zeros((len(x), len(knots) - 1))
for j in range(len(knots) - 1):
    y = np.zeros(len(knots)); y[j] = 1.0
    if j == 0: y[-1] = 1.0
    ref[:, j] = CubicSpline(knots, y, bc_type="periodic")(xm)

print("x:", vals)
print("observed, int64 column   :\n", m_int.values.T)
print("observed, float64 column :\n", m_flt.values.T)
print("required (periodic cardinal basis at x mod period):\n", ref.T)
ok_int = np.allclose(m_int.values, ref, atol=1e-9)
ok_flt = np.allclose(m_flt.values, ref, atol=1e-9)
print("int column matches reference:", ok_int, "| float column matches reference:", ok_flt)
if not ok_int:
    print("DEFECT: e.g. x=3 must be evaluated at 3-2.5=0.5 but is evaluated at int(0.5)=0 -> row [1,0,0].")
    sys.exit(1)
print("OK"); sys.exit(0)
