"""C12 / d1: bs(..., extrapolation='extend') does not extend the polynomials of
the B-spline when an interior knot coincides with a bound (which is what the
df= route produces whenever the training data has enough ties at its max/min)."""
import sys, warnings
import numpy as np, pandas as pd
warnings.simplefilter("ignore")
from formulaic import model_matrix

np.set_printoptions(linewidth=160, precision=6, suppress=True)

# Training data: more than half of the values sit at the maximum, so the single
# quantile knot chosen for df=5 (cubic, with intercept) is the median == 1.0 == upper bound.
train = pd.DataFrame({"x": [0.0, 0.5, 1.0, 1.0, 1.0, 1.0, 1.0]})
f = "bs(x, df=5, include_intercept=True, extrapolation='extend') - 1"
mm = model_matrix(f, train)
state = list(mm.model_spec.transform_state.values())[0]
t = state["knots"]
print("recorded knot vector:", t)

new = pd.DataFrame({"x": [-1.0, 0.25, 1.0, 1.5, 2.0]})
got = mm.model_spec.get_model_matrix(new).values

# Independent reference.  On the recorded knot vector [0,0,0,0,1,1,1,1,1] the only
# non-empty knot interval is [0, 1]; the four non-degenerate B-splines there are the
# cubic Bernstein polynomials and the fifth (knots 1,1,1,1,1) is identically zero.
# 'extend' is documented as "computed by extending the polynomials of the B-Spline".
assert t == [0.0] * 4 + [1.0] * 5, t
x = new["x"].to_numpy()
want = np.column_stack(
    [(1 - x) ** 3, 3 * x * (1 - x) ** 2, 3 * x**2 * (1 - x), x**3, np.zeros_like(x)]
)
print("x           :", x)
print("observed    :\n", got)
print("required    :\n", want)
bad = ~np.isclose(got, want, atol=1e-9).all(axis=1)
print("rows that differ (x values):", x[bad])
if bad.any():
    print("DEFECT: above the upper bound the values are not the extension of the "
          "B-spline polynomials (below the lower bound, where no knot is tied, they are).")
    sys.exit(1)
print("OK")
sys.exit(0)
