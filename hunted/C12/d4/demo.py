"""C12 / d4: with two or more interior knots equal to the upper bound (the df= route
with many ties at the max), bs() puts x == upper bound on a DEGENERATE basis column
(a B-spline whose knots all coincide, identically zero) instead of on the last real
B-spline, whose left limit there is 1."""
import sys, warnings
import numpy as np, pandas as pd
warnings.simplefilter("ignore")
from formulaic import model_matrix

np.set_printoptions(linewidth=160, precision=6, suppress=True)
train = pd.DataFrame({"x": [0.0, 1.0, 2.0, 2.0, 2.0, 2.0, 2.0, 2.0, 2.0]})
f = "bs(x, df=4, degree=1, include_intercept=True) - 1"   # 2 quantile knots, both == 2.0 == max
mm = model_matrix(f, train)
t = list(mm.model_spec.transform_state.values())[0]["knots"]
print("recorded knot vector:", t)           # [0,0,2,2,2,2]
assert t == [0.0, 0.0, 2.0, 2.0, 2.0, 2.0], t
# B-splines of degree 1 on this vector: B0 knots (0,0,2) = 1-x/2 ; B1 knots (0,2,2) = x/2 ;
# B2 knots (2,2,2) == 0 ; B3 knots (2,2,2) == 0.   Design matrix row at the right end point
# (closed on the right, as for any clamped basis): [0, 1, 0, 0].
x = np.array([0.0, 1.0, 1.999999, 2.0])
got = mm.model_spec.get_model_matrix(pd.DataFrame({"x": x})).values
want = np.column_stack([1 - x / 2, x / 2, 0 * x, 0 * x])
print("x        :", x)
print("observed :\n", got)
print("required :\n", want)
if not np.allclose(got, want, atol=1e-9):
    print("DEFECT: at x == upper bound the weight 1 sits on column 3 (identically-zero B-spline with "
          "knots 2,2,2) and the real hat function x/2 drops from 0.9999995 to 0.")
    sys.exit(1)
print("OK"); sys.exit(0)
