"""C12 / d7 (numeric extremes): cardinal cubic-spline bases (and B-splines) are invariant
under rescaling of x, but cr()/cc() return all-NaN for perfectly representable data of
magnitude 1e120 (or 1e-160), and bs() returns wrong finite values / NaN once
upper_bound - lower_bound overflows."""
import sys, warnings
import numpy as np, pandas as pd
warnings.simplefilter("ignore")
from formulaic import model_matrix

np.set_printoptions(linewidth=160, precision=5, suppress=True)
base = np.array([0.0, 0.25, 0.5, 0.75, 1.0])
bad = False
for f in ("cr(x, df=3) - 1", "cc(x, df=3) - 1"):
    ref = model_matrix(f, pd.DataFrame({"x": base})).values
    for s in (1e100, 1e120, 1e-160):
        got = model_matrix(f, pd.DataFrame({"x": base * s}), na_action="ignore").values
        ok = got.shape == ref.shape and np.allclose(got, ref, atol=1e-9)
        bad |= not ok
        print(f"{f:18s} x*{s:g}: {'equals the basis for x (required)' if ok else 'observed ' + str(got[1]) + ' required ' + str(ref[1])}")
x = np.array([-9e307, -5e307, 0.0, 5e307, 9e307])
f = "bs(x, df=5, include_intercept=True) - 1"
got = model_matrix(f, pd.DataFrame({"x": x}), na_action="ignore").values
ref = model_matrix(f, pd.DataFrame({"x": x / 1e300})).values
print("bs, x = [-9e307 .. 9e307]: observed\n", got, "\nrequired (same as for x/1e300)\n", ref)
bad |= not np.allclose(got, ref, atol=1e-9, equal_nan=False)
if bad:
    print("DEFECT"); sys.exit(1)
print("OK"); sys.exit(0)
