"""C05 d8 (low confidence): an integer column with a missing value used as a categorical.
pandas (nullable Int64) and narwhals-on-pandas name the levels 2, 4; narwhals on the
equivalent pyarrow table (int64 with a null) names them 2.0, 4.0, because the series is
converted with `to_pandas()` which turns int-with-null into float."""
import sys, warnings
warnings.filterwarnings("ignore")
import numpy as np, pandas as pd, pyarrow as pa
from formulaic import model_matrix

df = pd.DataFrame({"k": pd.array([1, 2, None, 4], dtype="Int64")})
tbl = pa.Table.from_pandas(df, preserve_index=False)
print("arrow schema:", tbl.schema.field("k"))
names = {}
for mat, data, label in [("pandas", df, "pandas"), ("narwhals", df, "narwhals/pandas"), ("narwhals", tbl, "narwhals/arrow")]:
    m = model_matrix("C(k)", data, materializer=mat, output="numpy")
    names[label] = tuple(m.model_spec.column_names)
    print(f"{label:16s} {names[label]} {np.asarray(m, dtype=float).tolist()}")
bad = len(set(names.values())) != 1
print("REQUIRED: same matrix / same column names (names available from the attached spec) on all routes.")
print("DEFECT PRESENT" if bad else "ok")
sys.exit(1 if bad else 0)
