"""C05 d4: a term whose only factor evaluates to a scalar (e.g. `x.max()`, `len(x)`, `I(1)`)
is broadcast to a constant column by the pandas materializer for output="pandas" and by the
narwhals materializer on pandas input (pandas and numpy output), but raises for
output="numpy" in the pandas materializer and for pandas/numpy output in the narwhals
materializer on pyarrow input."""
import sys, warnings
warnings.filterwarnings("ignore")
import numpy as np, pandas as pd, pyarrow as pa, scipy.sparse as sp
from formulaic import model_matrix

df = pd.DataFrame({"x": [1.0, 2.0, 5.0]})
tbl = pa.Table.from_pandas(df, preserve_index=False)
formula = "x.max()"
ref = None
bad = False
for mat, data, label in [("pandas", df, "pandas"), ("narwhals", df, "narwhals/pandas"), ("narwhals", tbl, "narwhals/arrow")]:
    for out in ["pandas", "numpy"]:
        try:
            m = model_matrix(formula, data, materializer=mat, output=out)
            res = (tuple(m.model_spec.column_names), np.asarray(m, dtype=float).tolist())
        except Exception as e:
            res = ("RAISED", type(e).__name__, str(e)[:80])
        if ref is None:
            ref = res
        bad |= res != ref
        print(f"{label:16s} {out:6s} {res}" + ("" if res == ref else "   <-- differs"))
print("REQUIRED: same numbers for pandas and numpy output, and the same matrix from the pandas "
      "and narwhals materializers (pandas or Arrow input).")
print("DEFECT PRESENT" if bad else "ok")
sys.exit(1 if bad else 0)
