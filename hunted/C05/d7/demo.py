"""C05 d7: `hashed` of a text column with a missing value: the missing cell is hashed through
its string representation, which is 'nan' under the pandas materializer (and narwhals on
pandas) but 'None' under narwhals on the equivalent pyarrow table, so the row lands in a
different bucket."""
import sys, warnings
warnings.filterwarnings("ignore")
import numpy as np, pandas as pd, pyarrow as pa
from formulaic import model_matrix

df = pd.DataFrame({"s": ["a", "b", None, "a"]})
tbl = pa.Table.from_pandas(df, preserve_index=False)
formula = "0 + hashed(s, levels=7)"
res = {}
for na in ["drop", "ignore"]:
    for mat, data, label in [("pandas", df, "pandas"), ("narwhals", df, "narwhals/pandas"), ("narwhals", tbl, "narwhals/arrow")]:
        m = model_matrix(formula, data, materializer=mat, output="numpy", na_action=na)
        res[(na, label)] = np.asarray(m, dtype=float)
        print(f"na_action={na:6s} {label:16s} shape={res[(na,label)].shape} bucket per row={res[(na,label)].argmax(axis=1).tolist()}")
bad = any(
    res[(na, "pandas")].shape != res[(na, l)].shape or not np.array_equal(res[(na, "pandas")], res[(na, l)])
    for na in ["drop", "ignore"] for l in ["narwhals/pandas", "narwhals/arrow"]
)
print("REQUIRED: the pandas and narwhals materializers (pandas or Arrow input) produce the same matrix.")
print("DEFECT PRESENT" if bad else "ok")
sys.exit(1 if bad else 0)
