"""C05 d6: integers above 2**53: the output types do not hold the same numbers.
`big` (with the float intercept) : pandas and sparse output keep 9007199254740993 exactly,
numpy output holds 9007199254740992.   `0 + big:A` : pandas and numpy keep ...993, sparse
output holds ...992."""
import sys, warnings
warnings.filterwarnings("ignore")
import numpy as np, pandas as pd, scipy.sparse as sp
from formulaic import model_matrix

N = 2**53 + 1
df = pd.DataFrame({"big": np.array([N, 2, 3], dtype="int64"), "A": list("aba")})
bad = False
for formula, col in [("big", 1), ("0 + big:A", 0)]:
    got = {}
    for out in ["pandas", "numpy", "sparse"]:
        m = model_matrix(formula, df, output=out)
        if out == "pandas":
            v = m.iloc[0, col]
        elif out == "numpy":
            v = np.asarray(m)[0, col]
        else:
            v = m.tocsc()[0, col]
        got[out] = int(v)
        print(f"{formula:10s} output={out:6s} column {m.model_spec.column_names[col]!r} row 0 holds {int(v)} (dtype {getattr(v, 'dtype', type(v))})")
    bad |= len(set(got.values())) != 1
print(f"REQUIRED: pandas, numpy and sparse outputs hold the same numbers (here {N}).")
print("DEFECT PRESENT" if bad else "ok")
sys.exit(1 if bad else 0)
