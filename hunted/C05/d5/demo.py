"""C05 d5: the two materializers classify data columns differently.

The pandas materializer calls a column categorical only for object / category / string dtypes;
the narwhals materializer calls everything categorical that narwhals does not report as
numeric or boolean.  For the same pandas frame (and formula) they therefore disagree on
 (a) a datetime (or timedelta) column: pandas materializer -> numerical -> dies with an internal
     numpy error; narwhals (pandas or pyarrow input) -> categorical -> returns a matrix;
 (b) a pandas Sparse[float64] column: pandas materializer -> one numerical column `sp`;
     narwhals on the same frame -> treatment-coded categorical `sp[T.1.0]`, `sp[T.2.0]`.
"""
import sys, warnings
warnings.filterwarnings("ignore")
import numpy as np, pandas as pd, pyarrow as pa
from formulaic import model_matrix

def route(formula, mat, data):
    try:
        m = model_matrix(formula, data, materializer=mat, output="numpy")
        return (tuple(m.model_spec.column_names), np.asarray(m, dtype=float).tolist())
    except Exception as e:
        return ("RAISED", type(e).__name__, str(e)[:90])

bad = False
df = pd.DataFrame({"d": pd.to_datetime(["2020-01-01", "2020-01-02", "2020-01-01"])})
tbl = pa.Table.from_pandas(df, preserve_index=False)
res = {l: route("d", m, d) for m, d, l in [("pandas", df, "pandas"), ("narwhals", df, "narwhals/pandas"), ("narwhals", tbl, "narwhals/arrow")]}
for l, r in res.items():
    print(f"(a) formula `d`  {l:16s} {r}")
bad |= len(set(map(repr, res.values()))) != 1

sdf = pd.DataFrame({"sp": pd.arrays.SparseArray([0.0, 1.0, 0.0, 2.0])})
res = {l: route("sp", m, d) for m, d, l in [("pandas", sdf, "pandas"), ("narwhals", sdf, "narwhals/pandas")]}
for l, r in res.items():
    print(f"(b) formula `sp` {l:16s} {r}")
bad |= len(set(map(repr, res.values()))) != 1

print("REQUIRED: the pandas and narwhals materializers (pandas or Arrow input) produce the same matrix.")
print("DEFECT PRESENT" if bad else "ok")
sys.exit(1 if bad else 0)
