"""C05 d3: a numerical factor whose value is a Python scalar or a list (both are accepted:
pandas and numpy output are produced) makes output="sparse" raise an internal
AttributeError/IndexError, for every materializer."""
import sys, warnings
warnings.filterwarnings("ignore")
import numpy as np, pandas as pd, pyarrow as pa, scipy.sparse as sp
from formulaic import model_matrix

df = pd.DataFrame({"x": [1.0, 2.0, 3.0], "i": [3, 1, 2]})
tbl = pa.Table.from_pandas(df, preserve_index=False)
bad = False
for formula in ["{3}:x", "x.max():x", "{[5, 6, 7]}", "sorted(i)"]:
    ref = None
    for mat, data, label in [("pandas", df, "pandas"), ("narwhals", df, "narwhals/pandas"), ("narwhals", tbl, "narwhals/arrow")]:
        for out in ["pandas", "numpy", "sparse"]:
            try:
                m = model_matrix(formula, data, materializer=mat, output=out)
                v = np.asarray(m.todense() if sp.issparse(m) else m, dtype=float)
                res = (tuple(m.model_spec.column_names), v.tolist())
            except Exception as e:
                res = ("RAISED", type(e).__name__, str(e)[:80])
            if ref is None:
                ref = res
            flag = "" if res == ref else "   <-- differs from pandas/pandas"
            bad |= res != ref
            print(f"{formula:12s} {label:16s} {out:6s} {res}{flag}")
print("REQUIRED: pandas, numpy and sparse outputs hold the same numbers in the same column order.")
print("DEFECT PRESENT" if bad else "ok")
sys.exit(1 if bad else 0)
