"""C05 d2: the documented `lag` transform works with the pandas materializer but raises
with the narwhals materializer (pandas or pyarrow input)."""
import sys, warnings
warnings.filterwarnings("ignore")
import numpy as np, pandas as pd, pyarrow as pa
from formulaic import model_matrix

df = pd.DataFrame({"x": [1.0, 2.0, 3.0, 4.0]})
tbl = pa.Table.from_pandas(df, preserve_index=False)
formula = "x + lag(x)"

ref = model_matrix(formula, df, materializer="pandas", output="numpy")
print("pandas materializer:", ref.model_spec.column_names, np.asarray(ref).tolist())
bad = False
for label, data in [("narwhals on pandas", df), ("narwhals on pyarrow", tbl)]:
    try:
        m = model_matrix(formula, data, materializer="narwhals", output="numpy")
        same = tuple(m.model_spec.column_names) == tuple(ref.model_spec.column_names) and np.array_equal(np.asarray(m, dtype=float), np.asarray(ref, dtype=float))
        print(label, "->", np.asarray(m).tolist(), "same:", same)
        bad |= not same
    except Exception as e:
        print(label, "-> raised", type(e).__name__, ":", str(e)[:200])
        bad = True
print("REQUIRED: the pandas and narwhals materializers (pandas or Arrow input) produce the same matrix.")
print("DEFECT PRESENT" if bad else "ok")
sys.exit(1 if bad else 0)
