"""C05 d1: the narwhals materializer merges model-matrix columns that share a name.

Formula  A + `A[T.b]`  on data that has a categorical column `A` (levels a,b,c) and
a numeric column literally named `A[T.b]`.  The spec reports four columns
('Intercept', 'A[T.b]', 'A[T.c]', 'A[T.b]'); the pandas materializer returns all four
(for pandas, numpy and sparse output).  The narwhals materializer (pandas or pyarrow
input) returns only three columns for output="pandas"/"numpy", and the surviving
`A[T.b]` column holds the numeric data column instead of the indicator of level b.
"""
import sys, warnings
warnings.filterwarnings("ignore")
import numpy as np, pandas as pd, pyarrow as pa, scipy.sparse as sp
from formulaic import model_matrix

df = pd.DataFrame({"A": list("abca"), "A[T.b]": [10.0, 20.0, 30.0, 40.0]})
tbl = pa.Table.from_pandas(df, preserve_index=False)
formula = "A + `A[T.b]`"

def dense(m):
    return np.asarray(m.todense() if sp.issparse(m) else m, dtype=float)

ref = model_matrix(formula, df, materializer="pandas", output="numpy")
ref_names, ref_vals = tuple(ref.model_spec.column_names), dense(ref)
print("reference (pandas materializer, numpy):", ref_names, ref_vals.tolist())

bad = False
for label, data in [("narwhals on pandas", df), ("narwhals on pyarrow", tbl)]:
    for out in ["pandas", "numpy", "sparse"]:
        m = model_matrix(formula, data, materializer="narwhals", output=out)
        names, vals = tuple(m.model_spec.column_names), dense(m)
        same = names == ref_names and vals.shape == ref_vals.shape and np.array_equal(vals, ref_vals)
        print(f"{label:20s} output={out:6s} spec names={names} shape={vals.shape} same_as_reference={same}")
        if not same:
            print("    values:", vals.tolist())
            bad = True
print("REQUIRED: every materializer/output holds the same numbers in the same column order "
      "(4 columns, as named by the attached spec).")
print("DEFECT PRESENT" if bad else "ok")
sys.exit(1 if bad else 0)
