"""C07 defect 3: keyword/tuple-structured specs whose parts carry their own state.

`ModelSpecs(p=spec_p, q=spec_q)` is the keyword structure for already fitted
specs.  The joint build pools the transform state (and encoder state) of all
parts into one dictionary keyed by the transform's text, so when two parts use
the same expression (`center(x)`) but were fitted on different data, the last
part's state silently overwrites the other's: part `p` is centred with the
mean remembered by `q`, and the spec attached to the returned part `p` has had
its state replaced.  Materializing part `p` alone (same data, same drop set)
uses p's own state.
"""
import sys
import warnings

import numpy as np
import pandas as pd

from formulaic import ModelSpecs, model_matrix

warnings.simplefilter("ignore")

train_p = pd.DataFrame({"x": [1.0, 2.0, 3.0, 4.0], "y": [1.0, 2.0, 3.0, 4.0]})       # mean(x) = 2.5
train_q = pd.DataFrame({"x": [10.0, 20.0, 30.0, 40.0], "y": [1.0, 2.0, 3.0, 4.0]})   # mean(x) = 25
new = pd.DataFrame({"x": [1.0, 2.0, np.nan, 4.0], "y": [np.nan, 2.0, 3.0, 4.0]})

spec_p = model_matrix("center(x)", train_p).model_spec
spec_q = model_matrix("center(x) + y", train_q).model_spec

specs = ModelSpecs(p=spec_p, q=spec_q)
dropped = set()
joint = specs.get_model_matrix(new, drop_rows=dropped)

alone_p = spec_p.get_model_matrix(new, drop_rows=set(dropped))
alone_q = spec_q.get_model_matrix(new, drop_rows=set(dropped))

print("jointly dropped rows:", sorted(int(i) for i in dropped))
print("part p of the joint build:\n", joint.p.to_string())
print("part p alone (its own spec, same data, same drop set):\n", alone_p.to_string())
print("state of the spec given for p      :", spec_p.transform_state)
print("state of the spec attached to part p:", joint.p.model_spec.transform_state)

ok_p = np.array_equal(joint.p.to_numpy(), alone_p.to_numpy())
ok_q = np.array_equal(joint.q.to_numpy(), alone_q.to_numpy())
regen_p = joint.model_spec.p.get_model_matrix(new, drop_rows=set(dropped))
print("rows equal across parts:", list(joint.p.index) == list(joint.q.index))
if not (ok_p and ok_q):
    print(
        "\nDEFECT PRESENT: part p equals its separate build: %s; part q: %s "
        "(property: 'each part equals the matrix obtained by materializing that part's terms alone ... "
        "with the jointly dropped rows supplied as the drop set')." % (ok_p, ok_q)
    )
    sys.exit(1)
print("OK")
sys.exit(0)
