"""C07 defect 2: a structured formula without any leaf part cannot be materialized.

Empty tuples are accepted as (sub)structure -- `Formula(((), "x"))` gives back
matrices of shape `((), <matrix>)` -- but when the structure holds no leaf at
all (`Formula(())`, `Formula(k=())`, `Formula(((), ()))`) the joint build dies
with an internal `RuntimeError: Provided ModelSpec instances are not
consistent.` instead of returning the (empty) structure of the formula.
"""
import sys
import warnings

import pandas as pd

from formulaic import Formula, model_matrix
from formulaic.utils.structured import Structured

warnings.simplefilter("ignore")
df = pd.DataFrame({"x": [1.0, 2.0, 3.0]})


def shape_of(s):
    if isinstance(s, Structured):
        return {k: shape_of(v) for k, v in s._structure.items()}
    if isinstance(s, tuple):
        return tuple(shape_of(v) for v in s)
    return "*"


ref = Formula(((), "x"))
print("reference: Formula(((), 'x')) ->", shape_of(ref.get_model_matrix(df)), "(empty tuples are legal structure)")

bad = 0
for label, make in [
    ("Formula(())", lambda: Formula(())),
    ("Formula(k=())", lambda: Formula(k=())),
    ("Formula(((), ()))", lambda: Formula(((), ()))),
]:
    formula = make()
    want = shape_of(formula)
    try:
        got = shape_of(formula.get_model_matrix(df))
    except Exception as e:  # noqa: BLE001
        bad += 1
        print(f"{label}: formula shape {want}; observed {type(e).__name__}: {e}; required matrices of shape {want}")
        continue
    if got != want:
        bad += 1
        print(f"{label}: formula shape {want}; observed matrices of shape {got}")
    else:
        print(f"{label}: ok, shape {got}")

try:
    model_matrix((), df)
except Exception as e:  # noqa: BLE001
    print(f"model_matrix((), df): {type(e).__name__}: {e}")

if bad:
    print("\nDEFECT PRESENT (property: 'the result has the same nested shape as the formula', for any nesting of tuples and keywords).")
    sys.exit(1)
print("OK")
sys.exit(0)
