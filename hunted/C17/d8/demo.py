"""C17 d8: a name that is only assigned inside the factor (:=) is reported as a required data column."""
import sys, warnings
warnings.filterwarnings("ignore")
import pandas as pd
from formulaic import Formula, model_matrix

df = pd.DataFrame({"y": [1.0, 2, 3, 4], "a": [4.0, 3, 2, 1], "b": [0.0, 1, 0, 1]})
f = Formula("y ~ I((b := a * 2) + b)")
mm = f.get_model_matrix(df)
bad = False
for label, req in (("before", f.required_variables), ("after", mm.model_spec.required_variables)):
    req = sorted(map(str, req))
    print(f"{label}: required={req}")
    if "b" in req:
        try:
            f.get_model_matrix(df[[c for c in df.columns if c in req and c != "b"]])
            print("   OBSERVED: 'b' is reported as required (source 'data') but materialization succeeds without it")
            bad = True
        except Exception as e:
            print("   removing b fails:", type(e).__name__, e)
print("sources:", {str(v): v.source for v in mm.model_spec.rhs.variables}, "(b's value never came from the data)")
rhs = list(model_matrix("I((y := a)) ~ .", df).rhs.columns)
print("'I((y := a)) ~ .' rhs:", rhs)
if "y" not in rhs:
    print("   OBSERVED: data column y is not read on the left-hand side (only assigned), yet '.' leaves it out")
    bad = True
print("REQUIRED: required variables are necessary (removing any one makes materialization fail with a factor-evaluation"
      " error); the reported source is where the value actually came from")
sys.exit(1 if bad else 0)
