"""C17 d7: a data column whose name reads like a Python factor ("log(a)") collides with that Python factor."""
import sys, warnings
warnings.filterwarnings("ignore")
import numpy as np, pandas as pd
from formulaic import model_matrix, Formula

# e.g. the output of an earlier model matrix re-used as data
df = pd.DataFrame({"y": [1.0, 2, 3, 4], "a": [1.0, 2, 3, 4], "log(a)": [100.0, 200, 300, 400]})
bad = False

m = model_matrix("y ~ log(a) + .", df)
print("'y ~ log(a) + .' rhs:", list(m.rhs.columns), "row 1:", np.asarray(m.rhs)[1].tolist(),
      "required:", sorted(map(str, m.model_spec.required_variables)))
if "log(a)" not in set(map(str, m.model_spec.required_variables)):
    print("   OBSERVED: '.' did not add the data column 'log(a)' (value 200 in row 1): it was absorbed by the Python factor log(a)")
    bad = True

df2 = pd.DataFrame({"a": [1.0, 2, 3, 4], "b": [2.0, 1, 5, 3], "I(a)": [5.0, 5, 5, 6]})
f = Formula("`I(a)`:b + I(a)")
m2 = f.get_model_matrix(df2)
print("'`I(a)`:b + I(a)' columns:", list(m2.columns), "row 0:", np.asarray(m2)[0].tolist(),
      "| before:", sorted(map(str, f.required_variables)), "after:", sorted(map(str, m2.model_spec.required_variables)),
      "| sources:", {str(v): v.source for v in m2.model_spec.variables})
if np.asarray(m2)[0].tolist() != [1.0, 1.0, 10.0]:
    print("   OBSERVED: the quoted name `I(a)` (data column, 5.0 in row 0, so `I(a)`:b = 10.0) was evaluated as the Python call I(a) (1.0*2.0 = 2.0)")
    bad = True
try:
    f.get_model_matrix(df2[["a", "b"]])
    print("   OBSERVED: 'I(a)' is reported as required before materialization but removing it does not make materialization fail")
    bad = True
except Exception as e:
    print("   removing 'I(a)' fails:", type(e).__name__)
print("REQUIRED: names resolve to the data first (a quoted name is a data column); '.' expands to exactly the data"
      " columns not used on the left-hand side; reported required variables are necessary")
sys.exit(1 if bad else 0)
