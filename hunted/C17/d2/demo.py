"""C17 d2: method call on a column: Formula.required_variables (before materialization) omits the column."""
import sys, warnings
warnings.filterwarnings("ignore")
import pandas as pd
from formulaic import Formula
from formulaic.errors import FactorEvaluationError

df = pd.DataFrame({"y": [1.0, 2, 3, 4], "a": [-4.0, 3, -2, 1], "z": [0.0, 1, 0, 1]})
bad = False
for text in ["y ~ a.abs()", "y ~ I(a.shift(1).fillna(0))"]:
    f = Formula(text)
    before = sorted(map(str, f.required_variables))
    f.get_model_matrix(df)  # works on the full data
    restricted = df[[c for c in df.columns if c in before]]
    print("formula:", text, "| required before materialization:", before)
    try:
        f.get_model_matrix(restricted)
        print("   restricted to", list(restricted.columns), "-> succeeded")
    except FactorEvaluationError as e:
        print("   OBSERVED: restricted to", list(restricted.columns), "-> FactorEvaluationError:", e)
        bad = True
    if "a" not in before:
        bad = True
print("REQUIRED: the reported required variables are sufficient ... before and after materialization"
      " (column 'a' must be reported).")
sys.exit(1 if bad else 0)
