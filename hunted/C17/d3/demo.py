"""C17 d3: attribute access: the required variable is the dotted chain, not the data column."""
import sys, warnings
warnings.filterwarnings("ignore")
import pandas as pd
from formulaic import Formula

df = pd.DataFrame({"y": [1.0, 2, 3, 4], "a": [4.0, 3, 2, 1], "z": [0.0, 1, 0, 1]})
bad = False
for text in ["y ~ I(a.values)", "y ~ a.abs() + z"]:
    f = Formula(text)
    mm = f.get_model_matrix(df)
    for label, req in (("before", f.required_variables), ("after", mm.model_spec.required_variables)):
        req = sorted(map(str, req))
        not_columns = [r for r in req if r not in df.columns]
        restricted = df[[c for c in df.columns if c in req]]
        try:
            f.get_model_matrix(restricted)
            ok = "succeeds"
        except Exception as e:
            ok = f"FAILS ({type(e).__name__}: {e})"
        print(f"{text!r} {label}: required={req}; not data columns: {not_columns}; restricted to {list(restricted.columns)} -> {ok}")
        if not_columns or ok != "succeeds":
            bad = True
print("REQUIRED: required variables are data columns, and materialization succeeds on data restricted to exactly those columns ('a').")
sys.exit(1 if bad else 0)
