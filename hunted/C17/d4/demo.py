"""C17 d4: '.' includes a column that IS used on the left-hand side (via attribute access / method call / Q)."""
import sys, warnings
warnings.filterwarnings("ignore")
import pandas as pd
from formulaic import model_matrix

df = pd.DataFrame({"y": [1.0, -2, 3, 4], "a": [4.0, 3, 2, 1], "b": [0.0, 1, 0, 1]})
bad = False
ref = list(model_matrix("np.abs(y) ~ .", df).rhs.columns)
print("reference 'np.abs(y) ~ .'  rhs:", ref)
for text in ["y.abs() ~ .", "I(y.values) ~ .", "Q('y') ~ ."]:
    rhs = list(model_matrix(text, df).rhs.columns)
    print(f"{text!r:22} rhs: {rhs}")
    if "y" in rhs:
        print("   OBSERVED: 'y' is used on the left-hand side and is ALSO among the '.' columns")
        bad = True
print("REQUIRED: '.' expands to exactly the data columns not used on the left-hand side, in data order -> ['Intercept', 'a', 'b']")
sys.exit(1 if bad else 0)
