"""C17 d10: before materialization, a column named like a built-in transform used in a Python factor is not reported."""
import sys, warnings
warnings.filterwarnings("ignore")
import pandas as pd
from formulaic import Formula, ModelSpec

df = pd.DataFrame({"y": [1.0, 2, 3, 4], "scale": [4.0, 3, 2, 1], "b": [0.0, 1, 0, 1]})
bad = False
for text in ["y ~ I(scale * 2)", "y ~ np.log(scale) + b"]:
    f = Formula(text)
    before = sorted(map(str, f.required_variables))
    before_spec = sorted(map(str, ModelSpec.from_spec(f).required_variables))
    mm = f.get_model_matrix(df)
    after = sorted(map(str, mm.model_spec.required_variables))
    print(f"{text!r}: before={before} (ModelSpec before: {before_spec}) after={after}")
    try:
        f.get_model_matrix(df[before])
        print("   restricted to 'before' columns: succeeds")
    except Exception as e:
        print(f"   OBSERVED: restricted to {before}: {type(e).__name__}: {str(e)[:120]}")
        bad = True
    if before != after:
        bad = True
print("REQUIRED: the reported required variables are sufficient ..., before and after materialization"
      " (the data column 'scale' is read by the factor - names resolve to the data first)")
sys.exit(1 if bad else 0)
