"""C17 d6: a data column named "1" is taken for the intercept: `1` never reads the data, '.' drops the column."""
import sys, warnings
warnings.filterwarnings("ignore")
import numpy as np, pandas as pd
from formulaic import model_matrix

df = pd.DataFrame({"y": [1.0, 2, 3], "1": [3.0, 1, 2], "x": [1.0, 2, 4]})
bad = False

mm = model_matrix("y ~ .", df)
print("'y ~ .'      rhs columns:", list(mm.rhs.columns), " required:", sorted(map(str, mm.model_spec.required_variables)))
if list(mm.rhs.columns) != ["Intercept", "1", "x"]:
    print("   OBSERVED: data column '1' is missing from the '.' expansion (with 'y ~ 0 + .' it is there:",
          list(model_matrix("y ~ 0 + .", df).rhs.columns), ")")
    bad = True

mm = model_matrix("y ~ `1` + x", df)
print("'y ~ `1` + x' rhs columns:", list(mm.rhs.columns), " values row 0:", np.asarray(mm.rhs)[0].tolist(),
      " variables:", {str(v): v.source for v in mm.rhs.model_spec.variables})
if "1" not in mm.rhs.columns or "1" not in set(map(str, mm.model_spec.required_variables)):
    print("   OBSERVED: the quoted name `1` did not resolve to the data column '1' (values 3,1,2); it vanished into the intercept")
    bad = True
print("REQUIRED: names resolve to the data first; '.' expands to exactly the data columns not used on the"
      " left-hand side, in data order -> ['Intercept', '1', 'x'] with '1' a required variable from 'data'")
sys.exit(1 if bad else 0)
