"""C17 d9: removing a required column whose name is also a built-in transform fails with ValueError/TypeError, not FactorEvaluationError."""
import sys, warnings
warnings.filterwarnings("ignore")
import pandas as pd
from formulaic import Formula
from formulaic.errors import FactorEvaluationError

df = pd.DataFrame({"y": [1.0, 2, 3, 4], "scale": [4.0, 3, 2, 1], "lag": [0.0, 1, 0, 1]})
bad = False
for text, kw in [("y ~ scale", {}), ("y ~ lag + scale", {}), ("y ~ scale", {"na_action": "ignore", "output": "numpy"})]:
    f = Formula(text)
    mm = f.get_model_matrix(df, **kw)
    req = sorted(map(str, mm.model_spec.required_variables))
    print(f"{text!r} {kw}: required={req}, sources={ {str(v): v.source for v in mm.model_spec.rhs.variables} }")
    for r in req:
        try:
            f.get_model_matrix(df[[c for c in req if c != r]], **kw)
            print(f"   removing {r!r}: succeeded"); bad = True
        except FactorEvaluationError as e:
            print(f"   removing {r!r}: FactorEvaluationError (as required)")
        except Exception as e:
            print(f"   OBSERVED removing {r!r}: {type(e).__name__}: {str(e)[:110]}")
            bad = True
print("REQUIRED: removing any one of the required variables makes materialization fail with a factor-evaluation error")
sys.exit(1 if bad else 0)
