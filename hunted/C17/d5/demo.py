"""C17 d5: Q('name') (documented quoting of column names): the column is not a required variable."""
import sys, warnings
warnings.filterwarnings("ignore")
import pandas as pd
from formulaic import Formula

df = pd.DataFrame({"y": [1.0, 2, 3, 4], "a b": [4.0, 3, 2, 1], "z": [0.0, 1, 0, 1]})
f = Formula("y ~ Q('a b')")
mm = f.get_model_matrix(df)
bad = False
for label, req in (("before", f.required_variables), ("after", mm.model_spec.required_variables)):
    req = sorted(map(str, req))
    restricted = df[[c for c in df.columns if c in req]]
    try:
        f.get_model_matrix(restricted)
        res = "succeeds"
    except Exception as e:
        res = f"FAILS: {type(e).__name__}: {e}"
        bad = True
    print(f"{label}: required={req}; materialization on data restricted to {list(restricted.columns)} {res}")
print("variables/sources after:", {str(v): v.source for v in mm.model_spec.rhs.variables})
print("REQUIRED: required variables are sufficient -> 'a b' (source 'data') must be reported, as it is for y ~ `a b`:",
      sorted(map(str, Formula('y ~ `a b`').required_variables)))
sys.exit(1 if bad else 0)
