"""C17 d1: back-quoted name + attribute access: required variables omit the column."""
import sys, warnings
warnings.filterwarnings("ignore")
import pandas as pd
from formulaic import Formula

df = pd.DataFrame({"y": [1.0, 2, 3, 4], "a b": [4.0, 3, 2, 1], "z": [0.0, 1, 0, 1]})
f = Formula("y ~ I(`a b`.values)")
mm = f.get_model_matrix(df)
spec = mm.model_spec
after = sorted(map(str, spec.required_variables))
before = sorted(map(str, f.required_variables))
srcs = {str(v): v.source for v in spec.rhs.variables}
print("formula            :", "y ~ I(`a b`.values)")
print("required (before)  :", before)
print("required (after)   :", after)
print("variables / sources:", srcs)

bad = False
restricted = df[[c for c in df.columns if c in after]]
try:
    f.get_model_matrix(restricted)
    print("materialization on data restricted to the reported (after) variables: succeeded")
except Exception as e:
    print("materialization on data restricted to", list(restricted.columns), "FAILED:", type(e).__name__, e)
    bad = True
if "a b" not in after or "a b" not in before:
    print("OBSERVED: column 'a b' (which the factor reads) is not among the required variables;"
          " a mangled name", [v for v in srcs if v not in df.columns and srcs[v] is None], "with source None is reported instead")
    bad = True
print("REQUIRED: the reported required variables are sufficient (materialization succeeds on data"
      " restricted to exactly those columns), and each variable's source is where its value came from ('data').")
sys.exit(1 if bad else 0)
