"""C10 d2: a formula given as a list of term strings keeps a term that occurs twice;
the per-term metadata (a dict keyed by Term) then loses the columns of its first occurrence."""
import sys
import pandas as pd
from formulaic import Formula, model_matrix

df = pd.DataFrame({"x": [1.0, 2, 3, 5, 8, 13], "z": [0.5, -1, 2, 0, 1, 3], "a": list("abcabc")})
spec = ["1", "x + a", "a + z"]          # documented list form of a formula; `a` is named by two of the strings
print("formula:", Formula(spec))
bad = False
for efr in (True, False):
    mm = model_matrix(spec, df, ensure_full_rank=efr)
    ms = mm.model_spec
    ncols = mm.shape[1]
    ti = dict(ms.term_indices)
    covered = sorted(i for idx in ti.values() for i in idx)
    print(f"\nensure_full_rank={efr}: columns = {list(mm.columns)}")
    print("  term_indices     =", ti)
    print("  term_slices['a'] =", ms.term_slices["a"], " get_term_indices(['a']) =", ms.get_term_indices(["a"]))
    print("  variable_indices =", ms.variable_indices)
    a_cols = [i for i, c in enumerate(mm.columns) if c.startswith("a[")]
    sub = ms.subset(["a"]).get_model_matrix(df)
    print("  subset(['a']) regenerates columns", list(sub.columns), "; parent's columns generated from a:", [mm.columns[i] for i in a_cols])
    if covered != list(range(ncols)):
        bad = True
        print(f"  -> VIOLATION: term index ranges cover {covered}, the matrix has columns 0..{ncols - 1}")
    if sorted(ms.variable_indices.get("a", [])) != a_cols:
        bad = True
        print(f"  -> VIOLATION: variable_indices['a'] = {ms.variable_indices.get('a')}, columns generated from variable a: {a_cols}")
    if list(sub.columns) != [mm.columns[i] for i in a_cols] and efr:
        bad = True
        print("  -> VIOLATION: the spec subset to term a does not regenerate the parent's columns for a")
print("\nrequired: per-term index ranges cover all columns; looking up term `a` selects the columns it generated;"
      " variable_indices['a'] covers them; subset to `a` regenerates them")
sys.exit(1 if bad else 0)
