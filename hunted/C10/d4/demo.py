"""C10 d4: two generated columns may share a label (the library keeps both since the
'pandas output keeps columns that share a label' repair), but the by-name look-ups only know the last one."""
import sys
import pandas as pd
from formulaic import model_matrix

df = pd.DataFrame({"Intercept": [2.0, 3, 4, 5, 6, 7], "x": [1.0, 2, 3, 5, 8, 13]})
bad = False
for output in ("pandas", "numpy", "sparse"):
    mm = model_matrix("Intercept + x", df, output=output)     # intercept column + data column called Intercept
    ms = mm.model_spec
    names = list(ms.column_names)
    positions = [i for i, n in enumerate(names) if n == "Intercept"]
    got = ms.get_column_indices("Intercept")
    print(f"output={output}: column_names={names}; positions labelled 'Intercept' = {positions}")
    print(f"   get_column_indices('Intercept') = {got}; column_indices = {ms.column_indices}; get_slice('Intercept') = {ms.get_slice('Intercept')}")
    if sorted(got) != positions or len(ms.column_indices) != len(names):
        bad = True
        print("   -> VIOLATION: the intercept column (position 0) cannot be selected by its name; the look-up silently returns position 1 only")
print("\nrequired: looking a column up by name selects exactly that column's positions (every column is reachable / all positions"
      " carrying the label are returned, or the ambiguity is reported)")
sys.exit(1 if bad else 0)
