"""C10 d7: with cluster_by='numerical_factors' the columns are generated in clustered term order,
but the spec's terms (ModelSpec.terms / .formula) stay in the unclustered order, so the per-term index
ranges are not in term order."""
import sys
import pandas as pd
from formulaic import model_matrix

df = pd.DataFrame({"x": [1.0, 2, 3, 5, 8, 13], "z": [0.5, -1, 2, 0, 1, 3], "a": list("abcabc"), "b": list("uvuvuv")})
mm = model_matrix("1 + x + b + x:a + z", df, cluster_by="numerical_factors")
ms = mm.model_spec
print("ms.terms        =", ms.terms)
print("columns         =", list(mm.columns))
print("term_indices    =", dict(ms.term_indices))
ranges_in_term_order = [ms.term_indices[t] for t in ms.terms]
print("ranges listed in the order of ms.terms:", ranges_in_term_order)
flat = [i for r in ranges_in_term_order for i in r]
ok = flat == sorted(flat) and list(ms.term_indices) == list(ms.terms)
print("in term order:", ok)
print("required: the per-term index ranges are contiguous, disjoint, in term order (the order of the spec's terms) and cover all columns")
sys.exit(0 if ok else 1)
