"""C10 d3: a term written with the documented Q('<column>') lookup reads a data variable
that the variable-to-column metadata never mentions."""
import sys
import pandas as pd
from formulaic import model_matrix

df = pd.DataFrame({"x": [1.0, 2, 3, 5, 8, 13], "z": [0.5, -1, 2, 0, 1, 3]})
bad = False
for formula in ("x + Q('x'):z", "Q('x') + z", "`x` + z"):
    mm = model_matrix(formula, df)
    ms = mm.model_spec
    print(f"{formula!r}: columns={list(mm.columns)}")
    print("   term_indices     =", dict(ms.term_indices))
    print("   term_variables   =", ms.term_variables)
    print("   variable_indices =", ms.variable_indices)
    # columns of the terms that read data column x (Q('x') is, per docs/guides/grammar.md, a look-up of column x)
    expected = sorted(i for t, idx in ms.term_indices.items() if any(f.expr in ("x", "Q('x')") for f in t.factors) for i in idx)
    got = ms.variable_indices.get("x")
    print(f"   columns of the terms using variable x: {expected}; variable_indices['x'] = {got}")
    if got != expected:
        bad = True
        print("   -> VIOLATION")
    # the values really are column x
    col = [c for c in mm.columns if c.startswith("Q(")]
print("\nrequired: variable_indices['x'] covers exactly the columns of every term that uses data variable x,"
      " including the terms that reach it through Q('x')")
sys.exit(1 if bad else 0)
