"""C10 d1: the narwhals materializer merges generated columns that share a label,
so the spec reports more columns than the matrix has (the pandas materializer keeps both)."""
import sys
import numpy as np
import pandas as pd
import pyarrow as pa
from formulaic import model_matrix

df = pd.DataFrame({"A[T.b]": [9.0, 8, 7, 6, 5, 4], "A": list("abcabc")})
formula = "`A[T.b]` + A"
bad = False
for data, kind in ((pa.Table.from_pandas(df), "pyarrow table"), (df, "pandas frame")):
    for output in ("numpy", "pandas", "narwhals"):
        if kind == "pandas frame" and output == "narwhals":
            continue
        kw = {"output": output}
        mm = model_matrix(formula, data, **kw)
        ms = mm.model_spec
        w = mm.__wrapped__
        ncols = w.shape[1] if hasattr(w, "shape") else len(w.columns)
        labels = list(getattr(w, "column_names", None) or getattr(w, "columns", [])) if output != "numpy" else None
        covered = sum(len(v) for v in ms.term_indices.values())
        print(f"{kind:14s} output={output:9s} materializer={ms.materializer}: column_names={list(ms.column_names)}"
              f" actual #columns={ncols} labels={labels} term_indices={dict(ms.term_indices)}")
        if len(ms.column_names) != ncols or covered != ncols or (labels is not None and labels != list(ms.column_names)):
            bad = True
            print("   -> VIOLATION: reported column names / term index ranges do not match the generated matrix")
            print("      slice for term A:", ms.get_slice("A"), "points past the last column" if ms.get_slice("A").stop > ncols else "")
print()
print("required: column_names equal the actual column labels (4 columns: Intercept, A[T.b] (data column), A[T.b], A[T.c]);"
      " term index ranges cover all columns")
sys.exit(1 if bad else 0)
