"""C10 d6: a factor that evaluates to None is suppressed from its term (documented behaviour), and the
variables it read disappear from the variable-to-column metadata of the term's remaining columns."""
import sys
import pandas as pd
from formulaic import model_matrix

df = pd.DataFrame({"x": [1.0, 2, 3, 5, 8, 13], "z": [0.5, -1, 2, 0, 1, 3], "a": list("abcabc")})
def maybe(v):          # a user transform that switches itself off
    return None
mm = model_matrix("x + a:maybe(z)", df, context={"maybe": maybe})
ms = mm.model_spec
print("columns          =", list(mm.columns))
print("term_indices     =", dict(ms.term_indices))
print("term_variables   =", ms.term_variables)
print("variable_indices =", ms.variable_indices)
term_cols = ms.term_indices["a:maybe(z)"]
got = ms.variable_indices.get("z")
print(f"term a:maybe(z) uses variable z and owns columns {term_cols}; variable_indices['z'] = {got}")
print("required: variable_indices['z'] == columns of the terms using z ==", term_cols)
sys.exit(0 if got == term_cols else 1)
