"""C10 d5: with the default na_action='drop', a subset spec that leaves out the term holding the
nulls regenerates longer columns than the parent's columns for the same terms."""
import sys
import numpy as np
import pandas as pd
from formulaic import model_matrix

df = pd.DataFrame({"x": [1.0, 2, 3, 5, 8, np.nan], "z": [0.5, -1, 2, 0, 1, 3], "a": list("abcabc")})
parent = model_matrix("x + z + a", df)
ms = parent.model_spec
sub = ms.subset("z + a")
regen = sub.get_model_matrix(df)
idx = ms.get_term_indices("z + a")
parent_cols = parent.iloc[:, idx]
print("parent columns for terms 1, z, a:", list(parent_cols.columns), "shape", parent_cols.shape, "rows", list(parent_cols.index))
print("subset spec regenerated        :", list(regen.columns), "shape", regen.shape, "rows", list(regen.index))
same = regen.shape == parent_cols.shape and np.array_equal(regen.values, parent_cols.values)
print("identical:", same)
print("required: the subset spec regenerates exactly the parent's columns for those terms (same 5 rows)")
sys.exit(0 if same else 1)
