"""C02 d3: categorical levels that are different values but print the same (1 and '1')
are collapsed into one column: the full-rank encoding has fewer indicators than levels."""
import sys
import numpy as np, pandas as pd
from formulaic import model_matrix

df = pd.DataFrame({"A": pd.Series([1, "1", 2.0, "a"], dtype=object)})
bad = False
for out in ("pandas", "numpy", "sparse"):
    mm = model_matrix("0 + A", df, ensure_full_rank=False, output=out)
    levels = mm.model_spec.encoder_state["A"][1]["categories"]
    got = np.asarray(mm.todense() if hasattr(mm, "todense") else mm, dtype=float)
    expected = np.array([[float(v == l and type(v) is type(l)) for l in levels] for v in df["A"]])
    ok = got.shape == expected.shape and np.array_equal(got, expected)
    print(f"output={out}: levels recorded by the library = {levels!r}; columns = {mm.model_spec.column_names}")
    print("observed:\n", got, "\nrequired (one indicator per level, in level order):\n", expected)
    bad |= not ok
sys.exit(1 if bad else 0)
