"""C02 d7: integer columns beyond 2**53 are rounded when the matrix is assembled for
output='numpy' next to a float column (e.g. the intercept); output='pandas'/'sparse' keep them."""
import sys
import numpy as np, pandas as pd
from formulaic import model_matrix

v = 2**53 + 1
df = pd.DataFrame({"big": np.array([v, 3], dtype=np.int64)})
bad = False
for out in ("pandas", "sparse", "numpy"):
    mm = model_matrix("1 + big", df, output=out)
    got = mm.todense()[0, 1] if out == "sparse" else (mm.iloc[0, 1] if out == "pandas" else mm[0, 1])
    ok = int(got) == v
    print(f"output={out}: column 'big' row 0 observed {int(got)} required {v} ok={ok}")
    bad |= not ok
sys.exit(1 if bad else 0)
