"""C02 d6: a literal scaling applied to the intercept (`2:1`, `1:2`, `2:(1 + x)`) yields a column
named `Intercept` that is not a column of ones."""
import sys
import numpy as np, pandas as pd
from formulaic import model_matrix

df = pd.DataFrame({"x": [1.0, 2.0, 3.0]})
bad = False
for formula in ["0 + 2:1", "0 + 1:2 + x", "0 + 2:(1 + x)", "0 + 1:0.5"]:
    for out in ("pandas", "numpy", "sparse"):
        mm = model_matrix(formula, df, output=out)
        names = list(mm.model_spec.column_names)
        got = np.asarray(mm.todense() if hasattr(mm, "todense") else mm, dtype=float)
        col = got[:, names.index("Intercept")]
        ok = np.array_equal(col, np.ones(len(df)))
        print(f"{formula!r} output={out}: columns {names}; Intercept column observed {col.tolist()} required [1.0, 1.0, 1.0] (or no column named Intercept / a syntax error as for '2') ok={ok}")
        bad |= not ok
sys.exit(1 if bad else 0)
