"""C02 d4: a data column whose name is a number (referenced with back-quotes) is confused with
the numeric literal of the same text when both occur in one formula (including the implicit
intercept `1`): the column is dropped, or used as a scale, or the literal is used instead of it."""
import sys
import numpy as np, pandas as pd
from formulaic import model_matrix

df = pd.DataFrame({"x": [1.0, 2.0, 3.0], "z": [1.0, 1.0, 2.0], "2": [10.0, 20.0, 30.0], "1": [5.0, 6.0, 7.0]})
bad = False

def check(formula, exp_names, exp_values, **kw):
    global bad
    mm = model_matrix(formula, df, **kw)
    if "~" in formula:
        mm = mm.rhs
    names = list(mm.model_spec.column_names)
    got = np.asarray(mm, dtype=float)
    exp = np.array(exp_values, dtype=float).T
    ok = names == exp_names and got.shape == exp.shape and np.array_equal(got, exp)
    print(f"{formula!r}: observed columns {names} values {got.T.tolist()}")
    print(f"{' ' * len(repr(formula))}  required columns {exp_names} values {exp.T.tolist()}  ok={ok}")
    bad |= not ok

# control: each feature alone works
check("0 + `2`:x", ["2:x"], [[10, 40, 90]])
check("0 + 2:z", ["z"], [[2, 2, 4]])
check("0 + `1`", ["1"], [[5, 6, 7]])
# together
check("0 + `2`:x + 2:z", ["z", "2:x"], [[2, 2, 4], [10, 40, 90]])       # `2`:x becomes 2*x named 'x'
check("`2` ~ 0 + 2:z", ["z"], [[2, 2, 4]])                                # rhs becomes column `2` * z named '2:z'
check("`1` + x", ["Intercept", "1", "x"], [[1, 1, 1], [5, 6, 7], [1, 2, 3]])  # data column `1` swallowed by the intercept
sys.exit(1 if bad else 0)
