"""C02 d2: products and literal scalings of narrow/fixed-width integer columns are computed in
the storage dtype and wrap around (or raise OverflowError) instead of holding the product."""
import sys
import numpy as np, pandas as pd
from formulaic import model_matrix

df = pd.DataFrame(
    {
        "k": np.array([100, 2, 3], dtype=np.int8),
        "j": np.array([100, 2, 3], dtype=np.int8),
        "u": np.array([200, 2, 3], dtype=np.uint8),
        "A": ["a", "b", "c"],
        "a": np.array([2**62, 3, 1], dtype=np.int64),
        "b": np.array([4, 5, 1], dtype=np.int64),
    }
)
bad = False

def dense(mm):
    return np.asarray(mm.todense() if hasattr(mm, "todense") else mm)

def check(formula, expected, **kw):
    global bad
    for out in ("pandas", "numpy", "sparse"):
        try:
            got = dense(model_matrix(formula, df, output=out, **kw))
            ok = got.shape == np.shape(expected) and all(
                int(g) == int(e) for g, e in zip(got.ravel().tolist(), np.ravel(expected).tolist())
            )
            print(f"{formula!r} output={out}: observed {got.tolist()} required {np.asarray(expected).tolist()} ok={ok}")
        except Exception as e:  # noqa
            ok = False
            print(f"{formula!r} output={out}: raised {type(e).__name__}: {e}; required {np.asarray(expected).tolist()}")
        bad |= not ok

check("0 + k:j", [[10000], [4], [9]])                    # int8 * int8 -> 16
check("0 + 2:u", [[400], [4], [6]])                      # 2 * uint8 -> 144
check("0 + 2:A:u", [[400, 0, 0], [0, 4, 0], [0, 0, 6]], ensure_full_rank=False)  # dense 144, sparse 400
check("0 + 300:k", [[30000], [600], [900]])              # OverflowError
check("0 + a:b", [[2**64], [15], [1]])                   # int64 wraps to 0
sys.exit(1 if bad else 0)
