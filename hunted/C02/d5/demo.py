"""C02 d5: a data column whose name reads like a Python expression (e.g. `I(x)`, `C(A)`,
`np.log(x)`) is confused with the Python-expression factor of the same text when both occur
in one formula: one of the two is silently used for both (or one term disappears)."""
import sys
import numpy as np, pandas as pd
from formulaic import model_matrix

df = pd.DataFrame({"x": [1.0, 2.0, 3.0], "z": [1.0, 1.0, 2.0], "I(x)": [10.0, 20.0, 30.0]})
bad = False

def check(formula, exp_values, part=None):
    global bad
    mm = model_matrix(formula, df)
    if part:
        mm = getattr(mm, part)
    got = np.asarray(mm, dtype=float)
    exp = np.array(exp_values, dtype=float).T
    ok = got.shape == exp.shape and np.array_equal(got, exp)
    print(f"{formula!r}{' .' + part if part else ''}: columns {list(mm.model_spec.column_names)} observed {got.T.tolist()} required {exp.T.tolist()} ok={ok}")
    bad |= not ok

# controls
check("0 + I(x):z", [[1, 2, 6]])
check("0 + `I(x)`", [[10, 20, 30]])
# together: I(x) is the Python factor (= x), `I(x)` is the data column
check("0 + `I(x)` + I(x):z", [[10, 20, 30], [1, 2, 6]])     # second column observed [10,20,60]
check("0 + `I(x)`:z + I(x)", [[1, 2, 3], [10, 20, 60]])     # interaction observed [1,2,6]
check("`I(x)` ~ 0 + I(x)", [[1, 2, 3]], part="rhs")          # observed [10,20,30]
check("0 + I(x) + `I(x)`", [[1, 2, 3], [10, 20, 30]])        # only one column is returned
sys.exit(1 if bad else 0)
