"""C02 d1: the narwhals materializer (default route for pyarrow tables / narwhals frames)
merges model-matrix columns that share a label, so the matrix has fewer columns than
`model_spec.column_names` and an indicator column is silently replaced by other data."""
import sys
import numpy as np, pandas as pd, pyarrow as pa
from formulaic import model_matrix

df = pd.DataFrame({"A": ["a", "b", "c", "a"], "A[b]": [10.0, 20.0, 30.0, 40.0]})
formula = "0 + A + `A[b]`"
expected = np.array(
    [[1, 0, 0, 10.0], [0, 1, 0, 20.0], [0, 0, 1, 30.0], [1, 0, 0, 40.0]]
)  # A[a], A[b], A[c] indicators, then the data column `A[b]`

bad = False
for label, data, kw in [
    ("pandas frame / pandas materializer (reference route)", df, {}),
    ("pyarrow table (narwhals materializer)", pa.Table.from_pandas(df), {}),
    ("pandas frame, materializer='narwhals'", df, {"materializer": "narwhals"}),
]:
    for out in ("numpy", "pandas"):
        mm = model_matrix(formula, data, ensure_full_rank=False, output=out, **kw)
        got = np.asarray(mm, dtype=float)
        names = mm.model_spec.column_names
        ok = got.shape == expected.shape and np.array_equal(got, expected)
        print(f"{label}, output={out}: column_names={names} shape={got.shape} ok={ok}")
        if not ok:
            print(got)
            bad = True
print("required: 4 columns (indicators of A in level order a,b,c, then the numeric column `A[b]`):")
print(expected)
sys.exit(1 if bad else 0)
