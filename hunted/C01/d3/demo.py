import sys
from formulaic import Formula
from formulaic.parser import DefaultFormulaParser
from formulaic.errors import FormulaSyntaxError, FormulaParsingError

def parse(spec, **kw):
    """Return ('ok', list-of-term-strings or repr) or ('rejected', exception type name)."""
    try:
        f = Formula(spec, **kw)
    except (FormulaSyntaxError, FormulaParsingError) as e:
        return ("rejected", type(e).__name__)
    return ("ok", repr(f).replace("\n", " ; "))

bad = 0
for lst, string in [(["a", "a"], "0 + a + a"), (["a", "b:a", "a:b"], "0 + a + b:a + a:b"), (["a+b", "b+c"], "0 + a+b + b+c")]:
    fl, fs = Formula(lst), Formula(string)
    print(f"Formula({lst!r}) = {fl!r:20}  Formula({string!r}) = {fs!r:12} equal: {fl == fs}")
    if fl != fs:
        bad = 1
print("REQUIRED: equivalent specification forms give equal formulas (set semantics: each term once).")
sys.exit(bad)
