import sys
from formulaic import Formula
from formulaic.parser import DefaultFormulaParser
from formulaic.errors import FormulaSyntaxError, FormulaParsingError

def parse(spec, **kw):
    """Return ('ok', list-of-term-strings or repr) or ('rejected', exception type name)."""
    try:
        f = Formula(spec, **kw)
    except (FormulaSyntaxError, FormulaParsingError) as e:
        return ("rejected", type(e).__name__)
    return ("ok", repr(f).replace("\n", " ; "))

bad = 0
for s in ["a + b{}", "a + {} b", "a + `` b", "a %% + b", "{}"]:
    r = parse(s)
    print(f"{s!r:12} -> {r}")
    if r[0] == "ok":
        bad = 1
print("controls:", parse("a + b c"), parse("a %x% b"))
print("REQUIRED: these strings are outside the grammar and must be rejected.")
sys.exit(bad)
