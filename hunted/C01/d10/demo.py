import sys
from formulaic import Formula
from formulaic.parser import DefaultFormulaParser
from formulaic.errors import FormulaSyntaxError, FormulaParsingError

def parse(spec, **kw):
    """Return ('ok', list-of-term-strings or repr) or ('rejected', exception type name)."""
    try:
        f = Formula(spec, **kw)
    except (FormulaSyntaxError, FormulaParsingError) as e:
        return ("rejected", type(e).__name__)
    return ("ok", repr(f).replace("\n", " ; "))

bad = 0
for s in ["a |", "y ~", "y ~ a |"]:
    on = parse(s)
    off = parse(s, _parser=DefaultFormulaParser(include_intercept=False))
    print(f"{s!r:10} intercept on -> {on};  intercept off -> {off}")
    if on[0] == "ok":
        bad = 1
print("control '| a' ->", parse("| a"))
print("REQUIRED: a binary operator with a missing right operand is rejected under every parser configuration.")
sys.exit(bad)
