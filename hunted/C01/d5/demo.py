import sys
from formulaic import Formula
from formulaic.parser import DefaultFormulaParser
from formulaic.errors import FormulaSyntaxError, FormulaParsingError

def parse(spec, **kw):
    """Return ('ok', list-of-term-strings or repr) or ('rejected', exception type name)."""
    try:
        f = Formula(spec, **kw)
    except (FormulaSyntaxError, FormulaParsingError) as e:
        return ("rejected", type(e).__name__)
    return ("ok", repr(f).replace("\n", " ; "))

p = Formula("(a + b:c + d)**2")
e = Formula("a + b:c + d + a:(b:c) + a:d + (b:c):d")
m = Formula("(a + b:c + d)*(a + b:c + d)")
print("(a + b:c + d)**2                      ->", p)
print("a + b:c + d + a:(b:c) + a:d + (b:c):d ->", e)
print("(a + b:c + d)*(a + b:c + d)           ->", m)
print("REQUIRED: the documented identity (x+y+z)**2 = x+y+z+x:y+x:z+y:z gives equal formulas (same term order).")
sys.exit(0 if (p == e and p == m) else 1)
