import sys
from formulaic import Formula
from formulaic.parser import DefaultFormulaParser
from formulaic.errors import FormulaSyntaxError, FormulaParsingError

def parse(spec, **kw):
    """Return ('ok', list-of-term-strings or repr) or ('rejected', exception type name)."""
    try:
        f = Formula(spec, **kw)
    except (FormulaSyntaxError, FormulaParsingError) as e:
        return ("rejected", type(e).__name__)
    return ("ok", repr(f).replace("\n", " ; "))

bad = 0
for s in ["(a+b) * * 2", "(a+b) *\n* 2"]:
    r = parse(s)
    print(f"{s!r:16} -> {r}")
    if r[0] == "ok":
        bad = 1
print("controls:", parse("a : : b"), parse("(a+b) * 2"))
print("REQUIRED: '* *' is two multiplication operators, not '**'; the string must be rejected.")
sys.exit(bad)
