import sys
from formulaic import Formula
from formulaic.parser import DefaultFormulaParser
from formulaic.errors import FormulaSyntaxError, FormulaParsingError

def parse(spec, **kw):
    """Return ('ok', list-of-term-strings or repr) or ('rejected', exception type name)."""
    try:
        f = Formula(spec, **kw)
    except (FormulaSyntaxError, FormulaParsingError) as e:
        return ("rejected", type(e).__name__)
    return ("ok", repr(f).replace("\n", " ; "))

C = {"__formulaic_variables_available__": ["y", "a", "b"]}
s = Formula("y ~ 1 + .", _context=C)
k = Formula(lhs="y", rhs="1 + .", _context=C)
print("Formula('y ~ 1 + .').rhs           ->", s.rhs)
print("Formula(lhs='y', rhs='1 + .').rhs  ->", k.rhs)
print("REQUIRED: equal formulas; '.' excludes the left-hand-side variable y in both forms.")
sys.exit(0 if s == k else 1)
