import sys
from formulaic import Formula
from formulaic.parser import DefaultFormulaParser
from formulaic.errors import FormulaSyntaxError, FormulaParsingError

def parse(spec, **kw):
    """Return ('ok', list-of-term-strings or repr) or ('rejected', exception type name)."""
    try:
        f = Formula(spec, **kw)
    except (FormulaSyntaxError, FormulaParsingError) as e:
        return ("rejected", type(e).__name__)
    return ("ok", repr(f).replace("\n", " ; "))

import dataclasses
p = DefaultFormulaParser(feature_flags=set())
before = parse("y ~ a | b", _parser=p)
q = dataclasses.replace(p, feature_flags={"all"})
after = parse("y ~ a | b", _parser=p)
print("p.feature_flags =", p.feature_flags)
print("p before deriving q:", before)
print("p after  deriving q:", after)
print("REQUIRED: p has no feature flags enabled, so 'y ~ a | b' is rejected both times.")
sys.exit(1 if after[0] == "ok" else 0)
