import sys
from formulaic import Formula
from formulaic.parser import DefaultFormulaParser
from formulaic.errors import FormulaSyntaxError, FormulaParsingError

def parse(spec, **kw):
    """Return ('ok', list-of-term-strings or repr) or ('rejected', exception type name)."""
    try:
        f = Formula(spec, **kw)
    except (FormulaSyntaxError, FormulaParsingError) as e:
        return ("rejected", type(e).__name__)
    return ("ok", repr(f).replace("\n", " ; "))

bad = 0
for s in ["( )a", "a ( )", "a + ( ) b", "(a+b)**( )2", "a + [ ] b"]:
    r = parse(s)
    print(f"{s!r:14} -> {r}")
    if r[0] == "ok":
        bad = 1
print("controls:", parse("(a)b"), parse("a (b)"))
print("REQUIRED: empty parentheses are outside the grammar; the strings must be rejected.")
sys.exit(bad)
