import sys
from formulaic import Formula
from formulaic.parser import DefaultFormulaParser
from formulaic.errors import FormulaSyntaxError, FormulaParsingError

def parse(spec, **kw):
    """Return ('ok', list-of-term-strings or repr) or ('rejected', exception type name)."""
    try:
        f = Formula(spec, **kw)
    except (FormulaSyntaxError, FormulaParsingError) as e:
        return ("rejected", type(e).__name__)
    return ("ok", repr(f).replace("\n", " ; "))

import pandas as pd
from formulaic import model_matrix
bad = 0
f = Formula("`1` + a")
terms = [[(fa.expr, fa.eval_method.value) for fa in t.factors] for t in f]
print("Formula('`1` + a') terms:", terms)
if len(terms) != 3:
    bad = 1
g = Formula("`1` - 1")
print("Formula('`1` - 1') terms:", list(g))
if len(g) != 1:
    bad = 1
h = Formula("y ~ .", _context={"__formulaic_variables_available__": ["y", "1", "a"]})
print("Formula('y ~ .') with variables [y, '1', a] -> rhs:", list(h.rhs))
if len(h.rhs) != 3:
    bad = 1
df = pd.DataFrame({"1": [5.0, 6.0, 7.0], "a": [1.0, 2.0, 3.0]})
cols = list(model_matrix("`1` + a", df).columns)
print("model_matrix('`1` + a', df[['1','a']]).columns:", cols)
if len(cols) != 3:
    bad = 1
print("REQUIRED: the quoted name `1` is a variable distinct from the intercept literal: 3 terms / 1 term / 3 rhs terms / 3 columns.")
sys.exit(bad)
