import sys
from formulaic import Formula
from formulaic.parser import DefaultFormulaParser
from formulaic.errors import FormulaSyntaxError, FormulaParsingError

def parse(spec, **kw):
    """Return ('ok', list-of-term-strings or repr) or ('rejected', exception type name)."""
    try:
        f = Formula(spec, **kw)
    except (FormulaSyntaxError, FormulaParsingError) as e:
        return ("rejected", type(e).__name__)
    return ("ok", repr(f).replace("\n", " ; "))

bad = 0
for s in ["a 0", "a 0 + b", "y ~ a 0", "1 0"]:
    r = parse(s)
    print(f"{s!r:12} -> {r}")
    if r[0] == "ok":
        bad = 1
print("control 'a 1' ->", parse("a 1"))
print("REQUIRED: every one of these strings lacks an operator between two operands and must be rejected, like 'a 1'.")
sys.exit(bad)
