import sys
from formulaic import Formula
from formulaic.errors import FormulaSyntaxError

def parse(spec):
    try:
        return ("ok", repr(Formula(spec)))
    except FormulaSyntaxError as e:
        return ("rejected", str(e).split("\n")[0])

bad = 0
for s, paren in [("a*+b", "a*(+b)"), ("a:+b", "a:(+b)"), ("a/+b", "a/(+b)"), ("a*-b", "a*(-b)")]:
    r, rp = parse(s), parse(paren)
    print(f"{s!r:8} -> {r}\n   {paren!r:10} -> {rp}")
    if r[0] != "ok" or r != rp:
        bad = 1
print("control 'a + +b' ->", parse("a + +b"), "; 'a - +b' ->", parse("a - +b"))
print("REQUIRED: a unary sign may precede any operand (the grammar includes unary signs); "
      "'a*+b' denotes a*(+b) = 1 + a + b + a:b, and must not be refused as a misplaced '*'.")
sys.exit(bad)
