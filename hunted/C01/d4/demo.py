import sys
from formulaic import Formula
from formulaic.parser import DefaultFormulaParser
from formulaic.errors import FormulaSyntaxError, FormulaParsingError

def parse(spec, **kw):
    """Return ('ok', list-of-term-strings or repr) or ('rejected', exception type name)."""
    try:
        f = Formula(spec, **kw)
    except (FormulaSyntaxError, FormulaParsingError) as e:
        return ("rejected", type(e).__name__)
    return ("ok", repr(f).replace("\n", " ; "))

bad = 0
for op in ["**", "^"]:
    s = f"(a+b+c){op}1{op}2"
    left = f"((a+b+c){op}1){op}2"
    fs, fl = Formula(s), Formula(left)
    print(f"{s!r} -> {fs!r}")
    print(f"{left!r} (documented left-associative reading) -> {fl!r}")
    if fs != fl:
        bad = 1
print("REQUIRED: all binary operators are documented as left-associative, so both spellings must be equal.")
sys.exit(bad)
