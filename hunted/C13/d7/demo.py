"""poly() on exactly representable values with a large common offset: alpha_0
(the mean) is computed with a rounding error comparable to the spread, so the
columns are neither orthogonal to the constant nor orthonormal."""
import sys, warnings
import numpy as np
warnings.simplefilter("ignore")
from formulaic.transforms import poly

k = np.arange(20.0)
x = 1e15 + k                        # exact in float64
Q = np.asarray(poly(x, 2), dtype=float)
ref = np.asarray(poly(k, 2), dtype=float)   # the basis is shift invariant
G = Q.T @ Q
print("x = 1e15 + [0..19], degree 2")
print("column sums (inner product with the constant):", Q.sum(axis=0))
print("max |Q'Q - I| =", np.abs(G - np.eye(2)).max(), "  max |Q - poly(x - 1e15)| =", np.abs(Q - ref).max())
print("required: column sums 0, Q'Q = I (as for poly([0..19], 2))")
ok = np.abs(Q.sum(axis=0)).max() < 1e-6 and np.abs(G - np.eye(2)).max() < 1e-6
sys.exit(0 if ok else 1)
