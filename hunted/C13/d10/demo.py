"""A data column that merely shares its name with a preloaded function (`log`,
`exp10`, `scale`, ...) hides the function: `log(x)` raises although the formula
never refers to that column."""
import sys, warnings
import numpy as np, pandas as pd
warnings.simplefilter("ignore")
from formulaic import model_matrix

df = pd.DataFrame({"x": [1.0, 2.0, 3.0, 6.0], "log": [0.1, 0.2, 0.3, 0.4], "scale": [5.0, 6.0, 7.0, 9.0]})
bad = False
for f, ref in (("log(x) - 1", np.log(df["x"].to_numpy())), ("scale(x) - 1", None)):
    try:
        r = np.asarray(model_matrix(f, df), dtype=float)[:, 0]
        print(f, "->", r)
        if ref is not None:
            bad |= not np.allclose(r, ref)
    except Exception as e:
        print(f, "-> raised", type(e).__name__, ":", e)
        bad = True
print("required: the functions preloaded into every formula compute log(x) / the standardised x")
sys.exit(1 if bad else 0)
