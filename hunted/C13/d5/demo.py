"""poly() on finite vectors of large / small magnitude: the squared norms of the
monic polynomials overflow / underflow and the basis is NaN / not orthonormal."""
import sys, warnings
import numpy as np
warnings.simplefilter("ignore")
from formulaic.transforms import poly

base = np.array([1.0, 2.0, 4.0, 7.0, 11.0, 16.0])
bad = False
for mag, degree in ((1e80, 4), (1e160, 2), (1e-170, 1), (1e-90, 2)):
    x = base * mag
    Q = np.asarray(poly(x, degree), dtype=float)
    ref = np.asarray(poly(base, degree), dtype=float)  # the basis is scale invariant
    G = Q.T @ Q
    ok = np.isfinite(Q).all() and np.allclose(G, np.eye(degree), atol=1e-8) and np.allclose(Q, ref, atol=1e-8)
    print(f"x = {mag:g} * {base.tolist()}, degree {degree}: max|Q'Q - I| = {np.abs(G - np.eye(degree)).max()}, first row {Q[0]}")
    print(f"   required: orthonormal columns orthogonal to the constant (= poly of the unscaled vector, first row {ref[0]})")
    bad |= not ok
sys.exit(1 if bad else 0)
