"""center()/scale() on exactly representable values with a large common offset:
the mean is computed with a rounding error as large as the spread of the data,
so the centred data does not have zero mean (and the scaled data not unit std)."""
import sys, warnings
from fractions import Fraction
import numpy as np
warnings.simplefilter("ignore")
from formulaic.transforms import center, scale

x = 2.0**52 + np.arange(7.0)       # 2^52 .. 2^52+6, all exact; exact mean 2^52+3 is representable
c = np.asarray(center(x), dtype=float)
s = np.asarray(scale(x), dtype=float)
mean_c = float(sum(Fraction(v) for v in c) / len(c))
mean_s = float(sum(Fraction(v) for v in s) / len(s))
print("x = 2**52 + [0..6]")
print("center(x) =", c, " exact mean of result =", mean_c)
print("scale(x)  =", s, " mean =", mean_s, " std(ddof=1) =", np.std(s, ddof=1))
print("required: center(x) = [-3 -2 -1 0 1 2 3] (mean 0); scale(x) mean 0, std 1")
ok = abs(mean_c) < 1e-9 and abs(mean_s) < 1e-9 and abs(np.std(s, ddof=1) - 1) < 1e-9
sys.exit(0 if ok else 1)
