"""center()/scale() on finite values near the float64 maximum: numpy.mean
overflows to inf, every centred value becomes -inf (mean is not zero)."""
import sys, warnings
import numpy as np
warnings.simplefilter("ignore")
from formulaic.transforms import center, scale

x = np.array([1.0e308, 1.5e308, 1.2e308])  # all finite; true mean 1.2333..e308 is finite
r = np.asarray(center(x), dtype=float)
s = np.asarray(scale(x), dtype=float)
print("x =", x)
print("center(x) =", r, " scale(x) =", s)
print("required: center(x) has zero mean, i.e. approx", [-2.3333e307, 2.6667e307, -3.333e306])
ok = np.isfinite(r).all() and abs(r.sum()) <= 1e-10 * 1e308
sys.exit(0 if ok else 1)
