"""One textual call `scale(v)` / `poly(v, 2)` inside a comprehension is executed
for several different vectors but owns a single state entry: the statistics of
the first vector are applied to the others on the very data they are fitted on."""
import sys, warnings
import numpy as np, pandas as pd
warnings.simplefilter("ignore")
from formulaic import model_matrix

df = pd.DataFrame({"x": [1.0, 2.0, 3.0, 6.0], "y": [10.0, 50.0, 20.0, 90.0]})
mm = model_matrix("np.column_stack([scale(v) for v in (x, y)]) - 1", df)
a = np.asarray(mm, dtype=float)
ref = np.asarray(model_matrix("scale(x) + scale(y) - 1", df), dtype=float)
print("np.column_stack([scale(v) for v in (x, y)]) =\n", a)
print("column means", a.mean(axis=0), "column stds", a.std(axis=0, ddof=1))
print("recorded state:", dict(mm.model_spec.transform_state))
print("required: every scale(...) output has zero mean / unit std on the data it is fitted on:\n", ref)
ok = np.allclose(a, ref)
sys.exit(0 if ok else 1)
