"""The preloaded log/log2/log10/exp/exp2 are the bare numpy ufuncs: on columns
stored as int8/uint8/bool they compute in float16 (int16 -> float32), so the
values are wrong in the 4th digit, overflow to inf, and are not inverses."""
import sys, warnings
import numpy as np, pandas as pd
warnings.simplefilter("ignore")
from formulaic import model_matrix

df64 = pd.DataFrame({"i": [1, 2, 3, 40]})
df8 = df64.astype("int8")
f = "log10(i) + log2(i) + exp2(i) + log(exp(i)) + exp10(log10(i)) - 1"
a8 = np.asarray(model_matrix(f, df8), dtype=float)
a64 = np.asarray(model_matrix(f, df64), dtype=float)
np.set_printoptions(linewidth=200, precision=10)
print("formula:", f)
print("i stored as int8 :\n", a8)
print("i stored as int64:\n", a64)
print("required: log10(3)=0.4771212547, log2(40)=5.3219280949, exp2(40)=1099511627776, log(exp(40))=40, exp10(log10(40))=40")
ok = np.allclose(a8, a64, rtol=1e-9)
sys.exit(0 if ok else 1)
