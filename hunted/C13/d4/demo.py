"""center / scale flags given as numpy booleans (e.g. the result of np.any(...)
or np.bool_(True)) are not treated as flags but as the numeric centre / scale
value 1: the data is shifted by 1 / divided by 1 instead of by mean / std."""
import sys, warnings
import numpy as np, pandas as pd
warnings.simplefilter("ignore")
from formulaic import model_matrix
from formulaic.transforms import scale

x = np.array([3.0, 5.0, 10.0])
ref = np.asarray(scale(x, center=True, scale=True))
a = np.asarray(scale(x, center=np.True_))
b = np.asarray(scale(x, scale=np.True_))
mm = model_matrix("scale(x, scale=np.any(x > 0)) - 1", pd.DataFrame({"x": x}))
c = np.asarray(mm)[:, 0]
print("scale(x, center=True, scale=True)     =", ref)
print("scale(x, center=np.True_)             =", a, " mean", a.mean())
print("scale(x, scale=np.True_)              =", b, " std", b.std(ddof=1))
print("formula scale(x, scale=np.any(x > 0)) =", c, " std", c.std(ddof=1))
print("required: with the flags on, zero mean and unit standard deviation (same as the first line)")
ok = np.allclose(a, ref) and np.allclose(b, ref) and np.allclose(c, ref)
sys.exit(0 if ok else 1)
