"""scale() computes in the storage dtype of a float32 / float16 column: squares
overflow and the result is all zeros although the values are ordinary finite
reals (the same numbers stored as float64 scale correctly)."""
import sys, warnings
import numpy as np, pandas as pd
warnings.simplefilter("ignore")
from formulaic import model_matrix

bad = False
for dtype, vals in (("float32", [1e20, 2e20, 3e20]), ("float16", [0.0, 1000.0, 2000.0])):
    df = pd.DataFrame({"x": np.array(vals, dtype=dtype)})
    r = np.asarray(model_matrix("scale(x) - 1", df), dtype=float)[:, 0]
    r64 = np.asarray(model_matrix("scale(x) - 1", df.astype("float64")), dtype=float)[:, 0]
    print(f"{dtype} column {vals}: scale(x) = {r}; same numbers as float64: {r64}")
    print("   required: zero mean and unit standard deviation ->", [-1.0, 0.0, 1.0])
    bad |= not np.allclose(r, [-1, 0, 1], atol=1e-3)
sys.exit(1 if bad else 0)
