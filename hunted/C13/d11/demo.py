"""poly() with a degree that the data cannot support (degree >= number of
distinct values) silently returns finite garbage / NaN columns instead of an
orthonormal basis or an error."""
import sys, warnings
import numpy as np
warnings.simplefilter("ignore")
from formulaic.transforms import poly

bad = False
for x, degree in ((np.arange(5.0), 5), (np.array([1.0, 1.0, 2.0, 2.0]), 2)):
    try:
        Q = np.asarray(poly(x, degree), dtype=float)
    except ValueError as e:
        print("x =", x, "degree", degree, "-> ValueError:", e)
        continue
    G = Q.T @ Q
    print("x =", x, "degree", degree, "->\n", Q)
    print("   max |Q'Q - I| =", np.abs(G - np.eye(degree)).max(), " column sums", Q.sum(axis=0))
    bad |= not (np.isfinite(Q).all() and np.allclose(G, np.eye(degree), atol=1e-8))
print("required: orthonormal columns orthogonal to the constant (impossible here, so an error rather than silent garbage)")
sys.exit(1 if bad else 0)
