"""scale() on finite float64 vectors of large / small magnitude: the sum of
squares overflows / underflows, so the result is all zeros (std 0) or inf/nan."""
import sys, warnings
import numpy as np
warnings.simplefilter("ignore")
from formulaic.transforms import scale

bad = False
for x in (np.array([1e200, 2e200, 3e200]), np.array([1e-200, 2e-200, 3e-200])):
    r = np.asarray(scale(x), dtype=float)
    expected = np.array([-1.0, 0.0, 1.0])  # exact answer for k*[1,2,3]
    ok = np.allclose(r, expected, rtol=1e-12, atol=1e-12)
    print(f"x={x}: scale(x)={r}  std(ddof=1)={np.std(r, ddof=1) if np.isfinite(r).all() else 'n/a'}")
    print(f"   required: zero mean, unit standard deviation, i.e. {expected}")
    bad |= not ok
sys.exit(1 if bad else 0)
