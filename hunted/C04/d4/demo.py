"""C04 d4 (low confidence / reading-dependent): a spec recorded from a pandas frame cannot be replayed on the very same
rows held in a pyarrow table (and a spec recorded from a pyarrow table cannot be replayed on a dict / pandas-records of the
same rows), although both containers are accepted as training data for the same formula."""
import sys, warnings
import numpy as np, pandas as pd, pyarrow as pa
from formulaic import model_matrix
warnings.simplefilter("ignore")

df = pd.DataFrame({"x": [1.0, 2.5, -3.0, 4.0], "a": list("abca")})
tbl = pa.Table.from_pandas(df)
bad = False
for f in ["x + a", "scale(x) + a"]:
    mm_pd = model_matrix(f, df, output="numpy")
    mm_pa = model_matrix(f, tbl, output="numpy")
    assert np.allclose(np.asarray(mm_pd), np.asarray(mm_pa))       # both are valid training data, same matrix
    for name, spec, other in (("pandas-spec on pyarrow table", mm_pd.model_spec, tbl), ("pyarrow-spec on dict of the same columns", mm_pa.model_spec, {c: df[c].tolist() for c in df})):
        try:
            out = spec.get_model_matrix(other)
            ok = np.allclose(np.asarray(out), np.asarray(mm_pd))
            print(f, "|", name, "->", "same matrix" if ok else "DIFFERENT matrix")
            bad |= not ok
        except Exception as e:
            print(f, "|", name, "-> raised", type(e).__name__, ":", str(e)[:120])
            bad = True
print("required: on any other data with the same variables the spec yields the same column names in the same order / the corresponding rows")
sys.exit(1 if bad else 0)
