"""C04 d2: hashed() rows depend on whether ANOTHER row of a nullable-integer column is null."""
import sys, warnings
import numpy as np, pandas as pd
from formulaic import model_matrix
warnings.simplefilter("ignore")

bad = False
train = pd.DataFrame({"g": pd.array([1, 2, 3, 4, None, 2], dtype="Int64")})
mm = model_matrix("hashed(g, levels=7)", train, na_action="ignore")
spec = mm.model_spec

rows = [0, 1, 2, 3]                      # a subset of the training rows; none of them is null
sub = train.iloc[rows]
assert sub["g"].dtype == train["g"].dtype  # same variables, same dtype
got = spec.get_model_matrix(sub)
exp = mm.iloc[rows]
print("training rows", rows, "of the original matrix:\n", exp.to_numpy(dtype=float))
print("spec replayed on exactly those rows:\n", got.to_numpy(dtype=float))
if not np.array_equal(exp.to_numpy(dtype=float), got.to_numpy(dtype=float)):
    print("DEFECT (pandas Int64): output rows of a subset differ from the corresponding rows of the original matrix")
    bad = True

# the same with a pyarrow table (int64 column holding one null)
try:
    import pyarrow as pa
    t = pa.table({"g": pa.array([1, 2, 3, 4, None, 2], type=pa.int64())})
    mm2 = model_matrix("hashed(g, levels=7)", t, na_action="ignore", output="numpy")
    got2 = mm2.model_spec.get_model_matrix(t.take(pa.array(rows, type=pa.int64())))
    if not np.array_equal(np.asarray(mm2)[rows], np.asarray(got2)):
        print("DEFECT (pyarrow int64 with a null): same row-dependence\n", np.asarray(mm2)[rows], "\n", np.asarray(got2))
        bad = True
except ImportError:
    pass
print("required: each output row depends only on the corresponding input row and the recorded state")
sys.exit(1 if bad else 0)
