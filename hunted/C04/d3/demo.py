"""C04 d3: cc() (cyclic cubic spline) truncates wrapped values when the column happens to be stored as integers,
so the rows of a null-free subset of a nullable-integer column differ from the same rows in the original matrix."""
import sys, warnings
import numpy as np, pandas as pd
from formulaic import model_matrix
warnings.simplefilter("ignore")

bad = False
f = "cc(x, df=3, lower_bound=0.5, upper_bound=4)"
train = pd.DataFrame({"x": pd.array([0, 1, 2, 3, 4, 5, 6, None], dtype="Int64")})
mm = model_matrix(f, train)              # default na_action='drop': the null row 7 is dropped
spec = mm.model_spec
assert np.allclose(spec.get_model_matrix(train).to_numpy(dtype=float), mm.to_numpy(dtype=float))

rows = [5, 6, 0]                         # subset of the training rows (values outside [0.5, 4] wrap around)
sub = train.iloc[rows]
assert sub["x"].dtype == train["x"].dtype
got = spec.get_model_matrix(sub).to_numpy(dtype=float)
exp = mm.loc[rows].to_numpy(dtype=float)
print("rows", rows, "of the original matrix:\n", exp)
print("spec replayed on exactly those rows:\n", got)
if not np.allclose(exp, got):
    print("DEFECT: subset rows differ from the corresponding rows of the original matrix")
    bad = True

# same recorded state, same values, plain int64 vs float64 storage
a = spec.get_model_matrix(pd.DataFrame({"x": [5, 6, 0]})).to_numpy(dtype=float)
b = spec.get_model_matrix(pd.DataFrame({"x": [5.0, 6.0, 0.0]})).to_numpy(dtype=float)
if not np.allclose(a, b):
    print("DEFECT: the values 5, 6, 0 and 5.0, 6.0, 0.0 give different rows under one recorded state:\n", a, "\n", b)
    bad = True
print("required: each output row depends only on the corresponding input row and the recorded state (knots, bounds)")
sys.exit(1 if bad else 0)
