"""C04 d1: a spec containing `hashed(...)` cannot be replayed on the empty subset of its own training rows."""
import sys, warnings
import numpy as np, pandas as pd
from formulaic import model_matrix
warnings.simplefilter("ignore")

train = pd.DataFrame({"a": ["u", "v", "w", "u"], "x": [1.0, 2.0, 3.0, 4.0]})
mm = model_matrix("hashed(a, levels=5) + x", train)
spec = mm.model_spec
empty = train.iloc[[]]          # a subset of the training rows (no rows), same variables and dtypes

# control: the same spec without hashed() replays fine on the empty subset
ctrl = model_matrix("C(a) + x", train).model_spec.get_model_matrix(empty)
print("control C(a) + x on 0 rows ->", ctrl.shape, list(ctrl.columns))

print("required: 0 rows, columns", list(mm.columns))
try:
    out = spec.get_model_matrix(empty)
except Exception as e:
    print("observed:", type(e).__name__, "-", e)
    print("DEFECT: replaying the recorded encoding on a subset (the empty one) of the rows raises instead of yielding the corresponding (zero) rows")
    sys.exit(1)
ok = out.shape == (0, mm.shape[1]) and list(out.columns) == list(mm.columns)
print("observed:", out.shape, list(out.columns))
sys.exit(0 if ok else 1)
