"""C11 d4: polynomial contrasts with scores far from zero (e.g. timestamps,
large ids: 1e15 + 0, 1, 2, 3) are wrong: the scores are not centred before the
recurrence, so the columns do not sum to zero and differ from the textbook/R
contr.poly(n, scores) matrix (which depends only on the centred scores)."""
import sys
import warnings

import numpy as np

from formulaic.transforms.contrasts import PolyContrasts

warnings.simplefilter("ignore")
bad = False
for offset, n in ((1e12, 6), (1e15, 4)):
    levels = list("abcdef")[:n]
    base = PolyContrasts(scores=[float(i) for i in range(n)]).get_coding_matrix(levels).values
    scores = [offset + i for i in range(n)]  # exactly representable floats
    cm = PolyContrasts(scores=scores).get_coding_matrix(levels).values
    colsum = np.abs(cm.sum(axis=0)).max()
    dev = np.abs(cm - base).max()
    full = np.hstack([np.ones((n, 1)), cm])
    co = PolyContrasts(scores=scores).get_coefficient_matrix(levels).values
    print(f"scores = {offset:g} + [0..{n-1}]: max |column sum| = {colsum:.3g} (required 0); "
          f"max |coding - contr.poly(n, scores)| = {dev:.3g} (required ~1e-16: "
          "same matrix as for scores 0..n-1); "
          f"|coef @ [1|coding] - I| = {np.abs(co @ full - np.eye(n)).max():.2g}")
    if colsum > 1e-8 or dev > 1e-8:
        bad = True
print("coding for scores 1e15 + [0,1,2,3]:\n", cm)
print("textbook / R contr.poly(4, scores = 1e15 + 0:3):\n", base)
print("DEFECT PRESENT" if bad else "ok")
sys.exit(1 if bad else 0)
