"""C11 d3: polynomial contrasts with scores given as a numpy array (or pandas
Series) raise an unrelated ValueError for every n >= 2, while the same scores as
a list work."""
import sys
import warnings

import numpy as np
import pandas as pd

from formulaic import model_matrix
from formulaic.transforms.contrasts import PolyContrasts

warnings.simplefilter("ignore")
bad = False
levels = ["lo", "mid", "hi"]
scores = [1.0, 2.0, 4.0]
ref = PolyContrasts(scores=scores).get_coding_matrix(levels)
print("scores as list ->\n", ref)
for label, sc in [("numpy array", np.array(scores)), ("pandas Series", pd.Series(scores))]:
    try:
        got = PolyContrasts(scores=sc).get_coding_matrix(levels)
        ok = np.allclose(got.values, ref.values)
        print(f"scores as {label}: coding matrix returned, equal to list result: {ok}")
        bad |= not ok
    except Exception as e:  # noqa: BLE001
        print(f"scores as {label}: raised {type(e).__name__}: {e}")
        print("   required: the 3 x 2 polynomial coding matrix for these scores")
        bad = True

sc = np.array(scores)
df = pd.DataFrame({"x": ["lo", "hi", "mid", "lo"]})
try:
    mm = model_matrix("C(x, contr.poly(scores=sc), levels=['lo', 'mid', 'hi'])", df)
    print(mm)
except Exception as e:  # noqa: BLE001
    print("model_matrix with numpy scores raised", type(e).__name__, str(e)[:200])
    bad = True

print("DEFECT PRESENT" if bad else "ok")
sys.exit(1 if bad else 0)
