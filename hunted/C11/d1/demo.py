"""C11 d1: PolyContrasts (default options) is not the orthonormal polynomial
coding for larger level counts: columns do not sum to zero, are not
orthonormal, differ from the textbook/R definition, and for n ~ 150+ the coding
matrix is NaN (so [1 | coding] is not invertible).  R's contr.poly is accurate
for every n it accepts (n <= 95)."""
import sys
import warnings
from fractions import Fraction

import numpy as np

from formulaic.transforms.contrasts import PolyContrasts

warnings.simplefilter("ignore")


def exact_poly(n):
    """Textbook orthonormal polynomial contrasts on scores 1..n (what R's
    contr.poly(n) returns), computed with exact rational Gram-Schmidt."""
    x = [Fraction(2 * i - (n - 1), 2) for i in range(n)]  # centred scores
    cols = []  # orthogonal (un-normalised) polynomials, exact
    for d in range(n):
        v = [xi**d for xi in x]
        for c in cols:
            coef = sum(a * b for a, b in zip(v, c)) / sum(b * b for b in c)
            v = [a - coef * b for a, b in zip(v, c)]
        cols.append(v)
    out = np.empty((n, n - 1))
    for j, c in enumerate(cols[1:]):
        # scale exactly before converting (entries may exceed float range)
        big = max(abs(a) for a in c)
        scaled = np.array([float(a / big) for a in c])
        out[:, j] = scaled / np.sqrt((scaled**2).sum())
    return out


bad = False
for n in (60, 80):
    levels = list(range(n))
    cm = PolyContrasts().get_coding_matrix(levels).values
    ref = exact_poly(n)
    colsum = np.abs(cm.sum(axis=0)).max()
    dev = np.abs(cm - ref).max()
    orth = np.abs(cm.T @ cm - np.eye(n - 1)).max()
    print(f"n={n}: max |column sum| = {colsum:.3g} (required 0), "
          f"max |coding - textbook/R contr.poly| = {dev:.3g} (required ~1e-12), "
          f"max |C'C - I| = {orth:.3g}")
    if colsum > 1e-6 or dev > 1e-6:
        bad = True

n = 150
cm = PolyContrasts().get_coding_matrix(list(range(n))).values
nn = int(np.isnan(cm).sum())
print(f"n={n}: coding matrix contains {nn} NaN entries (required: finite n x (n-1) "
      "matrix invertible together with a constant column)")
if nn:
    bad = True
    try:
        co = PolyContrasts().get_coefficient_matrix(list(range(n))).values
        print("   coefficient matrix finite:", bool(np.isfinite(co).all()))
    except Exception as e:  # noqa: BLE001
        print("   get_coefficient_matrix raised", type(e).__name__, e)

print("DEFECT PRESENT" if bad else "ok")
sys.exit(1 if bad else 0)
