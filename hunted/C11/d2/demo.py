"""C11 d2: level labels of mixed type whose text coincides (int 1 and str '1',
float 1.5 and str '1.5') are distinct levels, but their encoded columns collapse
into one: a column of the encoding is silently lost, for every output type."""
import sys
import warnings

import numpy as np
import pandas as pd

from formulaic import model_matrix
from formulaic.transforms.contrasts import SumContrasts, TreatmentContrasts

warnings.simplefilter("ignore")
bad = False


def arr(mm):
    return mm.toarray() if hasattr(mm, "toarray") else np.asarray(mm, dtype=float)


def check(label, formula, data, levels, coding, intercept=True):
    global bad
    vals = list(data["x"])
    ind = np.array([[1.0 if (type(v) is type(l) and v == l) else 0.0 for l in levels] for v in vals])
    exp = ind @ coding
    if intercept:
        exp = np.hstack([np.ones((len(vals), 1)), exp])
    for output in ("pandas", "numpy", "sparse"):
        mm = model_matrix(formula, data, output=output)
        got = arr(mm)
        ok = got.shape == exp.shape and np.allclose(got, exp)
        print(f"{label} [{output}]: got shape {got.shape}, columns {list(mm.model_spec.column_names)}; "
              f"required shape {exp.shape} = indicator @ coding" + ("" if ok else "   <-- MISMATCH"))
        if not ok:
            bad = True


levels = ["a", 1, "1"]
data = pd.DataFrame({"x": pd.Series(["a", 1, "1", 1, "a", "1"], dtype=object)})
coding = TreatmentContrasts().get_coding_matrix(levels).values
print("coding matrix (3 levels -> 2 columns):\n", TreatmentContrasts().get_coding_matrix(levels))
check("treatment, explicit levels", "C(x, levels=['a', 1, '1'])", data, levels, coding)
inferred = [1, "1", "a"]  # pandas' inferred category order for this column
from formulaic.transforms.contrasts import SASContrasts
check("SAS, inferred levels [1, '1', 'a']", "C(x, contr.SAS)", data, inferred,
      SASContrasts().get_coding_matrix(inferred).values)
check("full coding (identity)", "0 + C(x, levels=['a', 1, '1'])", data, levels, np.eye(3), intercept=False)

levels2 = [1.5, "1.5", 2]
data2 = pd.DataFrame({"x": pd.Series([1.5, "1.5", 2, 1.5], dtype=object)})
check("sum, explicit levels", "C(x, contr.sum, levels=[1.5, '1.5', 2])", data2, levels2,
      SumContrasts().get_coding_matrix(levels2).values)

print("DEFECT PRESENT" if bad else "ok")
sys.exit(1 if bad else 0)
