"""Source fingerprints of the library under test (part of the tie between model and code).

The models were validated (correspondence on several seeds, seeded changes) against ONE state of the library source.
`fingerprints.json` (committed) records, per source file, a hash of its syntax tree (comments, blank lines and
docstrings do not count) at that state. Every check recomputes the hashes from the tree it is run against:

* nothing changed  -> the usual number of correspondence cases;
* something changed -> the evidence names the changed files and the QUICK tier widens its exploration (more PRNG
  streams of the same generators), because a changed source is exactly when the hand-written model may have gone
  stale. A changed fingerprint is never by itself a violation.

`python -m harness.fingerprint --update` rewrites fingerprints.json (run after a `fix:` commit in /repo, once the checks
are green again on several seeds).
"""
from __future__ import annotations

import ast
import hashlib
import json
import os
import sys
from pathlib import Path

ROOT = Path(__file__).resolve().parent.parent
FILE = ROOT / "fingerprints.json"


def _strip_docstrings(tree: ast.AST) -> ast.AST:
    for node in ast.walk(tree):
        if isinstance(node, (ast.Module, ast.ClassDef, ast.FunctionDef, ast.AsyncFunctionDef)):
            b = node.body
            if b and isinstance(b[0], ast.Expr) and isinstance(getattr(b[0], "value", None), ast.Constant) and isinstance(b[0].value.value, str):
                node.body = b[1:] or [ast.Pass()]
    return tree


def current(repo: str | None = None) -> dict[str, str]:
    repo = repo or os.environ.get("FV_REPO", "/repo")
    base = Path(repo) / "formulaic"
    out = {}
    for p in sorted(base.rglob("*.py")):
        rel = str(p.relative_to(base))
        if rel == "_version.py":
            continue
        try:
            tree = _strip_docstrings(ast.parse(p.read_text()))
            h = hashlib.sha256(ast.dump(tree, include_attributes=False).encode()).hexdigest()[:16]
        except SyntaxError:
            h = "syntax-error:" + hashlib.sha256(p.read_bytes()).hexdigest()[:16]
        out[rel] = h
    return out


def recorded() -> dict[str, str]:
    try:
        return json.loads(FILE.read_text())["files"]
    except Exception:
        return {}


def changed(repo: str | None = None) -> list[str]:
    cur, rec = current(repo), recorded()
    return sorted(f for f in set(cur) | set(rec) if cur.get(f) != rec.get(f))


if __name__ == "__main__":
    if "--update" in sys.argv:
        import subprocess

        repo = os.environ.get("FV_REPO", "/repo")
        head = subprocess.run(["git", "-C", repo, "rev-parse", "--short", "HEAD"], capture_output=True, text=True).stdout.strip()
        FILE.write_text(json.dumps(dict(comment="syntax-tree hashes of formulaic/*.py at the library state the models were last validated against (see harness/fingerprint.py)", repo_head=head, files=current(repo)), indent=1) + "\n")
        print("recorded", len(current(repo)), "files at", head)
    else:
        print(changed())
