"""Shared pieces of the parser-stack checks (C01, C14, C15): protocol encoding, the implementation
runner, a grammar-directed formula generator and an independent evaluator of the documented
Wilkinson semantics on the generator's AST (the oracle; it never looks at the Lean model)."""
from __future__ import annotations

import ast
import inspect
import itertools
import re

CFG_DEFAULT = dict(intercept=True, twosided=True, multipart=True, multistage=False)


# ----------------------------------------------------------------------------- protocol


def char_flags(s: str):
    """word / whitespace classes of every character, computed with the LIVE regexes of tokenize()."""
    from formulaic.parser.algos.tokenize import tokenize

    sig = inspect.signature(tokenize).parameters
    word, space = sig["word_chars"].default, sig["whitespace_chars"].default
    return (
        "".join("1" if word.match(c) else "0" for c in s),
        "".join("1" if space.match(c) else "0" for c in s),
    )


def py_env(s: str):
    """CPython-dependent parameters of the model for this string: normal form and variables of
    every python token the real tokenizer finds (keyed by raw and by normalised text)."""
    from formulaic.parser.algos.sanitize_tokens import sanitize_python_code
    from formulaic.parser.algos.tokenize import tokenize
    from formulaic.parser.types import Token

    norm, pyvars = [], []
    toks = []
    try:  # tokenize is a generator: keep the tokens it yields before it raises
        for t in tokenize(s):
            toks.append(t)
    except Exception:
        pass
    seen = set()
    for t in toks:
        if t.kind is Token.Kind.PYTHON and t.token not in seen:
            seen.add(t.token)
            try:
                n = sanitize_python_code(t.token)
                norm.append(dict(k=t.token, ok=n))
                tt = Token(n, kind="python")
                pyvars.append(dict(k=n, v=sorted(str(v) for v in tt.required_variables)))
            except Exception as e:
                norm.append(dict(k=t.token, err=type(e).__name__))
    return norm, pyvars


def request_for(s: str, op: str, cfg=None, avail=None):
    w, sp = char_flags(s)
    norm, pyvars = py_env(s)
    return dict(op=op, s=s, w=w, sp=sp, cfg=cfg or CFG_DEFAULT, norm=norm, pyvars=pyvars, avail=avail)


# ----------------------------------------------------------------------------- implementation runner


def make_parser(cfg):
    from formulaic.parser import DefaultFormulaParser

    flags = set()
    if cfg["twosided"]:
        flags.add("twosided")
    if cfg["multipart"]:
        flags.add("multipart")
    if cfg["multistage"]:
        flags.add("multistage")
    return DefaultFormulaParser(include_intercept=cfg["intercept"], feature_flags=flags)


def canon_term(t):
    return [[f.expr, f.eval_method.value] for f in t.factors]


def canon_val(v):
    from formulaic.utils.structured import Structured

    if isinstance(v, Structured):
        return {"s": {k: canon_val(x) for k, x in v._structure.items()}}
    if isinstance(v, tuple):
        return {"t": [canon_val(x) for x in v]}
    return [canon_term(t) for t in v]


def exc_class(e: BaseException) -> str:
    from formulaic.errors import FormulaParsingError

    if isinstance(e, FormulaParsingError):
        return "FormulaParsingError"
    if type(e) is SyntaxError:
        return "SyntaxError"
    return "internal:" + type(e).__name__


def make_parser_hist(cfg, hist=None):
    """a parser configured as `cfg`, optionally with a HISTORY: built under other feature flags, used, and
    then reconfigured with set_feature_flags (on the parser or on its resolver), or used and then pickled /
    deep-copied. Whatever the history, it must behave like a fresh parser configured as `cfg`."""
    if not hist:
        return make_parser(cfg)
    import copy
    import pickle

    via = hist["via"]
    p = make_parser(cfg if via in ("pickle", "deepcopy") else dict(cfg, **hist["start"]))
    for warm in hist["warmup"]:
        try:
            p.get_terms(warm)
        except Exception:
            pass
    flags = {k for k in ("twosided", "multipart", "multistage") if cfg[k]}
    if via == "pickle":
        p = pickle.loads(pickle.dumps(p))
    elif via == "deepcopy":
        p = copy.deepcopy(p)
    elif via == "parser":
        p.set_feature_flags(flags)
    else:
        p.operator_resolver.set_feature_flags(flags)
    return p


def gen_hist(rng):
    return dict(
        via=rng.choice(["parser", "resolver", "pickle", "deepcopy"]),
        start={k: rng.random() < 0.5 for k in ("twosided", "multipart", "multistage")},
        warmup=rng.sample(["a + b", "y ~ x | z", "y ~ [x ~ z]", "(", "a | b"], rng.randint(0, 2)),
    )


def impl_terms(s, cfg, avail=None, hist=None):
    ctx = {"__formulaic_variables_available__": avail} if avail is not None else {}
    try:
        return {"terms": canon_val(make_parser_hist(cfg, hist).get_terms(s, context=ctx))}
    except Exception as e:
        return {"error": exc_class(e)}


def impl_formula(s, cfg, avail=None, hist=None):
    from formulaic import Formula

    ctx = {"__formulaic_variables_available__": avail} if avail is not None else {}
    try:
        p = make_parser_hist(cfg, hist)
        return {"formula": canon_val(Formula(s, _parser=p, _nested_parser=p, _context=ctx))}
    except Exception as e:
        return {"error": exc_class(e)}


def to_lists(x):
    return [to_lists(y) for y in x] if isinstance(x, (tuple, list)) else x


def impl_tokenize(s):
    from formulaic.parser.algos.tokenize import tokenize

    try:
        return {"tokens": [[t.token, t.kind.value if t.kind else "none", t.source_start, t.source_end] for t in tokenize(s)]}
    except Exception as e:
        return {"error": exc_class(e)}


# ----------------------------------------------------------------------------- generator (grammar AST)

NAMES = ["a", "b", "c", "d", "x1", "y", "x", "z.w", "A_b"]
QUOTED = ["a b", "a+b", "x:y", "q|r~s", "2nd", "é", "p(q", "~", "|"]
CALLS = ["f(x)", "np.log( a )", "C(b, contr.treatment)", "g(a,b )", "f('a b' )", 'h(x, "q")', "center(a)", "f(g(a) + 1)"]
BRACES = ["{a+1}", "{ a * 2 }", "{a|b}", "{x[0]}", "{ [1,2][1] }"]


def gen_atom(rng, depth, opts):
    r = rng.random()
    if depth > 0 and r < 0.22:
        return ("paren", gen_sum(rng, depth - 1, opts))
    if r < 0.30 and opts.get("dot"):
        return ("dot",)
    if r < 0.40:
        return ("quoted", rng.choice(QUOTED))
    if r < 0.52:
        return ("py", rng.choice(CALLS))
    if r < 0.58:
        return ("py", rng.choice(BRACES))
    return ("name", rng.choice(NAMES))


def gen_pow(rng, depth, opts):
    a = gen_atom(rng, depth, opts)
    if rng.random() < 0.12:
        return ("pow", rng.choice(["**", "^"]), a, rng.choice([1, 2, 2, 3]))
    return a


def gen_inter(rng, depth, opts):
    xs = [gen_pow(rng, depth, opts)]
    while rng.random() < 0.3 and len(xs) < 3:
        xs.append(gen_pow(rng, depth, opts))
    if rng.random() < 0.1:
        xs.insert(rng.randrange(len(xs) + 1), ("num", rng.choice(["2", "0.5", "10", "3.25"])))
    e = xs[0]
    for x in xs[1:]:
        e = ("bin", ":", e, x)
    return e


def gen_prod(rng, depth, opts):
    e = gen_inter(rng, depth, opts)
    while rng.random() < 0.25:
        e = ("bin", rng.choice(["*", "*", "/", "%in%"]), e, gen_inter(rng, depth, opts))
    return e


def gen_signs(rng, first):
    if first and rng.random() < 0.75:
        return ""
    n = rng.choice([1, 1, 1, 1, 2, 2, 3, 5])
    return "".join(rng.choice("++-") for _ in range(n))


def gen_sum(rng, depth, opts):
    n = rng.choice([1, 1, 2, 2, 3, 4])
    items = []
    for i in range(n):
        sg = gen_signs(rng, i == 0)
        r = rng.random()
        if r < 0.07:
            items.append((sg, ("zero",)))
        elif r < 0.14:
            items.append((sg, ("one",)))
        else:
            items.append((sg, gen_prod(rng, depth, opts)))
    return ("sum", items)


def gen_parts(rng, depth, opts, allow_bar=True):
    parts = [gen_sum(rng, depth, opts)]
    while allow_bar and rng.random() < 0.2 and len(parts) < 3:
        parts.append(gen_sum(rng, depth, opts))
    return parts


def gen_formula(rng, depth=3, dot=False):
    r = rng.random()
    opts = dict(dot=dot)
    if r < 0.3:
        return ("two", gen_parts(rng, depth, dict(dot=False)), gen_parts(rng, depth, opts))
    if r < 0.36:
        return ("unary", gen_parts(rng, depth, opts))
    return ("one", gen_parts(rng, depth, opts))


# ----------------------------------------------------------------------------- rendering


def sp(rng):
    return rng.choice(["", "", " ", " ", "  ", "\t", "\n"]) if rng else " "


def render(node, rng=None) -> str:
    k = node[0]
    if k == "name":
        return node[1]
    if k == "quoted":
        return "`" + node[1] + "`"
    if k == "py":
        return node[1]
    if k == "num":
        return node[1]
    if k == "zero":
        return "0"
    if k == "one":
        return "1"
    if k == "dot":
        return "."
    if k == "paren":
        return "(" + sp(rng) + render(node[1], rng) + sp(rng) + ")"
    if k == "pow":
        return render(node[2], rng) + sp(rng) + node[1] + sp(rng) + str(node[3])
    if k == "bin":
        return render(node[2], rng) + sp(rng) + node[1] + sp(rng) + render(node[3], rng)
    if k == "sum":
        out = []
        for i, (sg, x) in enumerate(node[1]):
            signs = sg
            if rng and len(signs) > 1 and rng.random() < 0.3:  # spaces inside a sign run
                signs = " ".join(signs)
            out.append((sp(rng) if i else "") + signs + sp(rng) + render(x, rng))
        return "".join(out)
    if k in ("one", "unary", "two"):
        raise ValueError
    raise ValueError(k)


def render_parts(parts, rng=None):
    return (sp(rng) + "|" + sp(rng)).join(render(p, rng) for p in parts)


def render_formula(f, rng=None):
    if f[0] == "two":
        return render_parts(f[1], rng) + sp(rng) + "~" + sp(rng) + render_parts(f[2], rng)
    if f[0] == "unary":
        return "~" + sp(rng) + render_parts(f[1], rng)
    return render_parts(f[1], rng)


# ----------------------------------------------------------------------------- documented semantics (oracle)


class Reject(Exception):
    """the documented grammar/semantics says this formula is invalid"""


class TooBig(Exception):
    """the expansion has more terms than the streams want to wait for (powers of large sums)"""


MAX_TERMS = 400


def t_key(t):
    return tuple(sorted(f[0] for f in t))


def mk_term(fs):
    out, seen = [], set()
    for f in fs:
        if f[0] not in seen:
            seen.add(f[0])
            out.append(f)
    return tuple(out)


def oset(ts):
    out, seen = [], set()
    for t in ts:
        if t_key(t) not in seen:
            seen.add(t_key(t))
            out.append(t)
    return out


def union(a, b):
    return oset(list(a) + list(b))


def diff(a, b):
    kb = {t_key(t) for t in b}
    return [t for t in a if t_key(t) not in kb]


def prod(a, b):
    return oset([mk_term(x + y) for x in a for y in b])


def py_norm(code):
    return ast.unparse(ast.parse(code.strip(), mode="eval")).replace("\n", " ")


def d_atom(node, env):
    k = node[0]
    if k == "name":
        return [((node[1], "lookup"),)]
    if k == "quoted":
        return [((node[1], "lookup"),)]
    if k == "py":
        code = node[1]
        if code.startswith("{"):
            code = code[1:-1]
        return [((py_norm(code), "python"),)]
    if k == "num":
        return [((node[1], "literal"),)]
    if k == "one":
        return [(("1", "literal"),)]
    if k == "dot":
        if env.get("avail") is None:
            raise Reject("`.` without available variables")
        used = set(env["lhs_vars"])
        seen, out = set(), []
        for v in env["avail"]:
            if v not in used and v not in seen:
                seen.add(v)
                out.append(((v, "lookup"),))
        return out
    if k == "paren":
        return d_sum(node[1], [], env)
    if k == "pow":
        base = d_atom(node[2], env)
        if len(base) ** node[3] > MAX_TERMS:
            raise TooBig()
        acc = base
        for _ in range(node[3] - 1):
            acc = [mk_term(x + y) for x in acc for y in base]
        return oset(acc)
    if k == "bin":
        a, b = d_expr(node[2], env), d_expr(node[3], env)
        op = node[1]
        if len(a) * len(b) > MAX_TERMS:
            raise TooBig()
        if op == ":":
            return prod(a, b)
        if op == "*":
            return union(union(a, b), prod(a, b))
        if op == "%in%":
            a, b = b, a
        if not a:
            raise Reject("nesting under an empty parent")
        common = ()
        for t in a:
            common = mk_term(common + t)
        return union(a, oset([mk_term(common + t) for t in b]))
    raise ValueError(k)


def d_expr(node, env):
    if node[0] == "sum":
        return d_sum(node, [], env)
    if node[0] == "zero":
        raise Reject("0 outside a sum")
    return d_atom(node, env)


def d_sum(node, start, env):
    cur = list(start)
    for sg, x in node[1]:
        neg = sg.count("-") % 2 == 1
        if x[0] == "zero":  # `0` is `-1`
            neg = not neg
            val = [(("1", "literal"),)]
        else:
            val = d_expr(x, env)
        cur = diff(cur, val) if neg else union(cur, val)
    return cur


def validate(ts):
    seen = set()
    for t in ts:
        if len(t) == 1:
            if t[0][1] == "literal" and t[0][0] != "1":
                raise Reject("bare literal")
        h = tuple(f[0] for f in t if f[1] != "literal")
        if h in seen:
            raise Reject("re-scaled repeat")
        seen.add(h)


def degree(t):
    return sum(1 for f in t if f[1] != "literal")


def leaf(ts, ordered):
    validate(ts)
    ts = sorted(ts, key=degree) if ordered else ts
    return [[list(f) for f in t] for t in ts]


def lhs_variables(parts):
    """data variables referenced on the left-hand side (names, quoted names, python fragments)"""
    out = []

    def walk(n):
        if n[0] in ("name", "quoted"):
            out.append(n[1])
        elif n[0] == "py":
            code = n[1][1:-1] if n[1].startswith("{") else n[1]
            from formulaic.transforms import TRANSFORMS

            for m in ast.walk(ast.parse(code.strip(), mode="eval")):
                if isinstance(m, ast.Name) and m.id not in TRANSFORMS:
                    out.append(m.id)
        elif n[0] == "sum":
            for _, x in n[1]:
                walk(x)
        else:
            for c in n[1:]:
                if isinstance(c, (tuple, list)):
                    walk(c)

    for p in parts:
        walk(p)
    return out


def denote(f, cfg, avail=None, ordered=True):
    """Expected canonical value of Formula(render(f)) (ordered=True) or parser.get_terms (False).
    Raises Reject when the documented grammar/feature flags exclude the formula."""
    start = [(("1", "literal"),)] if cfg["intercept"] else []

    def parts_val(parts, st, env):
        if len(parts) > 1 and not cfg["multipart"]:
            raise Reject("multipart disabled")
        vals = [leaf(d_sum(p, st, env), ordered) for p in parts]
        return vals[0] if len(vals) == 1 else {"t": vals}

    if f[0] == "two":
        if not cfg["twosided"]:
            raise Reject("twosided disabled")
        env = dict(avail=avail, lhs_vars=lhs_variables(f[1]))
        return {"s": {"lhs": parts_val(f[1], [], dict(avail=avail, lhs_vars=[])), "rhs": parts_val(f[2], start, env)}}
    env = dict(avail=avail, lhs_vars=[])
    v = parts_val(f[1], start, env)
    if ordered:  # Formula(): a plain SimpleFormula when there is no structure
        return v if isinstance(v, list) else {"s": {"root": v}}
    return {"s": {"root": v}}
