"""Shared machinery for every property check (see DESIGN.md sections 2 and 3).

A property module `harness/props/cXX.py` provides

    PROPERTY            "C19"
    ENGINE              name of the Lean driver engine the correspondence talks to
    REQUIRED_THEOREMS   list of theorem names (relative to FormulaicVerif.Props.CXX) that
                        must exist and pass the axiom audit; deleting one is a broken obligation
    TRUSTED             list of strings: per-property additions to the trusted base
    RULE                how cases are generated / what counts as non-trivial
    def cases(rng, tier) -> iterable of JSON-able case dicts     (one PRNG: `rng`)
    def impl(case) -> JSON-able canonical observable of the REAL code on that case
    def request(case, impl_out) -> dict sent to the Lean driver (gets "e": ENGINE added)
    def agree(case, impl_out, model_out) -> None | str      (default: equality)
    def oracle(case, impl_out) -> None | str   direct property predicate on the impl output
    def nontrivial(case) -> bool
    def classify(case, impl_out, why) -> finding id | None   (matches known_findings.json)
    def describe(case) -> short str for histograms
    optional: corpus is read from corpus/CXX/*.json and run first.

Exit codes: 0 property held on everything explored, 1 VIOLATION, 2 infrastructure failure.
"""
from __future__ import annotations

import fcntl
import hashlib
import importlib
import json
import os
import random
import re
import subprocess
import sys
import time
import traceback
from collections import Counter
from pathlib import Path

ROOT = Path(__file__).resolve().parent.parent
LEAN = ROOT / "lean"
EVIDENCE = ROOT / "evidence"
REPLAYS = ROOT / "replays"
CORPUS = ROOT / "corpus"
FINDINGS = ROOT / "known_findings.json"
ALLOWED_AXIOMS = {"propext", "Classical.choice", "Quot.sound"}
BANNED = re.compile(
    r"\bsorry\b|\badmit\b|^\s*axiom\s|native_decide|bv_decide|implemented_by|\bunsafe\s|maxHeartbeats\s+0\b"
)

GLOBAL_TRUSTED = [
    "Lean 4.33.0 kernel (thorough tier: also leanchecker on the property's module)",
    "axioms allowed: propext, Classical.choice, Quot.sound (audited per theorem with #print axioms on every run); no native_decide, no bv_decide, no user axioms, no sorry",
    "harness/translate.py (regenerates lean/FormulaicVerif/Gen/*.lean from the live package on every run)",
    "the correspondence harness (harness/common.py, harness/props/*.py) and lean/Driver.lean (JSON line protocol, canonicalisation)",
    "CPython, numpy, pandas, scipy, narwhals, pyarrow are modelled (their results enter the model as data), not verified; IEEE rounding is not modelled",
]


class Infra(Exception):
    pass


def log(*a):
    print(*a, file=sys.stderr, flush=True)


# ----------------------------------------------------------------------------- lean side


class LeanLock:
    def __enter__(self):
        (LEAN / ".lake").mkdir(exist_ok=True)
        self.f = open(LEAN / ".lake" / "verif.lock", "w")
        fcntl.flock(self.f, fcntl.LOCK_EX)
        return self

    def __exit__(self, *a):
        fcntl.flock(self.f, fcntl.LOCK_UN)
        self.f.close()


def run(cmd, cwd=None, timeout=3600, input=None):
    try:
        p = subprocess.run(
            cmd, cwd=cwd, timeout=timeout, input=input, capture_output=True, text=True
        )
    except subprocess.TimeoutExpired as e:
        raise Infra(f"timeout after {timeout}s: {' '.join(map(str, cmd))}") from e
    except FileNotFoundError as e:
        raise Infra(f"missing tool: {cmd[0]}") from e
    return p


def regenerate_tables():
    """Translator: Gen/*.lean from the live package. Returns {file: sha256}."""
    from . import translate

    return translate.main()


def strip_comments(src: str) -> str:
    # remove /- ... -/ (nested) and -- line comments
    out = []
    i, depth, n = 0, 0, len(src)
    while i < n:
        if src.startswith("/-", i):
            depth += 1
            i += 2
        elif depth and src.startswith("-/", i):
            depth -= 1
            i += 2
        elif depth:
            if src[i] == "\n":
                out.append("\n")
            i += 1
        elif src.startswith("--", i):
            while i < n and src[i] != "\n":
                i += 1
        else:
            out.append(src[i])
            i += 1
    return "".join(out)


def module_closure(mod: str) -> list[Path]:
    """Lean source files of our library imported (transitively) by `mod`."""
    seen, todo = [], [mod]
    while todo:
        m = todo.pop()
        p = LEAN / (m.replace(".", "/") + ".lean")
        if not p.exists() or p in seen:
            continue
        seen.append(p)
        for mm in re.findall(r"^import\s+(FormulaicVerif[\w.]*)", p.read_text(), re.M):
            todo.append(mm)
    return seen


def theorem_names(prop: str) -> list[str]:
    p = LEAN / "FormulaicVerif" / "Props" / f"{prop}.lean"
    if not p.exists():
        return []
    src = strip_comments(p.read_text())
    return re.findall(r"^theorem\s+([\w.']+)", src, re.M)


def build_and_audit(prop: str, required: list[str], tier: str) -> dict:
    """Build the obligations of `prop`, audit sources and axioms.

    Returns dict(obligations, discharged, theorems={name: axioms|error}, broken=[...], log=str).
    Never raises for a *proof* failure (that is a broken obligation, not infrastructure)."""
    mod = f"FormulaicVerif.Props.{prop}"
    res = dict(obligations=0, discharged=0, theorems={}, broken=[], build_log="")
    with LeanLock():
        p = run(["lake", "build", mod], cwd=LEAN, timeout=3000)
        res["build_log"] = (p.stdout + p.stderr)[-6000:]
        names = theorem_names(prop)
        for r in required:
            if r not in names:
                res["broken"].append(f"required theorem {r} is missing from Props/{prop}.lean")
        allnames = list(dict.fromkeys(names + required))
        res["obligations"] = len(allnames)
        if p.returncode != 0:
            if "error" not in res["build_log"] and "Error" not in res["build_log"]:
                raise Infra("lake build failed without a Lean error:\n" + res["build_log"])
            res["broken"].append(f"lake build {mod} failed")
            for n in allnames:
                res["theorems"][n] = "not built"
            return res
        # source audit over the module closure
        for f in module_closure(mod):
            for ln, line in enumerate(strip_comments(f.read_text()).splitlines(), 1):
                if BANNED.search(line):
                    res["broken"].append(f"banned construct in {f.relative_to(LEAN)}:{ln}: {line.strip()[:80]}")
        # axiom audit
        audit = LEAN / ".lake" / f"audit_{prop}.lean"
        body = f"import {mod}\nopen FormulaicVerif.Props.{prop}\n" + "".join(
            f"#print axioms FormulaicVerif.Props.{prop}.{n}\n" for n in allnames
        )
        audit.write_text(body)
        a = run(["lake", "env", "lean", str(audit)], cwd=LEAN, timeout=900)
        out = a.stdout + a.stderr
        for n in allnames:
            full = f"FormulaicVerif.Props.{prop}.{n}"
            m = re.search(
                r"'" + re.escape(full) + r"' depends on axioms: \[([^\]]*)\]", out, re.S
            )
            if m:
                axs = [x.strip() for x in m.group(1).replace("\n", " ").split(",") if x.strip()]
                res["theorems"][n] = axs
                bad = [x for x in axs if x not in ALLOWED_AXIOMS]
                if bad:
                    res["broken"].append(f"theorem {n} depends on disallowed axioms {bad}")
                else:
                    res["discharged"] += 1
            elif re.search(r"'" + re.escape(full) + r"' does not depend on any axioms", out):
                res["theorems"][n] = []
                res["discharged"] += 1
            else:
                res["theorems"][n] = "missing"
                if n in names:
                    res["broken"].append(f"theorem {n} could not be audited")
        if tier == "thorough":
            c = run(["lake", "env", "leanchecker", mod], cwd=LEAN, timeout=3000)
            res["leanchecker"] = "ok" if c.returncode == 0 else (c.stdout + c.stderr)[-2000:]
            if c.returncode != 0:
                res["broken"].append("leanchecker rejected " + mod)
    return res


def drive(requests: list[dict], timeout=3000) -> list:
    """Send JSON requests (one per line) to the Lean driver; return decoded answers."""
    if not requests:
        return []
    payload = "".join(json.dumps(r, ensure_ascii=True, separators=(",", ":")) + "\n" for r in requests)
    with LeanLock():
        # make sure the driver's imports are compiled (no-op when up to date)
        b = run(["lake", "build", "FormulaicVerif.Engines"], cwd=LEAN, timeout=3000)
    if b.returncode != 0:
        return [{"driver_error": "engines do not build: " + (b.stdout + b.stderr)[-1500:]}] * len(requests)
    p = run(["lake", "env", "lean", "--run", "Driver.lean"], cwd=LEAN, timeout=timeout, input=payload)
    lines = [l for l in p.stdout.splitlines() if l.strip()]
    if p.returncode != 0 or len(lines) != len(requests):
        err = (p.stderr or "")[-1500:] + (p.stdout or "")[-500:]
        return [{"driver_error": f"driver exit {p.returncode}, {len(lines)}/{len(requests)} answers: {err}"}] * len(requests)
    out = []
    for l in lines:
        try:
            out.append(json.loads(l))
        except Exception:
            out.append({"driver_error": "unparsable: " + l[:200]})
    return out


# ----------------------------------------------------------------------------- findings


def load_findings(prop: str) -> dict:
    if not FINDINGS.exists():
        return {}
    data = json.loads(FINDINGS.read_text())
    return {f["id"]: f for f in data.get("findings", []) if f["property"] == prop and f.get("status") == "known"}


# ----------------------------------------------------------------------------- shrink


def _paths(x, pre=()):
    """all (path, value) pairs of a JSON value, parents before children"""
    yield pre, x
    if isinstance(x, dict):
        for k in x:
            yield from _paths(x[k], pre + (k,))
    elif isinstance(x, list):
        for i, v in enumerate(x):
            yield from _paths(v, pre + (i,))


def _get(x, path):
    for k in path:
        x = x[k]
    return x


def _set(x, path, v):
    import copy

    x = copy.deepcopy(x)
    if not path:
        return v
    t = x
    for k in path[:-1]:
        t = t[k]
    t[path[-1]] = v
    return x


def shrink_candidates(case):
    """Helper for property modules (`shrink_candidates(case)` in a module may wrap this and repair the case's own
    invariants, e.g. a row count field). Structural shrink candidates of a JSON case, most aggressive first:
    (a) the same index removed from ALL lists of one length (rows of a data set held column-wise),
    (b) one element removed from one list, (c) a string of a list/dict value shortened by one token."""
    lists = [(p, v) for p, v in _paths(case) if isinstance(v, list) and len(v) > 1]
    by_len = {}
    for p, v in lists:
        by_len.setdefault(len(v), []).append(p)
    for n, ps in sorted(by_len.items(), reverse=True):
        if len(ps) > 1:
            for i in range(n - 1, -1, -1):
                c = case
                ok = True
                # deepest paths first so that indices of outer lists stay valid
                for p in sorted(ps, key=len, reverse=True):
                    try:
                        v = _get(c, p)
                        if isinstance(v, list) and len(v) == n:
                            c = _set(c, p, v[:i] + v[i + 1:])
                    except Exception:
                        ok = False
                if ok:
                    yield c
    for p, v in sorted(lists, key=lambda pv: -len(pv[1])):
        for i in range(len(v) - 1, -1, -1):
            yield _set(case, p, v[:i] + v[i + 1:])


def shrink_case(mod, case, budget_s=10.0):
    """Greedy shrink of a case on which the property oracle fails on the implementation.
    A candidate is kept only if the implementation still runs on it (no harness exception) and the ORACLE still fails:
    the shrunk replay is therefore a genuine failing input, never an artefact of the shrinker."""
    t0 = time.time()

    def fails(c):
        try:
            o = with_timeout(mod.impl, c)
        except (Exception, CaseTimeout):
            return None
        if isinstance(o, dict) and "harness_exception" in o:
            return None
        try:
            why = mod.oracle(c, o)
        except Exception:
            return None
        return (o, why) if why is not None else None

    def sig(why):
        # the failure must stay the SAME kind of failure: compare the message with everything but letters removed
        return re.sub(r"[^A-Za-z]+", "", str(why))[:24]

    gen = getattr(mod, "shrink_candidates", None)
    if gen is None:  # only modules that know the well-formedness rules of their cases offer candidates
        return case, None, 0
    first = fails(case)
    if first is None:
        return case, None, 0
    want = sig(first[1])
    best = None
    improved = True
    steps = 0
    while improved and time.time() - t0 < budget_s:
        improved = False
        for c in gen(case):
            if time.time() - t0 > budget_s:
                break
            steps += 1
            r = fails(c)
            if r is not None and sig(r[1]) == want:
                case, best, improved = c, r, True
                break
    return case, best, steps


# ----------------------------------------------------------------------------- main check


def canonical(x):
    return json.dumps(x, sort_keys=True, ensure_ascii=True, separators=(",", ":"))


def write_json(path: Path, obj):
    path.parent.mkdir(parents=True, exist_ok=True)
    tmp = path.with_suffix(path.suffix + ".tmp")
    tmp.write_text(json.dumps(obj, indent=1, ensure_ascii=True, default=str) + "\n")
    os.replace(tmp, path)


def check(prop: str, tier: str, seed: int, replay: str | None = None) -> int:
    t0 = time.time()
    mod = importlib.import_module(f"harness.props.{prop.lower()}")
    rng = random.Random(seed * 1000003 + int(hashlib.sha256(prop.encode()).hexdigest()[:8], 16))
    known = load_findings(prop)
    ev = dict(
        property_id=prop,
        tier=tier,
        seed=seed,
        level="proof",
        coverage={},
        assumptions=[],
        wall_s=0.0,
        violations=0,
    )
    cov = ev["coverage"]
    violations: list[tuple[str, dict]] = []  # (kind, replay-dict)
    known_hits: dict[str, dict] = {}
    broken: list[str] = []

    # 1. translator
    try:
        sums = regenerate_tables()
    except Exception as e:  # the live package no longer exposes what the translator reads
        sums = {}
        broken.append("translator failed: " + repr(e)[:300])
        log(traceback.format_exc())
    cov["translator_checksums"] = sums

    # 2. obligations
    audit = build_and_audit(prop, list(getattr(mod, "REQUIRED_THEOREMS", [])), tier)
    broken += audit["broken"]
    cov["obligations"] = audit["obligations"]
    cov["discharged"] = audit["discharged"]
    cov["theorems"] = audit["theorems"]
    cov["checker_cmd"] = (
        f"cd lean && lake build FormulaicVerif.Props.{prop} && lake env lean .lake/audit_{prop}.lean"
        + (f" && lake env leanchecker FormulaicVerif.Props.{prop}" if tier == "thorough" else "")
    )
    if "leanchecker" in audit:
        cov["leanchecker"] = audit["leanchecker"]
    cov["trusted_base"] = GLOBAL_TRUSTED + list(getattr(mod, "TRUSTED", []))
    ev["assumptions"] = list(getattr(mod, "ASSUMPTIONS", []))

    # 3. correspondence
    cases: list[dict] = []
    if replay:
        rp = json.loads(Path(replay).read_text())
        cases = [rp["case"]] if "case" in rp else []
    else:
        cdir = CORPUS / prop
        if cdir.exists():
            for f in sorted(cdir.glob("*.json")):
                cases.append(json.loads(f.read_text())["case"])
        ncorpus = len(cases)
        cases += list(mod.cases(rng, tier))
        cov["corpus_cases"] = ncorpus
        # the library source differs from the state the model was validated against: widen the quick exploration
        # (further PRNG streams of the same generators, bounded by a case count) — see harness/fingerprint.py
        try:
            from . import fingerprint

            src_changed = fingerprint.changed()
        except Exception as e:
            src_changed = ["fingerprint failed: " + repr(e)[:100]]
        cov["source_changed_since_validation"] = src_changed
        if src_changed and tier == "quick" and os.environ.get("VERIF_NO_WIDEN") != "1":
            base_n = max(1, len(cases) - ncorpus)
            extra = int(os.environ.get("VERIF_WIDEN_STREAMS", "3"))
            for k in range(1, extra + 1):
                rng_k = random.Random((seed + 7919 * k) * 1000003 + int(hashlib.sha256(prop.encode()).hexdigest()[:8], 16))
                more = []
                for c in mod.cases(rng_k, tier):
                    more.append(c)
                    if len(more) >= base_n:
                        break
                cases += more
            cov["widened_streams"] = extra
    outcome = run_cases(mod, cases, known, violations, known_hits)
    cov.update(outcome["cov"])
    corr_broken = outcome["disagreements"]
    if corr_broken:
        broken.append(f"correspondence stream '{mod.ENGINE}' has {len(corr_broken)} disagreement(s)")

    # 4. verdict / failing-input search
    if broken and not violations:
        log(f"[{prop}] broken: " + "; ".join(broken)[:1000])
        log(f"[{prop}] searching for a concrete failing input ...")
        budget = 30 if tier == "quick" else 600
        found = search(mod, prop, seed, budget, known, known_hits)
        if found:
            violations.append(found)
        else:
            first = corr_broken[0] if corr_broken else None
            violations.append(
                (
                    "no-failing-input-found",
                    dict(
                        broken=broken,
                        build_log=audit.get("build_log", "")[-3000:],
                        first_disagreement=first,
                        note="a proof obligation or the correspondence no longer checks; no input on which the implementation violates the property was found within the search budget",
                    ),
                )
            )
    # minimise failing inputs (the original case is kept in the replay as `unshrunk_case`)
    if not replay and os.environ.get("VERIF_NO_SHRINK") != "1":
        budget = (10.0 if tier == "quick" else 60.0) / max(1, min(5, len(violations)))
        for i, (kind, rp) in enumerate(violations[:5]):
            if kind != "property-fails-on-impl" or "case" not in rp:
                continue
            try:
                small, res, steps = shrink_case(mod, rp["case"], budget)
            except Exception:
                continue
            if res is not None and canonical(small) != canonical(rp["case"]):
                violations[i] = (kind, dict(rp, unshrunk_case=rp["case"], case=small, impl=res[0], why=res[1],
                                            model=None, shrink_steps=steps))
    cov["broken"] = broken
    ev["violations"] = len(violations)
    ev["wall_s"] = round(time.time() - t0, 2)
    cov["known_findings_hit"] = sorted(known_hits)
    write_json(EVIDENCE / f"{prop}.json", ev)

    for fid, info in sorted(known_hits.items()):
        print(f"KNOWN-FINDING: property={prop} {fid}: {known[fid]['what']} [e.g. {info['example'][:120]}]")
    if replay:
        for kind, rp in violations:
            print(f"REPLAY property={prop} reproduces: {kind}: {str(rp.get('why',''))[:300]}")
        if not violations:
            print(f"REPLAY property={prop}: no violation on this case")
        return 1 if violations else 0
    rc = 0
    for kind, rp in violations[:5]:
        h = hashlib.sha256(canonical(rp).encode()).hexdigest()[:12]
        path = REPLAYS / f"{prop}-{h}.json"
        rp = dict(rp, property=prop, kind=kind, seed=seed, tier=tier,
                  replay_cmd=f"./check {prop} --replay replays/{prop}-{h}.json")
        write_json(path, rp)
        tail = " no-failing-input-found" if kind == "no-failing-input-found" else ""
        print(f"VIOLATION property={prop} replay={path.relative_to(ROOT)}{tail}")
        rc = 1
    if rc == 0:
        print(f"OK property={prop} tier={tier} obligations={cov['obligations']} discharged={cov['discharged']} "
              f"cases={cov.get('evaluations')} wall={ev['wall_s']}s")
    return rc


class CaseTimeout(BaseException):
    """derives from BaseException so that `except Exception` inside impl() cannot swallow it"""


def with_timeout(fn, c, seconds=None):
    """Run the implementation on one case with a wall-clock cap (a hang is an observable, not an infra failure)."""
    import signal

    seconds = seconds or int(os.environ.get("VERIF_CASE_TIMEOUT", "20"))

    def onalarm(signum, frame):
        raise CaseTimeout(f"implementation did not finish within {seconds}s")

    old = signal.signal(signal.SIGALRM, onalarm)
    signal.alarm(seconds)
    try:
        return fn(c)
    finally:
        signal.alarm(0)
        signal.signal(signal.SIGALRM, old)


def run_cases(mod, cases, known, violations, known_hits, record=True):
    """Run impl + model on cases. Classify each disagreement / oracle failure."""
    impl_outs = []
    hist = Counter()
    errs = Counter()
    skipped_expensive = 0
    kept = []
    for c in cases:
        try:
            o = with_timeout(mod.impl, c)
        except CaseTimeout as e:
            # a SMALL case that does not finish is an observable (termination is part of C14); a LARGE generated case
            # that exceeds the per-case cap on a loaded machine is only expensive (valid formulas such as
            # `(big sum)**3` take minutes): it is counted in the evidence and left out, never reported
            if len(canonical(c)) > int(os.environ.get("VERIF_EXPENSIVE_CHARS", "600")):
                skipped_expensive += 1
                continue
            o = {"harness_exception": type(e).__name__ + ": " + str(e)[:200]}
        except Exception as e:  # harness bug or impl API break: an observable
            o = {"harness_exception": type(e).__name__ + ": " + str(e)[:200]}
        kept.append(c)
        impl_outs.append(o)
        try:
            hist[mod.describe(c)] += 1
        except Exception:
            pass
    cases = kept
    reqs = []
    for c, o in zip(cases, impl_outs):
        r = dict(mod.request(c, o))
        r["e"] = getattr(mod, "ENGINE")
        reqs.append(r)
    model_outs = drive(reqs)
    distinct = set()
    disagreements = []
    samples = []
    agree = getattr(mod, "agree", None)
    for c, o, m in zip(cases, impl_outs, model_outs):
        key = canonical(c)
        if mod.nontrivial(c):
            distinct.add(hashlib.sha256(key.encode()).hexdigest())
        if len(samples) < 5 and mod.nontrivial(c) and len(key) < 1500:
            samples.append(dict(case=c, impl=o, model=m))
        if isinstance(o, dict) and "error" in o:
            errs[str(o["error"])] += 1
        why_corr = None
        why_prop = None
        if isinstance(o, dict) and "harness_exception" in o:
            why_corr = "harness could not run the implementation on this case: " + o["harness_exception"]
        else:
            try:
                if agree:
                    why_corr = agree(c, o, m)
                elif canonical(o) != canonical(m):
                    why_corr = "model and implementation differ"
            except Exception as e:
                why_corr = "agree() raised " + repr(e)[:200]
            try:
                why_prop = mod.oracle(c, o)
            except Exception as e:
                why_prop = None
                log("oracle raised", repr(e))
        if why_corr is None and why_prop is None:
            continue
        fid = None
        try:
            fid = mod.classify(c, o, why_prop or why_corr)
        except Exception:
            fid = None
        if fid is not None and fid in known:
            known_hits.setdefault(fid, dict(example=key))
            continue
        rp = dict(case=c, impl=o, model=m, why=why_prop or why_corr)
        if why_prop is not None:
            violations.append(("property-fails-on-impl", rp))
        else:
            disagreements.append(rp)
    cov = dict(
        evaluations=len(cases),
        distinct_nontrivial=len(distinct),
        rule=getattr(mod, "RULE", ""),
        samples=samples,
        disagreements_checked=len(disagreements),
        input_distribution=dict(hist.most_common(40)),
        error_kinds=dict(errs),
        correspondence_stream=getattr(mod, "ENGINE"),
        skipped_expensive_cases=skipped_expensive,
    )
    return dict(cov=cov, disagreements=disagreements)


def search(mod, prop, seed, budget, known, known_hits):
    """Failing-input search on the real code with the direct property oracle."""
    t0 = time.time()
    k = 0
    while time.time() - t0 < budget:
        k += 1
        rng = random.Random(seed * 7919 + k)
        gen = getattr(mod, "search_cases", None) or mod.cases
        for c in gen(rng, "search"):
            if time.time() - t0 > budget:
                break
            try:
                o = with_timeout(mod.impl, c)
                why = mod.oracle(c, o)
            except (Exception, CaseTimeout):
                continue
            if why is None:
                continue
            fid = None
            try:
                fid = mod.classify(c, o, why)
            except Exception:
                pass
            if fid is not None and fid in known:
                known_hits.setdefault(fid, dict(example=canonical(c)))
                continue
            return ("property-fails-on-impl", dict(case=c, impl=o, why=why, found_by="failing-input search"))
    return None


def main(argv=None):
    import argparse

    ap = argparse.ArgumentParser()
    ap.add_argument("prop")
    ap.add_argument("--tier", default=os.environ.get("VERIF_TIER", "quick"), choices=["quick", "thorough"])
    ap.add_argument("--replay")
    a = ap.parse_args(argv)
    seed = int(os.environ.get("VERIF_SEED", "0") or 0)
    try:
        return check(a.prop.upper(), a.tier, seed, a.replay)
    except Infra as e:
        log("INFRASTRUCTURE FAILURE:", e)
        return 2
    except Exception:
        log(traceback.format_exc())
        return 2
