"""C03 — Rank reduction yields a structurally full-rank matrix with unchanged span.

Correspondence stream `structure` (engine `c02`, the same model as C02): random term sets over <= 4
categorical factors (1-4 levels, every built-in contrast, one factor expression per variable) and
<= 2 numeric factors, any subset lattice of interactions, random order (`_ordering="none"`),
intercept on/off (at a random position), `cluster_by` both, on FULLY CROSSED data. Compared: for
every term the emitted scoped terms with their reduced flags and scale, the column names, and the
values of the first rows, against `model_spec.structure` / the real matrix.
Thorough adds the exhaustive enumeration of all term sets over 3 factors in every order (<= 5
terms; larger sets in canonical and reversed order).

Oracle (implementation only, numeric): on the fully crossed design (numeric variables crossed over
two distinct primes each) rank(M_reduced) = ncols, rank([M_reduced | M_full]) = rank(M_full) =
rank(M_reduced), with numpy.linalg.matrix_rank.
"""
from __future__ import annotations

import itertools

import numpy
import pandas

from harness.props import c02 as base

PROPERTY = "C03"
ENGINE = "c02"
REQUIRED_THEOREMS = [
    "merge_preserves_comps",
    "simplify_preserves_comps",
    "simplify_fuel_sufficient",
    "structurally_full_rank",
    "span_unchanged",
    "components_independent",
    "full_coding_span_eq_one_sup_reduced",
    "scoped_term_span_eq_sum_of_components",
    "reduced_matrix_full_rank_same_span",
]
TRUSTED = base.TRUSTED + [
    "the bridge from structure to linear algebra is proved in Lean/Mathlib on the model's emitted STRUCTURE "
    "(reduced_matrix_full_rank_same_span: on a fully crossed design whose per-factor codings satisfy `Hyp` - [1 | reduced] "
    "independent, full coding independent with span = span [1 | reduced], which C11's invertibility of [1 | coding] gives - "
    "the structure columns of the reduced structure are linearly independent and span those of the unreduced one); the "
    "identification of these abstract structure columns (functions on the level combinations) with the List-Rat Entry "
    "columns of buildMatrix is NOT a Lean theorem (C02's column_is_product is its pointwise form); the numeric rank "
    "oracle (numpy.linalg.matrix_rank) checks the conclusion on the real matrices",
]
ASSUMPTIONS = [
    "each data variable is encoded by a single factor expression (as the property states); literal scales are non-zero",
    "numeric oracle: floating-point rank decisions of numpy.linalg.matrix_rank on well-scaled designs (entries |v| <= 21 "
    "before interaction) are taken as exact",
]
RULE = (
    "random term sets (1-7 terms, each a subset of <= 4 categorical + <= 2 numeric variables, degree <= 4), random order, "
    "intercept on/off at a random position, cluster_by both, outputs pandas/numpy/sparse; levels 1-4 per categorical "
    "(labels: strings, integers from 0 or 1, booleans, strings with '' first; pandas.Categorical or plain object column) with a "
    "random built-in contrast (treatment default, C(), treatment, SAS, sum, helmert, diff, poly); fully crossed data; "
    "thorough: + exhaustive term sets over 3 factors x all orders of <= 5 terms; non-trivial = some term of degree >= 2"
)

CONTR = [None, None, "C", "treatment", "SAS", "sum", "helmert", "diff", "poly"]
POOL = ["a", "b", "c", "d"]


def atom(v, contr):
    if contr is None:
        return v
    if contr == "C":
        return f"C({v})"
    return f"C({v}, contr.{contr})"


# level-label pools: the labels are data, the reference level of a factor is its FIRST level whatever it is called
# (falsy labels - 0, False, "" - included)
POOLS = {
    "str": ["a", "b", "c", "d"],
    "int0": [0, 1, 2, 3],
    "int1": [1, 2, 3, 4],
    "bool": [False, True],
    "empty": ["", "x", "y", "z"],
}


def cat_levels(cat):
    """cat = [name, k, contrast] or [name, k, contrast, pool, declared]"""
    pool = POOLS[cat[3]] if len(cat) > 3 else POOL
    return pool[: cat[1]]


def crossed_frame(cats, nums):
    axes = [cat_levels(c) for c in cats] + [list(p) for p in [(2, 3), (5, 7)][: len(nums)]]
    rows = list(itertools.product(*axes))
    cols = {}
    for i, c in enumerate(cats):
        vals = [r[i] for r in rows]
        if len(c) > 4 and not c[4]:
            cols[c[0]] = pandas.Series(vals, dtype=object)  # plain object column: levels = sorted unique values
        else:
            cols[c[0]] = pandas.Categorical(vals, categories=cat_levels(c))
    for j, v in enumerate(nums):
        cols[v] = numpy.array([float(r[len(cats) + j]) for r in rows])
    return pandas.DataFrame(cols), len(rows)


def gen_cat(rng, v):
    pool = rng.choice(["str", "str", "int0", "int0", "bool", "empty", "int1"])
    k = min(rng.choice([1, 2, 2, 3, 3, 4]), len(POOLS[pool]))
    return [v, k, rng.choice(CONTR), pool, rng.random() < 0.7]


def gen_case(rng, small=False):
    ncat = rng.randint(1, 3 if small else 4)
    nnum = rng.randint(0, 2)
    cats = [gen_cat(rng, v) for v in ["A", "B", "G", "H"][:ncat]]
    while numpy.prod([c[1] for c in cats]) > 48:
        c = cats[rng.randrange(ncat)]
        c[1] = min(c[1], 2)
    nums = ["x", "y"][:nnum]
    variables = [c[0] for c in cats] + nums
    nterms = rng.randint(1, 7)
    terms, seen = [], set()
    for _ in range(nterms):
        k = min(len(variables), rng.choice([1, 1, 2, 2, 2, 3, 3, 4]))
        t = rng.sample(variables, k)
        if frozenset(t) in seen:
            continue
        seen.add(frozenset(t))
        terms.append(t)
    if rng.random() < 0.3 and terms:  # close under some margins
        t = rng.choice(terms)
        for r in range(1, len(t)):
            for sub in itertools.combinations(t, r):
                if frozenset(sub) not in seen and rng.random() < 0.7:
                    seen.add(frozenset(sub))
                    terms.append(list(sub))
        rng.shuffle(terms)
    icpt = rng.random() < 0.6
    if icpt:
        terms.insert(rng.randrange(len(terms) + 1) if rng.random() < 0.4 else 0, [])
    return dict(
        kind="structure",
        cats=cats,
        nums=nums,
        terms=terms,
        cluster=rng.random() < 0.4,
        output=rng.choice(["pandas", "numpy", "sparse"]),
        mat=rng.choice(["pandas", "pandas", "pandas", "narwhals"]),
    )


def exhaustive(rng, budget):
    configs = [
        ([["A", 2, None, "int0", True], ["B", 3, "sum", "empty", True]], ["x"]),
        ([["A", 3, "helmert"], ["B", 2, None, "bool", False], ["G", 2, "treatment", "int0", True]], []),
    ]
    out = []
    for cats, nums in configs:
        variables = [c[0] for c in cats] + nums
        allterms = [list(s) for r in range(0, 4) for s in itertools.combinations(variables, r)]
        for k in range(1, len(allterms) + 1):
            for subset in itertools.combinations(allterms, k):
                if k <= 5:
                    orders = itertools.permutations(subset)
                else:
                    orders = [subset, tuple(reversed(subset))]
                for o in orders:
                    out.append(dict(kind="structure", cats=cats, nums=nums, terms=[list(t) for t in o], cluster=False,
                                    output="numpy", mat="pandas"))
    rng.shuffle(out)
    return out[:budget]


def cases(rng, tier):
    n = {"quick": 600, "thorough": 3000, "search": 150}[tier]
    for _ in range(n):
        yield gen_case(rng, small=(tier != "thorough"))
    if tier == "thorough":
        yield from exhaustive(rng, 9000)
    elif tier == "quick":
        yield from exhaustive(rng, 300)


def formula_of(c):
    contr = {x[0]: x[2] for x in c["cats"]}
    parts = []
    for t in c["terms"]:
        parts.append("1" if not t else ":".join(atom(v, contr[v]) if v in contr else v for v in t))
    has_icpt = any(not t for t in c["terms"])
    return "0 + " + " + ".join(parts) if parts else "0"


def describe(c):
    pools = "+".join(sorted({x[3] if len(x) > 3 else "str" for x in c["cats"]}))
    return f"cats={len(c['cats'])},nums={len(c['nums'])},terms={len(c['terms'])},labels={pools}"


def nontrivial(c):
    return any(len(t) >= 2 for t in c["terms"])


def _mat(c, df, efr):
    from formulaic import Formula
    from formulaic.materializers import NarwhalsMaterializer, PandasMaterializer

    cls = PandasMaterializer if c["mat"] == "pandas" else NarwhalsMaterializer
    m = cls(df)
    f = Formula(formula_of(c), _ordering="none")
    mm = m.get_model_matrix(f, ensure_full_rank=efr, output=c["output"],
                            cluster_by="numerical_factors" if c["cluster"] else "none")
    return m, mm


def _array(mm):
    a = mm.toarray() if hasattr(mm, "toarray") else numpy.asarray(mm)
    return numpy.asarray(a).astype(float)


KEEP = 2  # rows forwarded to the model (the structure does not depend on the rows)


def impl(c):
    df, nrows = crossed_frame(c["cats"], c["nums"])
    try:
        m, mm = _mat(c, df, True)
        m2, mm2 = _mat(c, df, False)
    except Exception as e:
        return {"error": type(e).__name__, "msg": str(e)[:200]}
    cc = dict(c, data={"nrows": nrows})
    o = base.observe(m, mm, c["output"], nrows, collapse=base.as_dict(c))
    R, F = _array(mm), _array(mm2)
    o["nrows"] = nrows
    o["ncols"] = [int(R.shape[1]), int(F.shape[1])]
    rk = numpy.linalg.matrix_rank
    o["rank_reduced"] = int(rk(R)) if R.size else 0
    o["rank_full"] = int(rk(F)) if F.size else 0
    o["rank_joint"] = int(rk(numpy.hstack([R, F]))) if (R.size or F.size) else 0
    # keep the observables small: first rows only
    for e in o["columns"]:
        e["values"] = e["values"][:KEEP]
    for f in o["factors"]:
        for key in ("full", "reduced"):
            f[key] = dict(f[key], cols=[[fld, col[:KEEP]] for fld, col in f[key]["cols"]])
    o.pop("flat", None)
    return o


def request(c, o):
    if "error" in o or "harness_exception" in o:
        return dict(op="noop")
    cc = dict(c, data={"nrows": min(KEEP, o["nrows"])}, efr=True)
    return base.matrix_request(cc, o)


def agree(c, o, m):
    if "driver_error" in m:
        return "driver: " + m["driver_error"][:300]
    if "error" in o or "harness_exception" in o:
        return None
    cc = dict(c, formula=formula_of(c))
    return base.agree_matrix(cc, o, m)


def oracle(c, o):
    if "harness_exception" in o:
        return "harness could not run the implementation: " + o["harness_exception"]
    if "error" in o:
        return f"materialisation raised {o['error']}: {o.get('msg', '')}"
    ncr, ncf = o["ncols"]
    if o["rank_reduced"] != ncr:
        return f"reduced matrix has {ncr} columns {[e['name'] for e in o['columns']]} but rank {o['rank_reduced']} on the fully crossed design"
    if o["rank_joint"] != o["rank_full"] or o["rank_reduced"] != o["rank_full"]:
        return (f"column spaces differ: rank(reduced)={o['rank_reduced']}, rank(full)={o['rank_full']}, "
                f"rank([reduced|full])={o['rank_joint']}")
    return None


def classify(c, o, why):
    return None


LEVEL_TEXT = (
    "Proof: Lean theorems (Props/C03.lean) about the executable model of _get_scoped_terms / "
    "_get_scoped_terms_spanned_by_evaled_factors / _simplify_scoped_terms show for ALL term lists, orders and clusterings "
    "that the greedy recombination terminates and preserves the multiset of structural components, that no structural "
    "component is emitted twice (structural full rank) and that the emitted components are exactly the de-duplicated "
    "components of the unreduced matrix (unchanged span). The model is tied to the code by a differential correspondence "
    "on model_spec.structure on every run. The bridge to linear algebra is proved as well (Mathlib): one factor's full "
    "coding spans 1 + reduced coding; a scoped term with full-coded factors spans the sum of its components on a fully "
    "crossed design; hence the emitted structure's columns are linearly independent and span what the unreduced "
    "structure spans (reduced_matrix_full_rank_same_span). Only the identification of those structure columns with the "
    "concrete matrix columns is left to C02's column_is_product plus the numeric rank oracle (matrix_rank) on every case."
)
LEVEL_NOTE = (
    "Trusted: Lean kernel + propext/Classical.choice/Quot.sound; the hand model of base.py validated by correspondence; "
    "the tensor-rank bridge is covered by the numeric oracle only; contrast matrices are C11's claim."
)
