"""C03 — Rank reduction yields a structurally full-rank matrix with unchanged span.

Correspondence streams (engine `c03`):

* `crossed`   the model computes EVERYTHING from the design alone (`Model/Crossed.lean`): the rows of the fully
              crossed frame, the evaluated factors (bare categorical / numeric columns, `C(col, contr.*)`, numeric
              literals, a name bound to None) and BOTH encodings of every factor through the model of
              `transforms/contrasts.py` (dummies, coding matrix, column names, spans_intercept, drop_field, formats),
              then `Model.buildMatrix`. Compared: the parsed term list, `model_spec.structure` and the WHOLE matrix
              (every row, exact rationals; contr.diff / contr.poly within 1e-9, poly columns up to the sqrt
              normalisation the model reports). A malformed sub-stream (`badcontrast`) has a treatment base that is
              not a level / poly scores of the wrong length: both sides must raise.
* `structure` the same model as C02 (`Model/Materialize.lean`), encodings forwarded as data, first rows only.
* `spanned`   `_get_scoped_terms_spanned_by_evaled_factors` called directly (constants anywhere, categoricals that
              do not span the intercept, a factor listed twice).
* `simplify`  `_simplify_scoped_terms` called directly on lists in which a term may hold the same factor both
              reduced and full (`A-` and `A`: `ScopedFactor.__lt__` on equal factors) and a term may occur twice.
* `algebra`   `==`, `<`, `hash`, `sorted`, `dict.fromkeys`, `in OrderedSet` of ScopedFactor / ScopedTerm objects,
              foreign operands included (the `return NotImplemented` branches).

Generator of `crossed` / `structure`: random term sets over <= 4 categorical factors (1-4 levels, every built-in
contrast, one factor expression per variable) and <= 2 numeric factors, any subset lattice of interactions, random
order (`_ordering="none"`), intercept on/off (at a random position), non-zero numeric literal scalings, a name bound to
None inside terms or as a term of its own (`crossed` only), `cluster_by` both, on FULLY CROSSED data.
Thorough adds the exhaustive enumeration of all term sets over 3 factors in every order (<= 5 terms; larger sets in
canonical and reversed order).

Oracle (implementation only, numeric): on the fully crossed design (numeric variables crossed over two distinct primes
each) rank(M_reduced) = ncols, rank([M_reduced | M_full]) = rank(M_full) = rank(M_reduced), with
numpy.linalg.matrix_rank; for the direct streams: `a == b` implies `hash(a) == hash(b)`, and `==` is symmetric.
"""
from __future__ import annotations

import itertools
from fractions import Fraction

import numpy
import pandas

from harness.props import c02 as base

PROPERTY = "C03"
ENGINE = "c03"
REQUIRED_THEOREMS = [
    "merge_preserves_comps",
    "simplify_preserves_comps",
    "simplify_fuel_sufficient",
    "structurally_full_rank",
    "span_unchanged",
    "components_independent",
    "full_coding_span_eq_one_sup_reduced",
    "scoped_term_span_eq_sum_of_components",
    "reduced_matrix_full_rank_same_span",
    "matrix_columns_are_structure_columns",
    "matrix_full_rank_same_span",
    "any_invertible_coding_satisfies_hyp",
    "builtin_contrast_independent",
    "numeric_axis_independent",
    "components_order_invariant",
    "structure_span_order_invariant",
    "matrix_span_order_invariant",
    "valueless_factors_are_ignored",
    "scoped_identity_is_structural",
    "model_frame_fully_crossed",
    "crossed_model_full_rank_same_span",
    "certified_design_full_rank_same_span",
    "contrast_formats_are_live",
]
TRUSTED = base.TRUSTED + [
    "stream `crossed`: NOTHING about the factors is forwarded from the implementation - the model (Model/Crossed.lean) computes "
    "the frame, the evaluated factors and both encodings of every factor from the design description (level lists, contrast "
    "names, numeric values), through the model of transforms/contrasts.py that C11 proves things about, and the whole matrix "
    "is compared; what is still a parameter there: the parser (the written term list is compared with the parsed one), "
    "pandas' category inference (sorted distinct values; Model.Contrasts.inferLevels), str(label), the sqrt normalisation "
    "of contr.poly columns (the model reports the norms, the comparison divides) and float rounding of contr.diff entries (1e-9)",
    "the property is a theorem about the matrix the model EMITS, down to its List-Rat columns: in general form "
    "(matrix_columns_are_structure_columns, matrix_full_rank_same_span: any factor cache that holds a fully crossed design "
    "- `CrossedDesign`: every encoded column is a function of the level of its own variable, every combination of levels "
    "occurs in some row - with per-factor codings satisfying `Hyp`, no printed-name collisions) and for the crossed-design "
    "model (crossed_model_full_rank_same_span: EVERY well-formed design description, every built-in contrast - the cache the "
    "model computes is proved to be a CrossedDesign satisfying Hyp, model_cache_is_crossed in Proofs/C03CrossedMain.lean, "
    "through C11's invertibility of [1 | coding]). All hypotheses are decidable; `Spec.C03Check.certified` evaluates them "
    "and the engine reports the verdict for EVERY `crossed` case (certified_design_full_rank_same_span): the correspondence "
    "fails if a case in which no two columns can print to the same name is not "
    "certified. The numeric rank oracle (numpy.linalg.matrix_rank) checks the same conclusion on the real matrices",
    "stream `algebra`: comparisons AMONG foreign objects are not formulaic's and are kept out of the generator; `hash` "
    "itself is a parameter (the model states what it is a function of)",
]
ASSUMPTIONS = [
    "each data variable is encoded by a single factor expression (as the property states); literal scales are non-zero",
    "matrix theorems: printed column names do not collide (noCollision); when they do, Python's dictionaries drop columns "
    "- known finding C03-F1 (narwhals name-keyed assembly) is reported on every run, never silently accepted",
    "numeric oracle: floating-point rank decisions of numpy.linalg.matrix_rank on well-scaled designs (entries |v| <= 21 "
    "before interaction) are taken as exact",
]
RULE = (
    "fixed table (every seed, ~110 cases): numeric columns NAMED like the printed form of another factor's internal state "
    "(`A-`, `A:B`, `A-:B-`, `A[T.b]`, `A[a]`, `A B`, `A_B`, `Intercept`, `C(B)-`, `A[S.a]`) next to that factor, both orders, "
    "x 5 materializer/output pairs. Random (2/3 `crossed`, 1/3 `structure`): 1-7 terms, each a subset of <= 4 categorical + "
    "<= 2 numeric variables, degree <= 4, random order, intercept on/off at a random position, cluster_by both, outputs "
    "pandas/numpy/sparse, materializer pandas/narwhals; levels 1-4 per categorical (labels: strings, integers from 0 or 1, "
    "booleans, strings with '' first, 4%: strings beginning with `__`; pandas.Categorical or plain object column) with a "
    "random built-in contrast (treatment default, C(), treatment, SAS, sum, helmert, diff, poly); ~10% of the cases name their "
    "numeric columns from the collision pool; `crossed` adds non-zero literal scalings (20% of terms) and a name bound to "
    "None inside terms / as a term (20% of cases); fully crossed data. badcontrast: >= 6 cases with a treatment/SAS base that "
    "is no level or poly scores of the wrong length. quick: + 300 of the exhaustive term sets over 3 factors x all orders of "
    "<= 5 terms (thorough: 9000). direct: n/6 spanned (constants, non-spanning categoricals, repeated factor), n/4 simplify "
    "(a factor both reduced and full in one term, repeated terms, names `A-`, `A:B`), n/4 algebra (==, <, hash, sorted, "
    "dict.fromkeys, membership; one foreign operand at most). non-trivial = crossed/structure case with a term of >= 2 data factors"
)

CONTR = [None, None, "C", "treatment", "SAS", "sum", "helmert", "diff", "poly"]
POOL = ["a", "b", "c", "d"]
LITS = ["2", "3", "0.5", "4", "2.5"]
NULL = "z"  # a name bound to None in the evaluation context
INEXACT_CONTR = ("diff", "poly")


def quote(name):
    """a data column name as written in a formula (back-quoted unless it is a plain identifier); the factor's
    expression is the bare name"""
    return name if name.isidentifier() else f"`{name}`"


PREFIX = {None: "T.", "C": "T.", "treatment": "T.", "SAS": "T.", "sum": "S.", "helmert": "H.", "diff": "D.", "poly": ""}


def collision_names(cats):
    """numeric column NAMES whose text equals the printed form of another factor in one of its internal states: a
    reduced scoped factor prints as `A-`, an interaction as `A:B`, encoded columns as `A[T.b]` / `A[b]`, ..."""
    out = []
    names = [c[0] for c in cats]
    for c in cats:
        v, lv = c[0], [str(x) for x in cat_levels(c)]
        out += [f"{v}-", f"{v}[{lv[0]}]", f"{v}[{PREFIX.get(c[2], 'T.')}{lv[-1]}]", f"{v}[T.{lv[0]}]", f"C({v})-", f"{atom(v, c[2])}-"]
        if c[2] == "poly":
            out.append(f"{atom(v, c[2])}[.L]")
        for w in names + ["x"]:
            if w != v:
                out += [f"{v}:{w}", f"{v} {w}", f"{v}_{w}", f"{v}-:{w}-", f"{v}-:{w}"]
    out += ["Intercept"]
    return sorted(set(out) - set(names))


def atom(v, contr):
    if contr is None:
        return v
    if contr == "C":
        return f"C({v})"
    return f"C({v}, contr.{contr})"


# level-label pools: the labels are data, the reference level of a factor is its FIRST level whatever it is called
# (falsy labels - 0, False, "" - included)
POOLS = {
    "str": ["a", "b", "c", "d"],
    "int0": [0, 1, 2, 3],
    "int1": [1, 2, 3, 4],
    "bool": [False, True],
    "empty": ["", "x", "y", "z"],
    # string labels that begin with two underscores: ordinary level labels (before the repair "a category level whose name
    # starts with `__` keeps its indicator column" `_flatten_encoded_evaled_factor` took them for hidden metadata keys and
    # dropped the level's column - former finding C03-F2)
    "dunder": ["__a", "__b", "c", "d"],
    "dunder2": ["c", "__a", "d", "__b"],  # not in sorted order: always a declared Categorical
}
NUMVALS = [(2, 3), (5, 7)]


def cat_levels(cat):
    """cat = [name, k, contrast] or [name, k, contrast, pool, declared]"""
    pool = POOLS[cat[3]] if len(cat) > 3 else POOL
    return pool[: cat[1]]


def crossed_frame(cats, nums):
    axes = [cat_levels(c) for c in cats] + [list(p) for p in NUMVALS[: len(nums)]]
    rows = list(itertools.product(*axes))
    cols = {}
    for i, c in enumerate(cats):
        vals = [r[i] for r in rows]
        if len(c) > 4 and not c[4]:
            cols[c[0]] = pandas.Series(vals, dtype=object)  # plain object column: levels = sorted unique values
        else:
            cols[c[0]] = pandas.Categorical(vals, categories=cat_levels(c))
    for j, v in enumerate(nums):
        cols[v] = numpy.array([float(r[len(cats) + j]) for r in rows])
    return pandas.DataFrame(cols), len(rows)


def gen_cat(rng, v):
    pool = rng.choice(["str", "str", "int0", "int0", "bool", "empty", "int1"])
    if rng.random() < 0.04:
        pool = rng.choice(["dunder", "dunder2"])
    k = min(rng.choice([1, 2, 2, 3, 3, 4]), len(POOLS[pool]))
    return [v, k, rng.choice(CONTR), pool, rng.random() < 0.7 or pool == "dunder2"]


def gen_case(rng, small=False, kind="structure", collide=False):
    ncat = rng.randint(1, 3 if small else 4)
    nnum = rng.randint(0, 2)
    cats = [gen_cat(rng, v) for v in ["A", "B", "G", "H"][:ncat]]
    while numpy.prod([c[1] for c in cats]) > 48:
        c = cats[rng.randrange(ncat)]
        c[1] = min(c[1], 2)
    nums = ["x", "y"][:nnum]
    if collide or rng.random() < 0.1:
        # ~10%: numeric columns NAMED like the printed form of another factor's internal state
        pool = collision_names(cats)
        nums = rng.sample(pool, min(len(pool), max(1, nnum)))
    variables = [c[0] for c in cats] + nums
    nterms = rng.randint(1, 7)
    terms, seen = [], set()
    for _ in range(nterms):
        k = min(len(variables), rng.choice([1, 1, 2, 2, 2, 3, 3, 4]))
        t = rng.sample(variables, k)
        if frozenset(t) in seen:
            continue
        seen.add(frozenset(t))
        terms.append(t)
    if rng.random() < 0.3 and terms:  # close under some margins
        t = rng.choice(terms)
        for r in range(1, len(t)):
            for sub in itertools.combinations(t, r):
                if frozenset(sub) not in seen and rng.random() < 0.7:
                    seen.add(frozenset(sub))
                    terms.append(list(sub))
        rng.shuffle(terms)
    if kind == "crossed":
        # non-zero numeric literal scalings (at most two per term, anywhere among the factors)
        for t in terms:
            if rng.random() < 0.2:
                for lit in rng.sample(LITS, rng.choice([1, 1, 2])):
                    t.insert(rng.randrange(len(t) + 1), lit)
        # a name bound to None: a factor without values (skipped by _get_scoped_terms), inside terms / on its own
        if rng.random() < 0.2:
            for t in terms:
                if rng.random() < 0.4 and frozenset(t) | {NULL} not in seen:
                    seen.add(frozenset(t) | {NULL})
                    t.insert(rng.randrange(len(t) + 1), NULL)
            if rng.random() < 0.5:
                terms.insert(rng.randrange(len(terms) + 1), [NULL])
    icpt = rng.random() < 0.6
    if icpt:
        terms.insert(rng.randrange(len(terms) + 1) if rng.random() < 0.4 else 0, [])
    return dict(
        kind=kind,
        cats=cats,
        nums=nums,
        terms=terms,
        cluster=rng.random() < 0.4,
        output=rng.choice(["pandas", "numpy", "sparse"]),
        mat=rng.choice(["pandas", "pandas", "pandas", "narwhals"]),
    )


def gen_badcontrast(rng):
    """malformed: the contrast of one C(...) factor cannot be built for the levels of its column"""
    c = gen_case(rng, small=True, kind="crossed")
    c["kind"] = "badcontrast"
    cat = c["cats"][0]
    cat[1] = max(cat[1], 2)
    cat[2] = rng.choice(["treatment(base='nosuch')", "SAS(base='nosuch')", "poly(scores=[1, 2, 3, 4, 5, 6])"])
    if rng.random() < 0.8:  # intercept first, then the main effect: the reduced encoding is needed
        c["terms"] = [[], [cat[0]]] + [t for t in c["terms"] if t and {a for a in t if a not in LITS} != {cat[0]}]
    elif not any(cat[0] in t for t in c["terms"]):
        c["terms"].append([cat[0]])
    return c


def exhaustive(rng, budget):
    configs = [
        ([["A", 2, None, "int0", True], ["B", 3, "sum", "empty", True]], ["x"]),
        ([["A", 3, "helmert"], ["B", 2, None, "bool", False], ["G", 2, "treatment", "int0", True]], []),
    ]
    out = []
    for cats, nums in configs:
        variables = [c[0] for c in cats] + nums
        allterms = [list(s) for r in range(0, 4) for s in itertools.combinations(variables, r)]
        for k in range(1, len(allterms) + 1):
            for subset in itertools.combinations(allterms, k):
                if k <= 5:
                    orders = itertools.permutations(subset)
                else:
                    orders = [subset, tuple(reversed(subset))]
                for o in orders:
                    out.append(dict(kind="crossed", cats=cats, nums=nums, terms=[list(t) for t in o], cluster=False,
                                    output="numpy", mat="pandas"))
    rng.shuffle(out)
    return out[:budget]


def fixed_table():
    """column names that collide with the printed form of another factor's internal state, in both orders (run on
    every seed and tier): `A-` next to A, `A:B` next to A:B, `A[T.b]` / `A[b]` next to A, `A B`, `A_B`, `Intercept`"""
    cats = [["A", 3, None, "str", True], ["B", 2, None, "str", True]]
    catsC = [["A", 3, "sum", "str", True], ["B", 2, "C", "str", False]]
    table = [
        (["A-"], [["A-"], ["A"]]),
        (["A-"], [["A"], ["A-"]]),
        (["A-"], [[], ["A-"], ["A"]]),
        (["A-"], [[], ["A"], ["A-"]]),
        (["A-"], [[], ["B"], ["A-"], ["A"], ["A", "B"]]),
        (["A-"], [[], ["A", "A-"], ["A"]]),
        (["A-", "B-"], [["A-", "B-"], ["A", "B"], ["A-"], ["B"]]),
        (["A:B"], [[], ["A"], ["B"], ["A:B"], ["A", "B"]]),
        (["A:B"], [[], ["A:B"], ["A", "B"], ["A"], ["B"]]),
        (["A-:B-"], [["A-:B-"], ["A", "B"]]),
        (["A-:B"], [[], ["A", "B"], ["A-:B"], ["B"]]),
        (["A[T.b]"], [[], ["A[T.b]"], ["A"]]),
        (["A[T.b]"], [[], ["A"], ["A[T.b]"]]),
        (["A[a]"], [["A[a]"], ["A"]]),
        (["A[a]"], [["A"], ["A[a]"]]),
        (["A B"], [[], ["A"], ["A B"], ["A", "B"]]),
        (["A_B"], [[], ["A_B"], ["A", "B"], ["A"]]),
        (["Intercept"], [[], ["Intercept"], ["A"]]),
        (["Intercept"], [["Intercept"], ["A"], []]),
    ]
    tableC = [
        (["C(A, contr.sum)-"], [[], ["C(A, contr.sum)-"], ["A"], ["B"]]),
        (["C(B)-"], [[], ["B"], ["C(B)-"], ["A", "B"]]),
        (["A[S.a]"], [[], ["A"], ["A[S.a]"]]),
    ]
    out = []
    combos = [("pandas", "pandas"), ("pandas", "numpy"), ("narwhals", "numpy"), ("narwhals", "sparse"), ("narwhals", "pandas")]
    for cs, tab in ((cats, table), (catsC, tableC)):
        for i, (nums, terms) in enumerate(tab):
            for j, (mat, output) in enumerate(combos):
                out.append(dict(kind="crossed" if (i + j) % 4 else "structure", cats=cs, nums=nums,
                                terms=[list(t) for t in terms], cluster=False, output=output, mat=mat))
    return out


# ----------------------------------------------------------------------------- direct streams

# factor expressions of the direct streams: `A-` (a column NAMED like the printed form of the reduced factor A) and
# `A:B` are factors of their own; identity of scoped factors is (factor, reduced flag), never the printed form
NAMES = ["A", "B", "A-", "C", "A:B", "D"]


def gen_spanned(rng):
    """evaluated factors for a direct call of _get_scoped_terms_spanned_by_evaled_factors"""
    n = rng.randint(0, 5)
    fs = []
    for _ in range(n):
        r = rng.random()
        if r < 0.2:
            fs.append(dict(expr=rng.choice(["2", "3", "0.5", "0"]), kind="constant"))
        elif r < 0.4:
            fs.append(dict(expr=rng.choice(["x", "y"]), kind="numerical", spans=False))
        else:
            # categorical; `spans_intercept=False` is what C(..., spans_intercept=False) produces
            fs.append(dict(expr=rng.choice(NAMES), kind="categorical", spans=rng.random() < 0.8))
    # the same expression always carries the same metadata (it is ONE cache entry)
    first = {}
    fs = [first.setdefault(f["expr"], f) for f in fs]
    return dict(kind="spanned", factors=fs)


def gen_st(rng, names, dup=True):
    k = rng.randint(0, len(names))
    fs = [[e, rng.random() < 0.6] for e in rng.sample(names, k)]
    if dup and fs and rng.random() < 0.25:
        e, r = rng.choice(fs)
        fs.insert(rng.randrange(len(fs) + 1), [e, (not r) if rng.random() < 0.7 else r])
    return {"factors": fs, "scale": rng.choice(["1", "1", "2", "0"])}


def gen_simplify(rng):
    names = rng.sample(NAMES, rng.randint(1, 4))
    sts = [gen_st(rng, names) for _ in range(rng.randint(0, 7))]
    if sts and rng.random() < 0.2:
        sts.insert(rng.randrange(len(sts) + 1), dict(rng.choice(sts)))
    return dict(kind="simplify", sts=sts)


def gen_obj(rng, names):
    r = rng.random()
    if r < 0.45:
        return {"t": "sf", "expr": rng.choice(names), "reduced": rng.random() < 0.5}
    if r < 0.85:
        return dict(gen_st(rng, names), t="st")
    return {"t": "other", "v": rng.choice([1, "A", None, 2.5])}


def gen_algebra(rng):
    names = rng.sample(NAMES, rng.randint(1, 3))
    a = gen_obj(rng, names)
    b = gen_obj(rng, names)
    if rng.random() < 0.3 and a["t"] == "st":  # a permutation of the same factors: equal terms
        fs = list(a["factors"])
        rng.shuffle(fs)
        b = {"t": "st", "factors": fs, "scale": rng.choice(["1", "3"])}
    if a["t"] == "other" and b["t"] == "other":  # comparisons among foreign objects are not formulaic's
        b = {"t": "sf", "expr": rng.choice(names), "reduced": rng.random() < 0.5}
    xs = [gen_obj(rng, names) for _ in range(rng.randint(0, 4))]
    others = [x for x in xs if x["t"] == "other"]
    xs = [x for x in xs if x["t"] != "other"] + others[:1]
    rng.shuffle(xs)
    if rng.random() < 0.6:
        xs = [x for x in xs if x["t"] == "sf"] + [{"t": "sf", "expr": rng.choice(names), "reduced": rng.random() < 0.5}]
        rng.shuffle(xs)
    fs = [[rng.choice(names), rng.random() < 0.5] for _ in range(rng.randint(0, 5))]
    st_set = [gen_st(rng, names) for _ in range(rng.randint(0, 4))]
    x = gen_st(rng, names)
    if st_set and rng.random() < 0.4:
        y = rng.choice(st_set)
        fs2 = list(y["factors"])
        rng.shuffle(fs2)
        x = {"factors": fs2, "scale": "5"}
    return dict(kind="algebra", a=a, b=b, xs=xs, fs=fs, set=st_set, x=x)


def cases(rng, tier):
    n = {"quick": 600, "thorough": 3000, "search": 150}[tier]
    yield from fixed_table()
    for i in range(n):
        yield gen_case(rng, small=(tier != "thorough"), kind="structure" if i % 3 == 0 else "crossed")
    for i in range(max(6, n // 40)):
        yield gen_badcontrast(rng)
    if tier == "thorough":
        yield from exhaustive(rng, 9000)
    elif tier == "quick":
        yield from exhaustive(rng, 300)
    for i in range(n // 6):
        yield gen_spanned(rng)
    for i in range(n // 4):
        yield gen_simplify(rng)
    for i in range(n // 4):
        yield gen_algebra(rng)


def atom_of(c, a, written=False):
    """the factor expression of an atom (`written`: as it is spelled in the formula)"""
    contr = {x[0]: x[2] for x in c["cats"]}
    if a in contr:
        return atom(a, contr[a])
    return quote(a) if (written and a in c["nums"]) else a


def formula_of(c):
    parts = []
    for t in c["terms"]:
        parts.append("1" if not t else ":".join(atom_of(c, v, written=True) for v in t))
    return "0 + " + " + ".join(parts) if parts else "0"


def describe(c):
    k = c["kind"]
    if k not in ("structure", "crossed", "badcontrast"):
        return k
    pools = "+".join(sorted({x[3] if len(x) > 3 else "str" for x in c["cats"]}))
    extra = ("+null" if any(NULL in t for t in c["terms"]) else "") + ("+lit" if any(a in LITS for t in c["terms"] for a in t) else "")
    return f"{k}{extra}:cats={len(c['cats'])},nums={len(c['nums'])},terms={len(c['terms'])},labels={pools}"


def nontrivial(c):
    return c["kind"] in ("structure", "crossed") and any(len([a for a in t if a not in LITS and a != NULL]) >= 2 for t in c["terms"])


def _mat(c, df, efr):
    from formulaic import Formula
    from formulaic.materializers import NarwhalsMaterializer, PandasMaterializer

    cls = PandasMaterializer if c["mat"] == "pandas" else NarwhalsMaterializer
    m = cls(df, context={NULL: None})
    f = Formula(formula_of(c), _ordering="none")
    mm = m.get_model_matrix(f, ensure_full_rank=efr, output=c["output"],
                            cluster_by="numerical_factors" if c["cluster"] else "none")
    return m, mm


def _array(mm):
    a = mm.toarray() if hasattr(mm, "toarray") else numpy.asarray(mm)
    return numpy.asarray(a).astype(float)


KEEP = 2  # rows forwarded to the model in the `structure` stream (the structure does not depend on the rows)


def _ranks(o, mm, mm2):
    R, F = _array(mm), _array(mm2)
    o["ncols"] = [int(R.shape[1]), int(F.shape[1])]
    rk = numpy.linalg.matrix_rank
    o["rank_reduced"] = int(rk(R)) if R.size else 0
    o["rank_full"] = int(rk(F)) if F.size else 0
    o["rank_joint"] = int(rk(numpy.hstack([R, F]))) if (R.size or F.size) else 0


def impl_structure(c):
    df, nrows = crossed_frame(c["cats"], c["nums"])
    try:
        m, mm = _mat(c, df, True)
        m2, mm2 = _mat(c, df, False)
    except Exception as e:
        return {"error": type(e).__name__, "msg": str(e)[:200]}
    o = base.observe(m, mm, c["output"], nrows, collapse=base.as_dict(c))
    o["nrows"] = nrows
    _ranks(o, mm, mm2)
    _label_collapse(c, o, mm, mm2, df)
    # keep the observables small: first rows only
    for e in o["columns"]:
        e["values"] = e["values"][:KEEP]
    for f in o["factors"]:
        for key in ("full", "reduced"):
            f[key] = dict(f[key], cols=[[fld, col[:KEEP]] for fld, col in f[key]["cols"]])
    o.pop("flat", None)
    return o


def observe_crossed(mm, output, nrows, collapse):
    """terms, structure, names and ALL values of one materialisation (no factor encodings: the model computes them)"""
    spec = mm.model_spec
    out = {}
    out["terms"] = [[f.expr for f in t.factors] for t in spec.formula]
    out["structure"] = [
        {
            "term": [f.expr for f in s.term.factors],
            "scoped": [
                {"factors": [[sf.factor.expr, bool(sf.reduced)] for sf in st.factors], "scale": base.fstr(st.scale)}
                for st in s.scoped_terms
            ],
            "columns": [str(x) for x in s.columns],
        }
        for s in spec.structure
    ]
    if output == "pandas":
        names = [str(x) for x in mm.columns]
        arr = numpy.asarray(mm).astype(float).reshape((len(mm), len(names)))
    else:
        names = [str(x) for x in spec.column_names]
        if collapse:
            names = list(dict.fromkeys(names))
        arr = _array(mm)
    if arr.ndim != 2 or arr.shape[1] != len(names) or arr.shape[0] != nrows:
        out["shape_mismatch"] = f"{arr.shape} vs {len(names)} names, {nrows} rows"
        out["columns"] = []
    else:
        out["columns"] = [{"name": n, "values": [base.fstr(x) for x in arr[:, j]]} for j, n in enumerate(names)]
    return out


def _label_collapse(c, o, mm, mm2, df):
    """name-keyed assembly (finding C03-F1): which labels repeat, and the ranks of the same matrices assembled by
    position (sparse output of the same materializer)"""
    if not base.as_dict(c):
        return
    names = [str(x) for x in mm.model_spec.column_names]
    names2 = [str(x) for x in mm2.model_spec.column_names]
    o["repeated_labels"] = sorted({x for x in names if names.count(x) > 1} | {x for x in names2 if names2.count(x) > 1})
    if o["repeated_labels"]:
        cc = dict(c, output="sparse")
        alt = {}
        _ranks(alt, _mat(cc, df, True)[1], _mat(cc, df, False)[1])
        o["stacked"] = alt


def impl_crossed(c):
    df, nrows = crossed_frame(c["cats"], c["nums"])
    try:
        m, mm = _mat(c, df, True)
        m2, mm2 = _mat(c, df, False)
    except Exception as e:
        return {"error": type(e).__name__, "msg": str(e)[:200]}
    o = observe_crossed(mm, c["output"], nrows, base.as_dict(c))
    o["nrows"] = nrows
    _ranks(o, mm, mm2)
    _label_collapse(c, o, mm, mm2, df)
    return o


def _evaled(f):
    from formulaic.materializers.types import EvaluatedFactor, FactorValues
    from formulaic.parser.types import Factor

    if f["kind"] == "constant":
        return EvaluatedFactor(Factor(f["expr"], eval_method="literal"), FactorValues(float(Fraction(f["expr"])), kind="constant"))
    return EvaluatedFactor(Factor(f["expr"]), FactorValues([1], kind=f["kind"], spans_intercept=f["spans"]))


def _st_json(st):
    return {"factors": [[sf.factor.expr, bool(sf.reduced)] for sf in st.factors], "scale": base.fstr(st.scale)}


def impl_spanned(c):
    from formulaic.materializers import FormulaMaterializer

    cache = {}
    efs = [cache.setdefault(f["expr"], _evaled(f)) for f in c["factors"]]
    try:
        out = FormulaMaterializer._get_scoped_terms_spanned_by_evaled_factors(efs)
    except Exception as e:
        return {"error": type(e).__name__}
    out = list(out)
    return {"sts": [_st_json(st) for st in out], "hash_ok": _hash_consistent(out)}


def _hash_consistent(objs):
    """`a == b` implies `hash(a) == hash(b)`, and `==` is symmetric, over all pairs"""
    for a in objs:
        for b in objs:
            try:
                if (a == b) != (b == a):
                    return f"== is not symmetric on {a!r}, {b!r}"
                if a == b and hash(a) != hash(b):
                    return f"{a!r} == {b!r} but their hashes differ"
            except TypeError:
                pass
    return None


class _Build:
    def __init__(self):
        self.efs = {}

    def ef(self, e):
        from formulaic.materializers.types import EvaluatedFactor, FactorValues
        from formulaic.parser.types import Factor

        if e not in self.efs:
            self.efs[e] = EvaluatedFactor(Factor(e), FactorValues([1], kind="categorical", spans_intercept=True))
        return self.efs[e]

    def sf(self, e, r):
        from formulaic.materializers.types import ScopedFactor

        return ScopedFactor(self.ef(e), reduced=r)

    def st(self, j):
        from formulaic.materializers.types import ScopedTerm

        return ScopedTerm([self.sf(e, r) for e, r in j["factors"]], scale=base.ffloat(j["scale"]))

    def obj(self, j):
        if j["t"] == "sf":
            return self.sf(j["expr"], j["reduced"])
        if j["t"] == "st":
            return self.st(j)
        return j["v"]


def impl_simplify(c):
    from formulaic.materializers import FormulaMaterializer

    b = _Build()
    sts = [b.st(j) for j in c["sts"]]
    try:
        out = list(FormulaMaterializer._simplify_scoped_terms(sts))
    except Exception as e:
        return {"error": type(e).__name__}
    return {"sts": [_st_json(st) for st in out], "hash_ok": _hash_consistent(sts + out)}


def _obj_json(x):
    from formulaic.materializers.types import ScopedFactor, ScopedTerm

    if isinstance(x, ScopedFactor):
        return {"t": "sf", "expr": x.factor.expr, "reduced": bool(x.reduced)}
    if isinstance(x, ScopedTerm):
        return {"t": "st", "st": _st_json(x)}
    return {"t": "other"}


def impl_algebra(c):
    from formulaic.parser.types.ordered_set import OrderedSet

    bd = _Build()
    a, b = bd.obj(c["a"]), bd.obj(c["b"])
    o = {}
    o["eq"] = bool(a == b)
    o["eq_sym"] = bool(b == a)
    try:
        o["lt"] = bool(a < b)
    except TypeError:
        o["lt"] = {"error": "TypeError"}
    try:
        o["gt"] = bool(b < a)
    except TypeError:
        o["gt"] = {"error": "TypeError"}
    try:
        o["samehash"] = hash(a) == hash(b)
    except TypeError:
        o["samehash"] = None
    xs = [bd.obj(x) for x in c["xs"]]
    try:
        o["sorted"] = [_obj_json(x) for x in sorted(xs)]
    except TypeError:
        o["sorted"] = {"error": "TypeError"}
    o["dedup"] = [[sf.factor.expr, bool(sf.reduced)] for sf in dict.fromkeys(bd.sf(e, r) for e, r in c["fs"])]
    sts = [bd.st(j) for j in c["set"]]
    x = bd.st(c["x"])
    o["member"] = x in OrderedSet(sts)
    o["member_set"] = x in set(sts)
    o["hash_ok"] = _hash_consistent([a, b] + xs + sts + [x])
    return o


def impl(c):
    k = c["kind"]
    if k == "structure":
        return impl_structure(c)
    if k in ("crossed", "badcontrast"):
        return impl_crossed(c)
    if k == "spanned":
        return impl_spanned(c)
    if k == "simplify":
        return impl_simplify(c)
    if k == "algebra":
        return impl_algebra(c)
    raise ValueError(k)


# ----------------------------------------------------------------------------- requests


def label_json(v):
    if isinstance(v, bool):
        return {"s": str(v)}  # str(True) is what every printed name shows; booleans sort False < True as their names do
    if isinstance(v, int):
        return {"i": v}
    return {"s": str(v)}


def contrast_json(contr):
    if contr in ("C", "treatment"):
        return {"k": "treatment", "base": None}
    if contr == "SAS":
        return {"k": "SAS", "base": None}
    if contr == "sum":
        return {"k": "sum"}
    if contr == "helmert":
        return {"k": "helmert", "reverse": True, "scale": False}
    if contr == "diff":
        return {"k": "diff", "backward": True}
    if contr == "poly":
        return {"k": "poly", "scores": None}
    if contr.startswith("treatment(base="):
        return {"k": "treatment", "base": {"s": "nosuch"}}
    if contr.startswith("SAS(base="):
        return {"k": "SAS", "base": {"s": "nosuch"}}
    if contr.startswith("poly(scores="):
        return {"k": "poly", "scores": ["1", "2", "3", "4", "5", "6"]}
    raise ValueError(contr)


def expected_terms(c):
    return [["1"] if not t else [atom_of(c, a) for a in t] for t in c["terms"]]


def design_request(c):
    columns = []
    factors = []
    for i, cat in enumerate(c["cats"]):
        columns.append({"cat": True, "levels": [label_json(v) for v in cat_levels(cat)],
                        "declared": not (len(cat) > 4 and not cat[4])})
        e = atom(cat[0], cat[2])
        if cat[2] is None:
            factors.append({"t": "column", "expr": e, "col": i})
        else:
            factors.append({"t": "wrapped", "expr": e, "col": i, "contrast": contrast_json(cat[2])})
    for j, v in enumerate(c["nums"]):
        columns.append({"cat": False, "values": [str(x) for x in NUMVALS[j]]})
        factors.append({"t": "column", "expr": v, "col": len(c["cats"]) + j})
    used = {a for t in c["terms"] for a in t}
    for lit in LITS:
        if lit in used:
            factors.append({"t": "literal", "expr": lit, "value": base.fstr(Fraction(lit))})
    if any(not t for t in c["terms"]):
        factors.append({"t": "literal", "expr": "1", "value": "1"})
    if NULL in used:
        factors.append({"t": "null", "expr": NULL})
    return dict(op="crossed", columns=columns, factors=factors, terms=expected_terms(c), efr=True,
                cluster=c["cluster"], asdict=base.as_dict(c), sparse=c["output"] == "sparse")


def request(c, o):
    k = c["kind"]
    if "harness_exception" in o:
        return dict(op="noop")
    if k == "structure":
        if "error" in o:
            return dict(op="noop")
        cc = dict(c, data={"nrows": min(KEEP, o["nrows"])}, efr=True)
        return base.matrix_request(cc, o)
    if k in ("crossed", "badcontrast"):
        return design_request(c)
    if k == "spanned":
        def fj(f):
            enc = {"dict": False, "cols": [[base.field_json(""), []]], "spans": False, "drop": None, "rmeta": False,
                   "fmt": [], "fmtr": None}
            d = {"expr": f["expr"], "present": True, "kind": f["kind"], "spans": bool(f.get("spans", False)),
                 "full": enc, "reduced": enc}
            if f["kind"] == "constant":
                d["value"] = base.fstr(Fraction(f["expr"]))
            return d
        return dict(op="spanned", factors=[fj(f) for f in c["factors"]])
    if k == "simplify":
        return dict(op="simplify", sts=c["sts"])
    if k == "algebra":
        return dict(op="algebra", a=c["a"], b=c["b"], xs=c["xs"], fs=c["fs"], set=c["set"], x=c["x"])
    raise ValueError(k)


# ----------------------------------------------------------------------------- agree


def _inexact(c):
    return any(str(cat[2]).startswith(INEXACT_CONTR) for cat in c["cats"])


def _may_collide(c, o):
    """can two columns of this case print to the same name? (numeric columns named from the collision pool, a
    repeated label among the recorded names, or level labels that print alike)"""
    if any(v not in ("x", "y") for v in c["nums"]) or o.get("repeated_labels"):
        return True
    names = [str(x) for s in o.get("structure", []) for x in s["columns"]]
    return len(set(names)) != len(names)


def agree_crossed(c, o, m):
    if "error" in o:
        return None  # reported by the oracle
    if "error" in m:
        return f"model raised {m['error']}, implementation did not"
    # the model certifies the hypotheses of Props.C03.certified_design_full_rank_same_span for this very case, unless
    # two columns of the case may print to the same name (what the theorem excludes and known finding C03-F1 is about)
    excused = _may_collide(c, o) or c["kind"] == "badcontrast"  # (a contrast that cannot be built)
    if not m.get("certified") and not excused:
        return "the model could not certify the hypotheses of certified_design_full_rank_same_span for this case"
    if o["terms"] != expected_terms(c):
        return f"parsed terms {o['terms']} differ from the written ones {expected_terms(c)}"
    if m["nrows"] != o["nrows"]:
        return f"model frame has {m['nrows']} rows, the data {o['nrows']}"
    ms = [dict(term=s["term"], scoped=s["scoped"], columns=s["columns"]) for s in m["structure"]]
    if ms != o["structure"]:
        for a, b in zip(ms, o["structure"]):
            if a != b:
                return f"structure differs for term {b['term']}: model {a} vs impl {b}"
        return "structure differs in length"
    if "shape_mismatch" in o:
        return "matrix shape and names disagree: " + o["shape_mismatch"]
    mn = [e["name"] for e in m["columns"]]
    on = [e["name"] for e in o["columns"]]
    if mn != on:
        return f"column names differ: model {mn} vs impl {on}"
    inexact = _inexact(c)
    for a, b in zip(m["columns"], o["columns"]):
        if len(a["values"]) != len(b["values"]):
            return f"column {b['name']}: length {len(a['values'])} vs {len(b['values'])}"
        norm = Fraction(a["norm2"])
        for i, (x, y) in enumerate(zip(a["values"], b["values"])):
            if not inexact:
                if Fraction(x) != Fraction(y):
                    return f"column {b['name']} row {i}: model {x} vs impl {y}"
            else:
                xv = float(Fraction(x)) / float(norm) ** 0.5
                yv = float(Fraction(y))
                if abs(xv - yv) > 1e-9 * (1 + abs(yv)):
                    return f"column {b['name']} row {i}: model {xv} (= {x} / sqrt({norm})) vs impl {yv}"
    return None


def agree(c, o, m):
    if "driver_error" in m:
        return "driver: " + m["driver_error"][:300]
    if "harness_exception" in o:
        return None
    k = c["kind"]
    if k == "structure":
        if "error" in o:
            return None
        cc = dict(c, formula=formula_of(c))
        return base.agree_matrix(cc, o, m)
    if k == "crossed":
        return agree_crossed(c, o, m)
    if k == "badcontrast":
        if ("error" in o) == ("error" in m):  # encodings are lazy: a contrast that is never needed never raises
            return None if "error" in o else agree_crossed(c, o, m)
        return f"unbuildable contrast: impl {o.get('error', 'no error')} vs model {m.get('error', 'no error')}"
    if k in ("spanned", "simplify"):
        if "error" in o or "error" in m:
            return None if o.get("error") == m.get("error") else f"impl {o.get('error')} vs model {m.get('error')}"
        return None if o["sts"] == m["sts"] else f"scoped terms differ: model {m['sts']} vs impl {o['sts']}"
    if k == "algebra":
        same_factor = c["a"]["t"] == "sf" and c["b"]["t"] == "sf" and c["a"]["expr"] == c["b"]["expr"]
        for key in ("eq", "lt", "sorted", "dedup", "member"):
            a, b = o[key], m[key]
            if key == "dedup":
                b = [list(x) for x in b]
            if key == "lt" and same_factor:
                continue  # which of `A` and `A-` sorts first is immaterial (the oracle asks for a strict order)
            if key == "sorted" and isinstance(a, list) and isinstance(b, list):
                # compared up to the relative order of the two codings of one factor
                a = sorted(a, key=lambda x: (x.get("expr", ""), x.get("reduced", False)))
                b = sorted(b, key=lambda x: (x.get("expr", ""), x.get("reduced", False)))
            if a != b:
                return f"{key}: impl {a} vs model {b}"
        if o["eq_sym"] != m["eq"]:
            return f"b == a is {o['eq_sym']}, model {m['eq']}"
        if o["member_set"] != m["member"]:
            return f"x in set(...) is {o['member_set']}, model {m['member']}"
        if m["samehash"] and o["samehash"] is False:
            return "model: both hashes are a function of the same key; impl: hashes differ"
        return None
    return None


# ----------------------------------------------------------------------------- oracle


def oracle(c, o):
    if "harness_exception" in o:
        return "harness could not run the implementation: " + o["harness_exception"]
    k = c["kind"]
    if k == "badcontrast":
        return None
    if k in ("spanned", "simplify", "algebra"):
        if k != "algebra" and "error" in o:
            return f"{k} raised {o['error']}"
        if k == "algebra" and c["a"]["t"] == "sf" and c["b"]["t"] == "sf":
            # `sorted(factors)` is the canonical form behind ScopedTerm equality and hashing: `<` must order any two
            # different scoped factors strictly, and must not order a factor before itself
            if o["eq"] and (o["lt"] is True or o["gt"] is True):
                return f"{c['a']} == {c['b']} and yet one sorts before the other"
            if not o["eq"] and not ((o["lt"] is True) ^ (o["gt"] is True)):
                return f"`<` does not order the different scoped factors {c['a']}, {c['b']}: a<b is {o['lt']}, b<a is {o['gt']}"
        return o.get("hash_ok")
    if "error" in o:
        return f"materialisation raised {o['error']}: {o.get('msg', '')}"
    return rank_oracle(o)


def rank_oracle(o):
    ncr, ncf = o["ncols"]
    if o["rank_reduced"] != ncr:
        return f"reduced matrix has {ncr} columns {[e['name'] for e in o['columns']]} but rank {o['rank_reduced']} on the fully crossed design"
    if o["rank_joint"] != o["rank_full"] or o["rank_reduced"] != o["rank_full"]:
        return (f"column spaces differ: rank(reduced)={o['rank_reduced']}, rank(full)={o['rank_full']}, "
                f"rank([reduced|full])={o['rank_joint']}")
    return None


def classify(c, o, why):
    """C03-F1 for exactly: narwhals materializer, output assembled through a {name: column} dict, a label occurs twice
    among the recorded column names (reduced or unreduced matrix), the SAME matrices assembled by position (sparse
    output of the same materializer) satisfy the property, and the model (which mirrors the dict) agrees with the
    implementation."""
    try:
        if c.get("kind") not in ("structure", "crossed") or not isinstance(o, dict) or "error" in o:
            return None
        if not base.as_dict(c) or not o.get("repeated_labels") or "stacked" not in o:
            return None
        if not why.startswith(("reduced matrix has", "column spaces differ")):
            return None
        if rank_oracle(dict(o["stacked"], columns=[])) is not None:
            return None
        return "C03-F1"
    except Exception:
        return None


LEVEL_TEXT = (
    "Proof: Lean theorems (Props/C03.lean, 23) about the executable model of _get_scoped_terms / "
    "_get_scoped_terms_spanned_by_evaled_factors / _simplify_scoped_terms / _build_model_matrix show for ALL term lists, "
    "orders and clusterings that the greedy recombination terminates and preserves the multiset of structural components, "
    "that no component is emitted twice and that the emitted components are those of the unreduced matrix - whatever the "
    "order or clustering of the terms (components_order_invariant). The property itself is proved for the List-Rat columns "
    "of the matrix the model emits: for EVERY well-formed design description (any number of categorical / numeric columns, "
    "any level counts, every built-in contrast with valid options via C11, bare columns, literal scalings, names bound to "
    "None), every term list, either clustering, without printed-name collisions, the columns built with rank reduction on "
    "are linearly independent and span the space of the columns built with it off (crossed_model_full_rank_same_span; "
    "general form for any cache holding a crossed design: matrix_full_rank_same_span), and that space does not depend on "
    "term order or clustering (matrix_span_order_invariant). The model is tied to the code on every run by a differential "
    "correspondence in which the model computes the WHOLE matrix of a fully crossed design from the design description "
    "alone (factor encodings through the model of contrasts.py) and certifies, case by case, that the hypotheses of the "
    "property theorem hold; plus direct calls of the three methods and of ScopedFactor/ScopedTerm comparison, hashing and "
    "sorting. Known finding C03-F1 (narwhals name-keyed assembly drops a column whose label repeats) is reported as "
    "KNOWN-FINDING on every run; former finding C03-F2 (a level label beginning with `__` lost its column) is repaired in "
    "the library and such labels are part of every stream."
)
LEVEL_NOTE = (
    "Trusted: Lean kernel + propext/Classical.choice/Quot.sound; the hand models of base.py / contrasts.py validated by "
    "whole-matrix correspondence; parser, pandas category inference, str(label), sqrt/float rounding are parameters; the "
    "per-case `certified` verdict is computed by compiled Lean (the theorem it feeds is kernel-checked)."
)
