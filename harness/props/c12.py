"""C12 — Spline transforms reproduce the mathematical bases they name.

Correspondence stream `c12` (request kinds):
  op=bs  the real `basis_spline` (directly or through the TRANSFORMS alias `bs`; arguments passed or left to their
         defaults; `extrapolation` as string or enum member, also non-members; negative degree; empty data) on
         an empty `_state`, plus a second call that re-uses the recorded state on new data, against
         `Model.SplineEntry.basisSpline / transformBs` (argument validation with one reason per `raise` statement, then
         `Model.BSpline`).  The model derives bounds, knot vector (explicit knots: sorted by the model; `df`: the
         linear-interpolation quantiles computed exactly by `quantLin`), columns and every row exactly in `Rat`.  The
         rows are evaluated on the implementation's float quantile knots (handed over as the value of the quantile
         PARAMETER; its contract = agreement with the model's exact quantile knots at 1e-9 is checked on every case).
  op=cs  the real `cubic_spline` / the aliases `cr`, `cs`, `cc` (natural and cyclic; constraints None / 'center' /
         another string / arrays of rank 0-3; x as vector, column, matrix, >2-d array, scalar; omitted arguments;
         explicit knots in any order, with repeats, equal to a bound, outside the bounds; neither df nor knots;
         lower > upper) against `Model.SplineEntry.cubicSpline / transformState`.  Knot preparation
         (`_get_all_sorted_knots`) and the second-derivative map F (`Model.SplineSolve.solveF`: exact elimination,
         returned with its certificate B.F = D) are computed by the model; the implementation's F is compared with it
         entry by entry.  Parameter handed over: the columns of Q2 from `numpy.linalg.qr`.
  op=cs_state  `cubic_spline` on a `_state` supplied by the caller (valid states; cyclic states whose knots coincide,
         where `_map_cyclic` must refuse) against `transformState`.
  op=helper  the module-level helpers called directly: `_map_cyclic`, `_get_all_sorted_knots` (every error exit,
         also those `cubic_spline` cannot reach), `_compute_base_functions`.
  op=uses  a HISTORY of 1-3 uses of one transform that are all handed the SAME argument objects by the caller
         (knots as list / tuple / ndarray / formula literal, the constraint matrix), through the entry points a user
         has: repeated direct calls with fresh state, several terms `bs(x0, knots=K) + bs(x1, knots=K)` of ONE
         model_matrix call, successive model_matrix calls with the same formula and context; new data goes through
         the recorded state (direct) or `ModelSpec.get_model_matrix`.  The model answers every use independently
         from the arguments the user wrote (`Engines.C12.handle`, op "uses" = map of the single-use engines), so a
         use that sees an earlier one (mutated argument, leaked state) disagrees.
  typed columns (op=bs / cs / uses as above): the same calls and histories on integer-valued data STORED in every
         integer width (int8..int64, uint8..uint64), the nullable / pyarrow integer dtypes, Float32, float32 and float16
         (numpy array, pandas Series, DataFrame column through model_matrix + ModelSpec.get_model_matrix), with bounds
         and knots written as Python ints (or half-integers as floats).  The model is storage-blind (it sees the values
         as rationals): rows and recorded state must not depend on how the column is stored.
Errors: the exception class must agree (ExtrapolationError / ValueError / IndexError) and, when the message is one
of the known ones, the `raise` statement must be the one the model predicts (`Reason`); a reworded message is not
recognised and only the class is compared.
Parameter contracts checked per case (in `agree`): quantile knots within 1e-9 of the model's exact ones; F within
1e-9 (scaled) of the model's exact F; `c·Q2 = 0` (exact residual computed by the model); Q2 has orthonormal columns.
Values are compared with tolerance 1e-9·max(1,|v|).

Oracle (implementation only): non-negativity and row sums 1 inside the bounds, column count = df, equality
with an independent textbook Cox–de Boor evaluation in Fractions on the knot vector THE ARGUMENTS DENOTE (explicit
knots: the bounds padded around the given knots in ascending order, whatever the transform recorded), each
extrapolation mode's documented behaviour (omitted: the documented defaults 'raise' / 'extend'), null in -> null row
out; for cr/cc: recorded knots = the distinct given knots and bounds in ascending order, identity at the knots,
equality with SciPy's natural / periodic interpolating cubic splines (cardinal basis), zero column means under
'center'; explicit knots listed in another order (cr/cc: with repeats) give the same state and values as the same
knots ascending.  Given states and helpers: the same reference splines; `_map_cyclic` maps into the interval by whole
periods; `_get_all_sorted_knots` returns the distinct sorted knots / the equally spaced percentiles.  For a history
the single-use oracle is applied to every use with the knots / df / bounds THE USER GAVE, not with whatever the
transform recorded.
"""
from __future__ import annotations

import copy
import math
from fractions import Fraction

import numpy

PROPERTY = "C12"
ENGINE = "c12"
REQUIRED_THEOREMS = [
    "bs_fit_shape",
    "bs_eq_coxdeboor",
    "bs_partition_of_unity",
    "bs_nonneg",
    "bs_local_support",
    "bs_ncols",
    "bs_ncols_knots",
    "bs_null_row",
    "bs_extrapolation_clip",
    "bs_extrapolation_na",
    "bs_extrapolation_zero",
    "bs_extrapolation_raise",
    "bs_extrapolation_extend",
    "cr_identity_at_knots",
    "cc_identity_at_knots",
    "cr_is_natural_interpolant_partial",
    "piece_derivatives_formal",
    "piece_derivatives_analytic",
    "cr_c1_iff_tridiagonal",
    "cr_is_natural_interpolant",
    "cc_c1_iff_tridiagonal",
    "cc_is_periodic_interpolant",
    "cr_linear_beyond_knots",
    "cr_glued_pieces_C2_real",
    "cc_glued_pieces_C2_real",
    "centered_columns_zero_mean",
    "centered_columns_zero_mean_nulls",
    "cr_F_unique",
    "cc_F_unique",
    "cr_interpolant_unique",
    "cr_column_is_natural_spline",
    "cc_interpolant_unique",
    "spline_tables_documented",
    "cs_entry_refines_fit",
    "bs_entry_refines_fit",
    "cs_rejects",
    "cs_unreachable_exits",
    "cs_accepted_knots",
    "cs_explicit_knots_order_irrelevant",
    "bs_explicit_knots_order_irrelevant",
    "quantile_knots",
    "bs_df_knots_admissible",
    "cs_df_knots_never_collide",
    "cs_ncols",
    "cs_numeric_part_total",
    "solveF_is_the_solution",
    "cr_F_exists_unique",
    "cc_F_exists_unique",
    "bs_accepted_call_partition_of_unity",
    "bs_ncols_exact",
    "cs_accepted_call_is_cardinal_basis",
]
TRUSTED = [
    "parameters of the model (results of external numerical routines, taken from the implementation per case; their "
    "contracts are checked numerically per case, not proved): numpy.linalg.qr (c.Q2 = 0 exactly as a residual, Q2 "
    "orthonormal); the float quantile knots of numpy.nanquantile/nanpercentile (used for evaluating the rows; required "
    "to agree at 1e-9 with the exact quantile knots the model computes itself)",
    "scipy.linalg.solve_banded / numpy.linalg.solve are no longer parameters: the model solves B.X = D exactly "
    "(Model/SplineSolve.lean) and returns F only with its certificate; the implementation's F must agree with it at "
    "1e-9 (scaled).  That the exact elimination never meets a zero pivot is not proved (a solver failure is reported "
    "as a disagreement)",
    "float rounding is not modelled: the model evaluates exactly in Rat on the implementation's (dyadic) floats; "
    "agreement is at 1e-9 relative to max(1,|value|)",
    "numpy.searchsorted is modelled for ascending knot arrays (count of knots < x); numpy.unique as sort + "
    "de-duplication; numpy.atleast_1d/atleast_2d/ndim through the array shape the harness reports (0-d, 1-d, column, "
    "wider 2-d, >= 3-d)",
    "which raise statement fired is read from key phrases of the error message (harness/props/c12.py: "
    "REASON_PHRASES); an unrecognised message is compared by exception class only",
    "harness/translate.py: gen_spline_table (Gen/SplineTable.lean: SplineExtrapolation members, signature defaults, "
    "TRANSFORMS aliases with their functools.partial presets)",
    "histories through the formula entry points: formula parsing, context lookup, column naming `name[k]` and assembly of "
    "the model matrix are not modelled (C01-C03); the harness reads each term's block of columns by its name prefix and its "
    "recorded state from ModelSpec.transform_state, with ensure_full_rank=False and na_action='ignore' so that the block is "
    "the transform's output unchanged",
]
ASSUMPTIONS = [
    "the storage dtype of a column is not modelled: the model sees the VALUES (exact rationals); that the rows do not depend "
    "on the storage (integer widths, unsigned, nullable, float32/float16) is checked by the typed-column stream against the "
    "storage-blind model and oracle, not proved",
    "bs theorems about values (partition of unity, non-negativity, local support, zero/extend modes) assume interior "
    "knots non-decreasing inside [lower, upper] (KnotsOk); bs_eq_coxdeboor holds for any knot list.  KnotsOk is PROVED "
    "for accepted df calls (bs_df_knots_admissible: modes raise/clip/na/zero; extend only when the data lie inside the "
    "bounds - the code takes the quantiles of all the data in that mode) and for explicit knots inside the bounds "
    "(sorted by the code)",
    "cr/cc theorems assume strictly increasing knots, at least two: PROVED for every accepted call (cs_accepted_knots); "
    "F of the right shape satisfying B.F = D: exists and is unique for such knots (cr/cc_F_exists_unique), and is what "
    "the model's solveF returns (solveF_is_the_solution)",
    "input vectors contain at least one non-null value, or are empty; all-null samples are outside the model (noData)",
    "bs with a column-shaped / 2-d x is not modelled (cubic_spline's shapes are)",
]
RULE = (
    "bs: x over dyadic rationals (multiples of 1/8 in [-2,4], ties, nulls, empty) x degree 0..5 (and negative) x (df | explicit "
    "interior knots in ANY order incl. repeated and equal to a bound | neither) x bounds (none | explicit, incl. narrower than the "
    "data and lower=upper) x include_intercept x 5 extrapolation modes (string or enum member; non-members) x call form (direct | "
    "TRANSFORMS alias; arguments passed or omitted), plus a second call on new data with the recorded state; malformed stream: df "
    "and knots together, df too small, empty in-range sample, out-of-bounds explicit knots. cs: natural/cyclic x (df | explicit "
    "knots in any order, with repeats, equal to a bound, below / above the bounds | neither) x constraints none/'center'/other "
    "strings/arrays of rank 0..3 x bounds (incl. lower > upper) x modes x x-shape (vector, column, matrix, cube, scalar) x call form "
    "(cubic_spline | cr | cs | cc, cyclic passed or preset) x second call. For explicit knots not already ascending (cr/cc: or "
    "repeated) the same call with the knots ascending is observed too. given states (300 quick / 4000 thorough): strictly "
    "increasing knots, optional constraint row, all modes and x-shapes, a few cyclic states with coinciding knots. helpers (500 / "
    "6000): _map_cyclic (incl. empty interval), _get_all_sorted_knots (all argument combinations, negative counts, mismatched "
    "counts, unsorted/repeated inner knots), _compute_base_functions. non-trivial = at least one interior knot or degree >= 1 (bs) "
    "/ any other case; distinct by canonical JSON. histories (300 quick / 5000 thorough): the same argument generators (explicit "
    "knots in 3 of 4) x 1-3 uses on different data (same range as the first use in 7 of 10 when the bounds come from the data) x "
    "knots container list/tuple/ndarray/formula literal, shared by all uses x entry point (direct calls with fresh state, x as "
    "ndarray or pandas Series | the terms of one model_matrix call | successive model_matrix calls; formula entry points with "
    "ensure_full_rank=False, na_action='ignore', all other arguments through the context) x new data per use through the recorded "
    "state / ModelSpec.get_model_matrix. typed columns (700 quick / 10000 thorough): the single-call generators (mostly cyclic for "
    "cr/cc, extend in half) and the history generator rescaled to integer data, stored as int8..int64 / uint8..uint64 / nullable "
    "Int*/UInt*/Float32/pyarrow ints / float32 / float16 (array | Series | DataFrame column), integer knots, bounds as Python ints "
    "or half-integers; bs df=0 and other df below degree (+intercept) in the malformed stream"
)
TOL = 1e-9
MODES = ["raise", "clip", "na", "zero", "extend"]


# ----------------------------------------------------------------------------- helpers


def fr(s):
    return None if s is None else Fraction(s)


def fs(q: Fraction) -> str:
    return f"{q.numerator}/{q.denominator}"


def ffs(v) -> str:
    """exact rational string of a float (NaN/inf -> "0/1"; callers record that separately)"""
    v = float(v)
    return "0/1" if not math.isfinite(v) else fs(Fraction(v))


def fl(s):
    return float("nan") if s is None else float(Fraction(s))


def arr(xs):
    return numpy.array([fl(v) for v in xs], dtype=float)


# ---- storage of the column (the VALUES are what the property speaks about; how they are stored must not matter)

NP_INT_DT = ["int8", "int16", "int32", "int64", "uint8", "uint16", "uint32", "uint64"]
NP_FLOAT_DT = ["float16", "float32"]
NULLABLE_DT = ["Int8", "Int16", "Int32", "Int64", "UInt8", "UInt16", "UInt32", "UInt64", "Float32",
               "int64[pyarrow]", "uint8[pyarrow]", "int16[pyarrow]"]


def _dt_unsigned(dt):
    return dt is not None and dt.lower().startswith("u")


def _dt_holds_nulls(dt):
    return dt is None or dt in NP_FLOAT_DT or dt in NULLABLE_DT


def store(xs, dt=None, cont="ndarray"):
    """the column as the caller stores it: numpy array of dtype `dt` (default float64), or a pandas Series
    (always for the nullable extension / pyarrow dtypes)"""
    if dt is None:
        a = arr(xs)
    elif dt in NULLABLE_DT:
        import pandas

        conv = float if dt.startswith("Float") else int
        return pandas.Series(pandas.array([None if v is None else conv(Fraction(v)) for v in xs], dtype=dt))
    else:
        a = arr(xs).astype(dt)
    if cont == "series":
        import pandas

        return pandas.Series(a)
    return a


def num(s, c):
    """a bound / knot as the caller writes it: a Python int when the case says so (`intargs`), else a float"""
    if c.get("intargs") and Fraction(s).denominator == 1:
        return int(Fraction(s))
    return fl(s)


def cell(v):
    v = float(v)
    return None if math.isnan(v) else v


def err_class(e):
    """the exception class as the library names it (ExtrapolationError is a ValueError subclass of cubic_spline.py;
    numpy's own ValueError subclasses, e.g. AxisError, count as ValueError)"""
    n = type(e).__name__
    if n == "ExtrapolationError":
        return n
    return "ValueError" if isinstance(e, ValueError) else n


# which `raise` statement an error message belongs to (stable key phrases; a reworded message is simply not
# recognised and then only the exception class is compared)
REASON_PHRASES = [
    ("bothDfKnots", "cannot specify both"),
    ("notOneDim", "must be 1-d"),
    ("neitherDfKnots", "must specify either 'df' or 'knots'"),
    ("badConstraintStr", "constraints must be 'center'"),
    ("constraintNdim", "constraints must be 2-d array"),
    ("dfTooSmallCs", "must be greater than or equal to"),
    ("lowerGtUpper", "lower_bound > upper_bound"),
    ("negInner", "invalid requested number of inner knots"),
    ("noDataForKnots", "no data values between"),
    ("knotCount", "does not match"),
    ("knotsBelow", "below lower bound"),
    ("knotsAbove", "above upper bound"),
    ("neitherInner", "must specify either 'n_inner_knots'"),
    ("notDistinct", "unable to compute"),
    ("constraintCols", "constraints array should have"),
    ("mapCyclic", "should be less than ubound"),
    ("badMode", "is not a valid splineextrapolation"),
    ("emptyData", "zero-size array"),
    ("dfTooSmallBs", "invalid value for `df`"),
    ("emptySample", "no data points are available"),
    ("negDegree", "index can't contain negative values"),
]


def err_info(e):
    """class of the exception and (diagnostic + reason tag) the start of its message"""
    msg = str(e)[:200]
    low = msg.lower()
    tag = None
    if type(e).__name__ == "ExtrapolationError":
        tag = "extrapolationCs"
    elif "extend beyond upper and/or lower bounds" in low:
        tag = "outOfBoundsBs"
    else:
        hits = [t for t, ph in REASON_PHRASES if ph in low]
        tag = hits[0] if len(hits) == 1 else None
    return dict(error=err_class(e), msg=msg, tag=tag)


def _cmp_reason(o, m):
    """both sides raise the same class: do they raise at the same check? (only when the message is recognised)"""
    tag, reason = o.get("tag"), str(m.get("reason", ""))
    if tag is None or not reason:
        return None
    name = reason.split(".")[-1].split(" ")[0].strip("()")
    if name in ("inner", "noData") or name == tag:
        return None
    return (f"both raise {o['error']}, but the implementation at the check '{tag}' ({o.get('msg')!r}) and the model at "
            f"'{name}': the checks are made in a different order or with a different condition")


def close(a, b, tol=TOL):
    return abs(a - b) <= tol * max(1.0, abs(a), abs(b))


def quantiles(sample, m):
    """linear-interpolation quantiles k/(m+1), k=1..m of a sample of Fractions (independent of numpy)"""
    s = sorted(sample)
    n = len(s)
    out = []
    for k in range(1, m + 1):
        pos = Fraction(k, m + 1) * (n - 1)
        g = pos.numerator // pos.denominator
        gam = pos - g
        out.append(s[g] if g + 1 >= n else s[g] + gam * (s[g + 1] - s[g]))
    return out


# ----------------------------------------------------------------------------- generators


def dy(rng, lo=-16, hi=32, den=8):
    return fs(Fraction(rng.randint(lo, hi), den))


def gen_x(rng, nmin=1, nmax=12, lo=-16, hi=32, nulls=True):
    n = rng.randint(nmin, nmax)
    pool = [dy(rng, lo, hi) for _ in range(rng.randint(1, max(1, n)))]
    xs = [rng.choice(pool) for _ in range(n)]
    if n and nulls and rng.random() < 0.35:
        for _ in range(rng.randint(1, 2)):
            xs[rng.randrange(n)] = None
    if n and all(v is None for v in xs):
        xs[0] = dy(rng, lo, hi)
    return xs


def gen_bs_plain(rng):
    degree = rng.choice([0, 1, 1, 2, 2, 3, 3, 3, 4, 5])
    intercept = rng.random() < 0.5
    mode = rng.choice(MODES)
    x = gen_x(rng)
    vals = [Fraction(v) for v in x if v is not None]
    r = rng.random()
    if r < 0.4:
        lower = upper = None
        lo, hi = min(vals), max(vals)
    else:
        a, b = sorted([Fraction(rng.randint(-8, 24), 8), Fraction(rng.randint(-8, 24), 8)])
        if a == b and rng.random() < 0.7:
            b = a + Fraction(rng.randint(1, 16), 8)
        if rng.random() < 0.03:
            a, b = b, a  # malformed: lower > upper
        lo, hi = a, b
        lower, upper = fs(a), fs(b)
        if rng.random() < 0.15:
            lower = None
            lo = min(vals)
        elif rng.random() < 0.15:
            upper = None
            hi = max(vals)
    df = knots = None
    r = rng.random()
    if r < 0.45:
        df = degree + (1 if intercept else 0) + rng.choice([0, 0, 1, 1, 2, 3, 4])
        if rng.random() < 0.08:
            df = rng.choice([0, 0, degree - 1, -1, degree])  # malformed / edge
    elif r < 0.85:
        k = rng.randint(0, 4)
        if lo <= hi:
            span = hi - lo
            ks = sorted(lo + span * Fraction(rng.randint(0, 8), 8) for _ in range(k))
            if ks and rng.random() < 0.3:
                ks[rng.randrange(len(ks))] = rng.choice(ks)  # repeated
                ks.sort()
        else:
            ks = []
        if len(ks) > 1 and rng.random() < 0.35:
            rng.shuffle(ks)  # listed in another order than ascending: the same breakpoints
        if rng.random() < 0.06 and ks:
            ks[0] = ks[0] + 5  # malformed: out of bounds
        knots = [fs(q) for q in ks]
    if rng.random() < 0.02:
        df, knots = 4, []  # malformed: both
    x2 = None
    if rng.random() < 0.6:
        x2 = gen_x(rng, 1, 8)
    return dict(kind="bs", x=x, df=df, knots=knots, degree=degree, intercept=intercept,
                lower=lower, upper=upper, mode=mode, x2=x2)


def gen_cs_plain(rng):
    cyclic = rng.random() < 0.5
    mode = rng.choice(["extend", "extend", "raise", "clip", "na", "zero"])
    x = gen_x(rng, 3, 14)
    vals = sorted(set(Fraction(v) for v in x if v is not None))
    r = rng.random()
    if r < 0.5:
        lower = upper = None
        lo, hi = vals[0], vals[-1]
    else:
        a, b = sorted([Fraction(rng.randint(-8, 24), 8), Fraction(rng.randint(-8, 24), 8)])
        if a == b:
            b = a + Fraction(rng.randint(1, 16), 8)
        lo, hi, lower, upper = a, b, fs(a), fs(b)
    cons = rng.choice([None, None, "center", "center", "matrix"])
    df = knots = None
    nc = 0 if cons is None else 1
    if rng.random() < 0.6:
        df = rng.choice([1, 2, 2, 3, 3, 4, 5])
        ncols = df + nc
    else:
        k = rng.randint(0, 4)
        span = hi - lo
        ks = sorted(set(lo + span * Fraction(rng.randint(1, 15), 16) for _ in range(k)))
        if ks and rng.random() < 0.45:
            # the same set of breakpoints listed with repeats and / or not in ascending order
            if rng.random() < 0.6:
                ks = ks + [rng.choice(ks) for _ in range(rng.randint(1, 2))]
            ks.sort()
            if rng.random() < 0.75:
                rng.shuffle(ks)
        if rng.random() < 0.05 and ks:
            ks[0] = lo - 1  # malformed: below the lower bound
        elif rng.random() < 0.04:
            ks.append(rng.choice([lo, hi]))  # a knot equal to a bound: fewer distinct knots than requested
        knots = [fs(q) for q in ks]
        ncols = len(set(ks)) + 2 - (1 if cyclic else 0)
    if cons == "matrix":
        ncols = max(ncols, 1)
        if rng.random() < 0.08:
            ncols += 1  # malformed: wrong number of columns
        row = [str(rng.randint(-2, 3)) for _ in range(ncols)]
        if all(v == "0" for v in row):
            row[0] = "1"
        cons = [row]
    if rng.random() < 0.02:
        df, knots = 3, []
    x2 = None
    if rng.random() < 0.6:
        x2 = gen_x(rng, 1, 8)
    return dict(kind="cs", x=x, df=df, knots=knots, lower=lower, upper=upper, constraints=cons,
                cyclic=cyclic, mode=mode, x2=x2)


# ---- the call as the user writes it: omitted arguments, TRANSFORMS aliases, array shapes, malformed arguments

BS_DOC_DEFAULTS = dict(df=None, knots=None, degree=3, intercept=False, lower=None, upper=None, mode="raise")
CS_DOC_DEFAULTS = dict(df=None, knots=None, lower=None, upper=None, constraints=None, cyclic=False, mode="extend")
BAD_MODES = ["linear", "Raise", "EXTEND", "", "nan", "clip "]


def gen_bs(rng):
    c = gen_bs_plain(rng)
    r = rng.random()
    if r < 0.12:
        # valid variations of the call form: through the TRANSFORMS alias, with arguments left to their defaults
        c["via"] = rng.choice([None, "bs"])
        omit = [k for k in ("degree", "intercept", "mode", "df", "knots", "lower", "upper") if rng.random() < 0.35]
        for k in omit:
            c[k] = BS_DOC_DEFAULTS[k]
        c["omit"] = sorted(omit)
        if "mode" not in omit and rng.random() < 0.3:
            c["mode_enum"] = True
    elif r < 0.16:
        c["mode"] = rng.choice(BAD_MODES)  # malformed: not a member of SplineExtrapolation
    elif r < 0.18:
        c["degree"] = rng.choice([-1, -1, -2])  # malformed: negative degree
    elif r < 0.20:
        c["x"] = []  # empty data (bounds from the data: numpy.nanmin raises; explicit bounds: an empty basis)
    return c


def gen_cs(rng):
    c = gen_cs_plain(rng)
    r = rng.random()
    if r < 0.14:
        # valid variations of the call form
        c["via"] = rng.choice([None, "cc" if c["cyclic"] else rng.choice(["cr", "cs"]), rng.choice(["cr", "cs", "cc"])])
        omit = [k for k in ("mode", "constraints", "lower", "upper") if rng.random() < 0.35]
        if c["via"] is not None and rng.random() < 0.7:
            omit.append("cyclic")
            c["cyclic"] = c["via"] == "cc"
        elif c["via"] is None and rng.random() < 0.3:
            omit.append("cyclic")
            c["cyclic"] = False
        for k in omit:
            if k != "cyclic":
                c[k] = CS_DOC_DEFAULTS[k]
        c["omit"] = sorted(omit)
        if "mode" not in omit and rng.random() < 0.3:
            c["mode_enum"] = True
        if rng.random() < 0.5:
            c["xshape"] = "col"
        if c["x2"] is not None and rng.random() < 0.3:
            c["x2shape"] = "col"
        if isinstance(c["constraints"], list) and rng.random() < 0.5:
            c["constraints"] = dict(ndim=1, rows=c["constraints"])  # a 1-d vector instead of a 1 x n matrix
    elif r < 0.17:
        c["mode"] = rng.choice(BAD_MODES)
    elif r < 0.20:
        c["xshape"] = rng.choice(["mat", "cube", "cube"])  # malformed: not 1-d / a column
    elif r < 0.22:
        c["xshape"] = "scalar"
        c["x"] = [next(v for v in c["x"] if v is not None)]
    elif r < 0.245:
        c["constraints"] = rng.choice(["centre", "Center", "", "none"])  # malformed: a string other than 'center'
    elif r < 0.27:
        rows = c["constraints"] if isinstance(c["constraints"], list) else [[str(rng.randint(-2, 3)) for _ in range(rng.randint(1, 4))]]
        c["constraints"] = dict(ndim=rng.choice([3, 3, 0]), rows=rows if rng.random() < 0.8 else [[rows[0][0]]])
        if c["constraints"]["ndim"] == 0:
            c["constraints"]["rows"] = [[rows[0][0]]]
    elif r < 0.29:
        c["df"] = c["knots"] = None  # malformed: neither df nor knots
    elif r < 0.31 and c["lower"] is not None:
        c["lower"], c["upper"] = c["upper"], c["lower"]  # malformed: lower_bound > upper_bound
    elif r < 0.335 and c["knots"]:
        vals = [Fraction(v) for v in c["x"] if v is not None]
        hi = Fraction(c["upper"]) if c["upper"] is not None else max(vals)
        ks = [Fraction(k) for k in c["knots"]]
        ks[-1] = hi + Fraction(rng.randint(1, 8), 8)  # malformed: above the upper bound
        c["knots"] = [fs(k) for k in ks]
    elif r < 0.35:
        c["x"] = []
    return c


def gen_state(rng):
    """cubic_spline on a `_state` that the caller supplies (restored from a saved spec, or written by hand):
    bounds = first / last knot, strictly increasing knots, optional constraint matrix; a few cyclic states whose
    knots all coincide (where `_map_cyclic` has to refuse)."""
    cyclic = rng.random() < 0.5
    nk = rng.randint(2, 6)
    ks = sorted(set(Fraction(rng.randint(-8, 24), 8) for _ in range(nk)))
    if len(ks) < 2:
        ks = [ks[0], ks[0] + Fraction(rng.randint(1, 16), 8)]
    degenerate = cyclic and rng.random() < 0.06
    if degenerate:
        ks = [ks[0]] * rng.choice([1, 2, 3])
    n = len(ks) - (1 if cyclic else 0)
    cons = None
    if not degenerate and rng.random() < 0.4:
        row = [str(rng.randint(-2, 3)) for _ in range(n)]
        if all(v == "0" for v in row):
            row[0] = "1"
        cons = [row]
    mode = rng.choice(["extend", "extend", "raise", "clip", "na", "zero"])
    omit = []
    if rng.random() < 0.2:
        mode, omit = "extend", ["mode"]
    elif rng.random() < 0.04:
        mode = rng.choice(BAD_MODES)
    xshape = "vec"
    r = rng.random()
    if r < 0.15:
        xshape = "col"
    elif r < 0.19:
        xshape = rng.choice(["mat", "cube"])
    x = gen_x(rng, 1, 10)
    if rng.random() < 0.05:
        x = [None] * len(x) if rng.random() < 0.5 else []
    return dict(kind="state", x=x, xshape=xshape, mode=mode, omit=omit,
                state=dict(lower=fs(ks[0]), upper=fs(ks[-1]), knots=[fs(k) for k in ks], cyclic=cyclic, constraints=cons))


def gen_helper(rng):
    """the module-level helpers of cubic_spline.py called directly, with arguments cubic_spline itself never
    produces (all error exits of `_get_all_sorted_knots`, `_map_cyclic` with an empty interval)"""
    r = rng.random()
    if r < 0.3:
        a, b = Fraction(rng.randint(-8, 24), 8), Fraction(rng.randint(-8, 24), 8)
        if rng.random() < 0.85:
            a, b = min(a, b), max(a, b)
            if a == b and rng.random() < 0.7:
                b = a + Fraction(rng.randint(1, 16), 8)
        x = [v for v in gen_x(rng, 0, 8, -40, 56, nulls=False)]
        c = dict(kind="helper", fn="map_cyclic", x=x, lb=fs(a), ub=fs(b))
        if rng.random() < 0.35:
            # integer-valued positions in an integer / float16 / float32 array
            c["xdt"] = rng.choice(NP_INT_DT + NP_FLOAT_DT)
            c["x"] = [fs(Fraction(rng.randint(0 if _dt_unsigned(c["xdt"]) else -6, 9))) for _ in x]
        return c
    if r < 0.75:
        x = gen_x(rng, 0, 10)
        a, b = sorted([Fraction(rng.randint(-8, 24), 8), Fraction(rng.randint(-8, 24), 8)])
        if a == b and rng.random() < 0.8:
            b = a + Fraction(rng.randint(1, 16), 8)
        if rng.random() < 0.06:
            a, b = b, a
        n_inner = inner = None
        q = rng.random()
        if q < 0.45:
            n_inner = rng.choice([0, 1, 1, 2, 2, 3, 4, -1, -2])
        elif q < 0.85:
            k = rng.randint(0, 4)
            span = abs(b - a)
            inner = [fs(min(a, b) + span * Fraction(rng.randint(-2, 18), 16)) for _ in range(k)]
            if rng.random() < 0.35:
                n_inner = rng.choice([len(set(inner)), len(inner), k + 1, 0])
        elif q < 0.93:
            n_inner, inner = rng.randint(0, 3), []
        return dict(kind="helper", fn="sorted_knots", x=x, lower=fs(a), upper=fs(b), n_inner=n_inner, inner=inner)
    nk = rng.randint(2, 6)
    ks = sorted(set(Fraction(rng.randint(-8, 24), 8) for _ in range(nk)))
    if len(ks) < 2:
        ks = [ks[0], ks[0] + Fraction(rng.randint(1, 16), 8)]
    x = gen_x(rng, 1, 8, -24, 40, nulls=False)
    if rng.random() < 0.5:
        x[rng.randrange(len(x))] = fs(rng.choice(ks))
    return dict(kind="helper", fn="base", x=x, knots=[fs(k) for k in ks])


KCONTS = ["list", "list", "list", "tuple", "ndarray"]


# ---- typed columns: integer-valued data stored in every integer width (signed / unsigned / nullable) and in
# float32 / float16, with integer-valued (or half-integer) bounds and integer knots


def _pick_dt(rng):
    r = rng.random()
    if r < 0.5:
        return rng.choice(NP_INT_DT)
    if r < 0.8:
        return rng.choice(NULLABLE_DT)
    return rng.choice(NP_FLOAT_DT)


def _intify(a, xss, rng, fam):
    """rescale a plain case by 8 (all data values become integers; unsigned storage: shifted to be non-negative),
    integer knots, bounds integer (passed as Python ints in 2 of 3) or integer + 1/2.  `a`: the argument dict
    (lower / upper / knots), `xss`: every data vector of the case (changed in place)."""
    dt = _pick_dt(rng)
    shift = 16 if _dt_unsigned(dt) else 0
    sc = lambda v: None if v is None else Fraction(v) * 8 + shift
    allv = [Fraction(v) for xs in xss[:1] for v in xs if v is not None]
    olo = Fraction(a["lower"]) if a["lower"] is not None else (min(allv) if allv else Fraction(0))
    ohi = Fraction(a["upper"]) if a["upper"] is not None else (max(allv) if allv else Fraction(0))
    for xs in xss:
        for i, v in enumerate(xs):
            xs[i] = None if v is None else fs(sc(v))
        if not _dt_holds_nulls(dt):
            keep = [v for v in xs if v is not None]
            for i, v in enumerate(xs):
                if v is None:
                    xs[i] = rng.choice(keep) if keep else fs(Fraction(shift))
    intargs = rng.random() < (0.67 if fam == "bs" else 0.3)
    lo, hi = sc(olo), sc(ohi)
    if not intargs and rng.random() < 0.9:
        # bounds between two integers: a wrapped / clipped position is not an integer
        if a["lower"] is not None and rng.random() < 0.6:
            lo += Fraction(1, 2)
        if a["upper"] is not None and (rng.random() < 0.6 or lo == sc(olo)) and hi - Fraction(1, 2) > lo:
            hi -= Fraction(1, 2)
    if a["lower"] is not None:
        a["lower"] = fs(lo)
    if a["upper"] is not None:
        a["upper"] = fs(hi)
    if a["knots"] is not None:
        ks = []
        for k in a["knots"]:
            inside = olo < Fraction(k) < ohi if fam == "cs" else olo <= Fraction(k) <= ohi
            q = Fraction(math.floor(sc(k)))
            if inside and fam == "cs":
                if q <= lo:
                    q = Fraction(math.floor(lo) + 1)
                if q >= hi:
                    q = Fraction(math.ceil(hi) - 1)
            elif inside:
                q = min(max(q, Fraction(math.ceil(lo))), Fraction(math.floor(hi)))
            ks.append(fs(q))
        a["knots"] = ks
    return dt, intargs


def gen_typed(rng):
    """one bs / cr / cc call (fit + replay on new data) on a column stored as `xdt`"""
    fam = "bs" if rng.random() < 0.5 else "cs"
    c = gen_bs_plain(rng) if fam == "bs" else gen_cs_plain(rng)
    for _ in range(2):
        if fam == "cs" and (not c["cyclic"] or c["lower"] is None):
            c = gen_cs_plain(rng)  # mostly cyclic, with explicit bounds
    if rng.random() < 0.5:
        c["mode"] = "extend"
    if c["x2"] is None and rng.random() < 0.7:
        c["x2"] = gen_x(rng, 1, 8)
    xss = [c["x"]] + ([c["x2"]] if c["x2"] is not None else [])
    c["xdt"], c["intargs"] = _intify(c, xss, rng, fam)
    c["xcont"] = rng.choice(["ndarray", "series"])
    if rng.random() < 0.3:
        c["via"] = "bs" if fam == "bs" else ("cc" if c["cyclic"] else "cr")
    return c


def gen_typed_hist(rng):
    """histories (direct calls, the terms of one formula, successive model_matrix calls + replay through the
    ModelSpec) on typed columns"""
    c = gen_hist(rng)
    xss = [v for u in c["uses"] for v in (u["x"], u["x2"]) if v is not None]
    c["xdt"], c["intargs"] = _intify(c["args"], xss, rng, c["fam"])
    return c


def gen_hist(rng):
    """A HISTORY of uses of one transform that are all handed the SAME argument objects (knots container,
    constraint matrix) by the caller, through one of the entry points a user has: repeated direct calls with fresh
    state, several terms of one formula, successive model_matrix calls.  Every use also may transform new data
    with its recorded state (direct: the state dictionary; formula: ModelSpec.get_model_matrix)."""
    fam = "bs" if rng.random() < 0.65 else "cs"
    want_knots = rng.random() < 0.75
    for _ in range(8):
        base = gen_bs_plain(rng) if fam == "bs" else gen_cs_plain(rng)
        if (base["knots"] is not None) == want_knots and not (base["df"] is not None and base["knots"] is not None):
            break
    entry = rng.choice(["direct", "terms", "terms", "calls", "calls"])
    nuses = rng.choice([1, 2, 2, 2, 3, 3]) if entry != "direct" else rng.choice([2, 2, 3])
    x0 = base.pop("x")
    x20 = base.pop("x2")
    base.pop("kind")
    n = len(x0)
    vals = [Fraction(v) for v in x0 if v is not None]
    lo, hi = min(vals), max(vals)
    same_len = entry == "terms"
    m2 = None if x20 is None else len(x20)
    uses = [dict(x=x0, x2=x20)]
    for _ in range(nuses - 1):
        x = gen_x(rng, n, n) if same_len else gen_x(rng, 3 if fam == "cs" else 1, 12)
        if len(x) >= 2 and rng.random() < 0.7:
            # same data range as the first use: the shared explicit knots stay inside the bounds of every use
            i, j = rng.sample(range(len(x)), 2)
            if base["lower"] is None:
                x[i] = fs(lo)
            if base["upper"] is None:
                x[j] = fs(hi)
        if same_len:
            x2 = None if m2 is None else gen_x(rng, m2, m2)
        else:
            x2 = gen_x(rng, 1, 8) if rng.random() < 0.6 else None
        uses.append(dict(x=x, x2=x2))
    kcont = None
    if base["knots"] is not None:
        kcont = rng.choice(KCONTS + (["literal"] if entry != "direct" else []))
    xcont = rng.choice(["ndarray", "series"]) if entry == "direct" else "frame"
    return dict(kind="hist", fam=fam, entry=entry, kcont=kcont, xcont=xcont, args=base, uses=uses)


def subcases(c):
    """the uses of a history as independent single-use cases on the arguments THE USER WROTE"""
    return [dict(c["args"], kind=c["fam"], x=u["x"], x2=u["x2"]) for u in c["uses"]]


def cases(rng, tier):
    n = {"quick": 3000, "thorough": 50000, "search": 150}[tier]
    for i in range(n):
        yield gen_bs(rng) if rng.random() < 0.55 else gen_cs(rng)
    for i in range({"quick": 300, "thorough": 5000, "search": 60}[tier]):
        yield gen_hist(rng)
    for i in range({"quick": 700, "thorough": 10000, "search": 80}[tier]):
        yield gen_typed(rng) if rng.random() < 0.6 else gen_typed_hist(rng)
    for i in range({"quick": 300, "thorough": 4000, "search": 40}[tier]):
        yield gen_state(rng)
    for i in range({"quick": 500, "thorough": 6000, "search": 60}[tier]):
        yield gen_helper(rng)


def describe(c):
    d = _describe(c)
    if c.get("xdt") is not None:
        dt = c["xdt"]
        d += ",stored=" + ("nullable" if dt in NULLABLE_DT else "float16/32" if dt in NP_FLOAT_DT else
                           "unsigned" if _dt_unsigned(dt) else "signed") + (",intargs" if c.get("intargs") else "")
    return d


def _describe(c):
    if c["kind"] == "hist":
        a = c["args"]
        fam = "bs" if c["fam"] == "bs" else ("cc" if a["cyclic"] else "cr")
        how = "df" if a["df"] is not None else ("knots:" + c["kcont"] if a["knots"] is not None else "plain")
        return f"hist:{fam},{c['entry']}x{len(c['uses'])},{how}"
    if c["kind"] == "state":
        return f"state:{'cc' if c['state']['cyclic'] else 'cr'},{c['mode'] if c['mode'] in MODES else 'badmode'},{c.get('xshape', 'vec')}"
    if c["kind"] == "helper":
        return f"helper:{c['fn']}"
    form = ("" if not c.get("via") else ",via=" + c["via"]) + ("" if not c.get("omit") else ",omit")
    mode = c["mode"] if c["mode"] in MODES else "badmode"
    if c["kind"] == "bs":
        how = "df" if c["df"] is not None else ("knots" if c["knots"] is not None else "plain")
        if _reordered(c) is not None:
            how = "knots-unsorted"
        return f"bs,d={c['degree']},{how},{mode}{form}"
    how = "df" if c["df"] is not None else ("knots" if c["knots"] is not None else "neither")
    if _reordered(c) is not None:
        how = "knots-unsorted/repeated"
    k = c["constraints"]
    cons = "none" if k is None else (k if k == "center" else ("badstr" if isinstance(k, str) else
                                                              ("matrix" if isinstance(k, list) else f"array{k['ndim']}d")))
    shape = "" if c.get("xshape", "vec") == "vec" else "," + c["xshape"]
    return f"{'cc' if c['cyclic'] else 'cr'},{how},{cons},{mode}{shape}{form}"


def nontrivial(c):
    if c["kind"] == "hist":
        return any(nontrivial(s) for s in subcases(c))
    if c["kind"] in ("cs", "state", "helper"):
        return True
    return c["degree"] >= 1 or bool(c["knots"]) or (c["df"] or 0) > 1


# ----------------------------------------------------------------------------- implementation side


def _cols_rows(res, n):
    keys = [k for k in res.keys()]
    mat = [numpy.atleast_1d(numpy.asarray(res[k], dtype=float)) for k in keys]
    rows = [[cell(col[i]) for col in mat] for i in range(n)]
    return keys, rows


def _mode_arg(c):
    if c.get("mode_enum"):
        from formulaic.transforms.basis_spline import SplineExtrapolation

        return SplineExtrapolation(c["mode"])
    return c["mode"]


def _bs_kw(c, knots=None):
    """keyword arguments of the call as the user writes it (omitted arguments are not passed)"""
    ks = c["knots"] if knots is None else knots
    kw = dict(
        df=c["df"],
        knots=None if ks is None else [num(k, c) for k in ks],
        degree=c["degree"],
        include_intercept=c["intercept"],
        lower_bound=None if c["lower"] is None else num(c["lower"], c),
        upper_bound=None if c["upper"] is None else num(c["upper"], c),
        extrapolation=_mode_arg(c),
    )
    names = dict(df="df", knots="knots", degree="degree", intercept="include_intercept", lower="lower_bound",
                 upper="upper_bound", mode="extrapolation")
    for k in c.get("omit") or []:
        kw.pop(names[k])
    return kw


def _bs_fn(c):
    if c.get("via"):
        from formulaic.transforms import TRANSFORMS

        return TRANSFORMS[c["via"]]
    from formulaic.transforms.basis_spline import basis_spline

    return basis_spline


def _col(c, xs):
    return store(xs, c.get("xdt"), c.get("xcont", "ndarray"))


def _bs_call(c, kw):
    fn = _bs_fn(c)
    st = {}
    try:
        res = fn(_col(c, c["x"]), _state=st, **kw)
    except Exception as e:
        return err_info(e)
    keys, rows = _cols_rows(res, len(c["x"]))
    out = dict(
        state=dict(lower=ffs(st["lower_bound"]), upper=ffs(st["upper_bound"]), knots=[ffs(k) for k in st["knots"]]),
        first=dict(cols=[int(k) for k in keys], rows=rows),
        second=None,
    )
    if c["x2"] is not None:
        st2 = copy.deepcopy(st)
        try:
            res2 = fn(_col(c, c["x2"]), _state=st2, **kw)
            k2, r2 = _cols_rows(res2, len(c["x2"]))
            out["second"] = dict(cols=[int(k) for k in k2], rows=r2)
        except Exception as e:
            out["second"] = dict(error=err_class(e))
    return out


def _reordered(c):
    """explicit knots that are not listed in ascending order (or, for cr/cc, with repeats)"""
    ks = c.get("knots")
    if not ks:
        return None
    q = [Fraction(k) for k in ks]
    asc = sorted(q) if c["kind"] == "bs" else sorted(set(q))
    return None if q == asc else [fs(k) for k in asc]


def impl_bs(c):
    out = _bs_call(c, _bs_kw(c))
    asc = _reordered(c)
    if asc is not None:
        # the same breakpoints listed in ascending order (observable for the order-independence clause)
        out["ascending"] = _bs_call(c, _bs_kw(c, asc))
    return out


def shaped(xs, shape, c=None):
    if c is not None and c.get("xdt") is not None and shape == "vec":
        return _col(c, xs)
    a = arr(xs)
    if shape == "col":
        return a.reshape((-1, 1))
    if shape == "mat":
        return numpy.column_stack([a, a])
    if shape == "cube":
        return a.reshape((-1, 1, 1))
    if shape == "scalar":
        return numpy.float64(a[0])
    return a


def _cons_arg(cons):
    if cons is None or isinstance(cons, str):
        return cons
    if isinstance(cons, dict):
        m = numpy.array([[fl(v) for v in row] for row in cons["rows"]], dtype=float)
        nd = cons["ndim"]
        if nd == 0:
            return numpy.float64(m[0, 0])
        if nd == 1:
            return m[0]
        if nd == 3:
            return m.reshape((1,) + m.shape)
        return m
    return numpy.array([[fl(v) for v in row] for row in cons], dtype=float)


def _cs_kw(c, knots=None):
    ks = c["knots"] if knots is None else knots
    kw = dict(
        df=c["df"],
        knots=None if ks is None else [num(k, c) for k in ks],
        lower_bound=None if c["lower"] is None else num(c["lower"], c),
        upper_bound=None if c["upper"] is None else num(c["upper"], c),
        constraints=_cons_arg(c["constraints"]),
        cyclic=c["cyclic"],
        extrapolation=_mode_arg(c),
    )
    names = dict(df="df", knots="knots", lower="lower_bound", upper="upper_bound", constraints="constraints",
                 cyclic="cyclic", mode="extrapolation")
    for k in c.get("omit") or []:
        kw.pop(names[k])
    return kw


def _cs_fn(c, CS):
    if c.get("via"):
        from formulaic.transforms import TRANSFORMS

        return TRANSFORMS[c["via"]]
    return CS.cubic_spline


class _CsRec:
    """records the F and Q2 computed inside one cubic_spline call"""

    def __enter__(self):
        import formulaic.transforms.cubic_spline as CS

        self.CS, self.rec = CS, {}
        self.saved = (CS._get_natural_f, CS._get_cyclic_f, numpy.linalg.qr)
        o_nat, o_cyc, o_qr = self.saved
        rec = self.rec

        def nat(k):
            r = o_nat(k)
            rec["F"] = numpy.array(r)
            return r

        def cyc(k):
            r = o_cyc(k)
            rec["F"] = numpy.array(r)
            return r

        def qr(a, mode="reduced"):
            q, r = o_qr(a, mode=mode)
            rec["Q2"] = numpy.array(q)[:, numpy.asarray(a).shape[1]:]
            return q, r

        CS._get_natural_f, CS._get_cyclic_f, numpy.linalg.qr = nat, cyc, qr
        return self

    def __exit__(self, *a):
        self.CS._get_natural_f, self.CS._get_cyclic_f, numpy.linalg.qr = self.saved


def _cs_call(c, kw):
    with _CsRec() as h:
        CS, rec = h.CS, h.rec
        fn = _cs_fn(c, CS)
        st = {}
        try:
            res = fn(shaped(c["x"], c.get("xshape", "vec"), c), _state=st, **kw)
        except Exception as e:
            return err_info(e)
        keys, rows = _cols_rows(res, len(c["x"]))
        carr = st["constraints"]
        out = dict(
            state=dict(
                lower=ffs(st["lower_bound"]), upper=ffs(st["upper_bound"]), knots=[ffs(k) for k in st["knots"]],
                cyclic=bool(st["cyclic"]),
                constraints=None if carr is None else [[cell(v) for v in row] for row in numpy.atleast_2d(carr)],
            ),
            first=dict(ncols=len(keys), keys=[int(k) for k in keys], rows=rows),
            second=None,
            F=None if "F" not in rec else [[ffs(v) for v in row] for row in rec["F"]],
            Q2=None if "Q2" not in rec else [[ffs(v) for v in col] for col in rec["Q2"].T],
        )
        out["nan_params"] = bool(
            ("F" in rec and not numpy.isfinite(rec["F"]).all()) or ("Q2" in rec and not numpy.isfinite(rec["Q2"]).all())
            or (carr is not None and not numpy.isfinite(numpy.asarray(carr, dtype=float)).all()))
        if "Q2" in rec:
            q2 = rec["Q2"]
            out["orth"] = float(numpy.abs(q2.T @ q2 - numpy.eye(q2.shape[1])).max()) if q2.shape[1] else 0.0
        # rows at the recorded knots (identity-at-knots observable)
        try:
            resk = fn(numpy.array(st["knots"], dtype=float), _state=copy.deepcopy(st), **kw)
            out["at_knots"] = _cols_rows(resk, len(st["knots"]))[1]
        except Exception as e:
            out["at_knots"] = dict(error=err_class(e))
        if c["x2"] is not None:
            try:
                res2 = fn(shaped(c["x2"], c.get("x2shape", "vec"), c), _state=copy.deepcopy(st), **kw)
                k2, r2 = _cols_rows(res2, len(c["x2"]))
                out["second"] = dict(ncols=len(k2), rows=r2)
            except Exception as e:
                out["second"] = dict(error=err_class(e))
        return out


def impl_cs(c):
    out = _cs_call(c, _cs_kw(c))
    asc = _reordered(c)
    if asc is not None:
        out["ascending"] = _cs_call(c, _cs_kw(c, asc))
    return out


def impl_state(c):
    """cubic_spline on a state supplied by the caller"""
    st0 = c["state"]
    carr = None if st0["constraints"] is None else numpy.array([[fl(v) for v in row] for row in st0["constraints"]], dtype=float)
    st = dict(lower_bound=fl(st0["lower"]), upper_bound=fl(st0["upper"]), knots=[fl(k) for k in st0["knots"]],
              cyclic=st0["cyclic"], constraints=carr)
    kw = {} if "mode" in (c.get("omit") or []) else dict(extrapolation=c["mode"])
    with _CsRec() as h:
        try:
            res = h.CS.cubic_spline(shaped(c["x"], c.get("xshape", "vec")), _state=st, **kw)
        except Exception as e:
            return err_info(e)
        keys, rows = _cols_rows(res, len(c["x"]))
        rec = h.rec
        out = dict(
            first=dict(ncols=len(keys), keys=[int(k) for k in keys], rows=rows),
            F=None if "F" not in rec else [[ffs(v) for v in row] for row in rec["F"]],
            Q2=None if "Q2" not in rec else [[ffs(v) for v in col] for col in rec["Q2"].T],
            state_after=dict(lower=ffs(st["lower_bound"]), upper=ffs(st["upper_bound"]), knots=[ffs(k) for k in st["knots"]]),
        )
        if "Q2" in rec:
            q2 = rec["Q2"]
            out["orth"] = float(numpy.abs(q2.T @ q2 - numpy.eye(q2.shape[1])).max()) if q2.shape[1] else 0.0
        return out


def impl_helper(c):
    import formulaic.transforms.cubic_spline as CS

    try:
        if c["fn"] == "map_cyclic":
            r = CS._map_cyclic(store(c["x"], c.get("xdt")), fl(c["lb"]), fl(c["ub"]))
            return dict(out=[ffs(v) for v in r])
        if c["fn"] == "sorted_knots":
            r = CS._get_all_sorted_knots(
                arr(c["x"]), fl(c["lower"]), fl(c["upper"]), n_inner_knots=c["n_inner"],
                inner_knots=None if c["inner"] is None else numpy.array([fl(k) for k in c["inner"]], dtype=float))
            return dict(out=[ffs(v) for v in r])
        if c["fn"] == "base":
            ajm, ajp, cjm, cjp, j = CS._compute_base_functions(arr(c["x"]), arr(c["knots"]))
            return dict(out=[dict(ajm=ffs(a), ajp=ffs(b), cjm=ffs(u), cjp=ffs(v), j=int(k))
                             for a, b, u, v, k in zip(ajm, ajp, cjm, cjp, j)])
    except Exception as e:
        return err_info(e)
    raise RuntimeError("unknown helper " + c["fn"])


# ---- histories: several uses that share the caller's argument objects


class _CsHooks:
    """records every F (keyed by kind and knots) and every Q2 (keyed by the constraint matrix) computed inside"""

    def __enter__(self):
        import formulaic.transforms.cubic_spline as CS

        self.CS, self.F, self.Q2 = CS, {}, {}
        self.saved = (CS._get_natural_f, CS._get_cyclic_f, numpy.linalg.qr)
        o_nat, o_cyc, o_qr = self.saved

        def key(a):
            a = numpy.ascontiguousarray(numpy.asarray(a, dtype=float))
            return (a.shape, a.tobytes())

        self.key = key

        def nat(k):
            r = o_nat(k)
            self.F[(False, key(k))] = numpy.array(r)
            return r

        def cyc(k):
            r = o_cyc(k)
            self.F[(True, key(k))] = numpy.array(r)
            return r

        def qr(a, mode="reduced"):
            q, r = o_qr(a, mode=mode)
            self.Q2[key(numpy.transpose(a))] = numpy.array(q)[:, numpy.asarray(a).shape[1]:]
            return q, r

        CS._get_natural_f, CS._get_cyclic_f, numpy.linalg.qr = nat, cyc, qr
        return self

    def __exit__(self, *a):
        self.CS._get_natural_f, self.CS._get_cyclic_f, numpy.linalg.qr = self.saved


def _root_error(e):
    from formulaic.errors import FactorEvaluationError

    while isinstance(e, FactorEvaluationError) and e.__cause__ is not None:
        e = e.__cause__
    return err_class(e)


def _bs_pack(st, keys, rows):
    return dict(
        state=dict(lower=ffs(st["lower_bound"]), upper=ffs(st["upper_bound"]), knots=[ffs(k) for k in st["knots"]]),
        first=dict(cols=[int(k) for k in keys], rows=rows),
        second=None,
    )


def _cs_pack(st, keys, rows, hooks, kw):
    """same observables as impl_cs for one use whose recorded state is `st`"""
    CS = hooks.CS
    carr = st["constraints"]
    F = hooks.F.get((bool(st["cyclic"]), hooks.key(st["knots"])))
    Q2 = None if carr is None else hooks.Q2.get(hooks.key(numpy.atleast_2d(carr)))
    out = dict(
        state=dict(
            lower=ffs(st["lower_bound"]), upper=ffs(st["upper_bound"]), knots=[ffs(k) for k in st["knots"]],
            cyclic=bool(st["cyclic"]),
            constraints=None if carr is None else [[cell(v) for v in row] for row in numpy.atleast_2d(carr)],
        ),
        first=dict(ncols=len(keys), keys=[int(k) for k in keys], rows=rows),
        second=None,
        F=None if F is None else [[ffs(v) for v in row] for row in F],
        Q2=None if Q2 is None else [[ffs(v) for v in col] for col in Q2.T],
    )
    out["nan_params"] = bool(
        (F is not None and not numpy.isfinite(F).all()) or (Q2 is not None and not numpy.isfinite(Q2).all())
        or (carr is not None and not numpy.isfinite(numpy.asarray(carr, dtype=float)).all()))
    if Q2 is not None:
        out["orth"] = float(numpy.abs(Q2.T @ Q2 - numpy.eye(Q2.shape[1])).max()) if Q2.shape[1] else 0.0
    try:
        resk = CS.cubic_spline(numpy.array(st["knots"], dtype=float), _state=copy.deepcopy(st), **kw)
        out["at_knots"] = _cols_rows(resk, len(st["knots"]))[1]
    except Exception as e:
        out["at_knots"] = dict(error=err_class(e))
    return out


def _hist_term(c, var):
    a = c["args"]
    kn = "K_"
    if c["kcont"] == "literal":
        kn = "[" + ", ".join(repr(num(k, c)) for k in a["knots"]) + "]"
    if c["fam"] == "bs":
        return ("bs", f"bs({var}, df=DF_, knots={kn}, degree=D_, include_intercept=I_, lower_bound=L_, "
                      f"upper_bound=U_, extrapolation=M_)")
    fn = "cc" if a["cyclic"] else "cr"
    return fn, f"{fn}({var}, df=DF_, knots={kn}, lower_bound=L_, upper_bound=U_, constraints=C_, extrapolation=M_)"


def _term_block(mat, names, fn, var):
    import re

    prefix = f"{fn}({var},"
    idx = [i for i, nm in enumerate(names) if nm.startswith(prefix)]
    keys = [int(re.search(r"\[(\d+)\]$", names[i]).group(1)) for i in idx]
    vals = numpy.asarray(mat, dtype=float)
    rows = [[cell(vals[r, i]) for i in idx] for r in range(vals.shape[0])]
    return keys, rows


def impl_hist(c):
    import pandas

    a = c["args"]
    fam, entry = c["fam"], c["entry"]
    K = None
    if a["knots"] is not None:
        ks = [num(k, c) for k in a["knots"]]
        K = {"list": ks, "literal": ks, "tuple": tuple(ks),
             "ndarray": numpy.array(ks) if c.get("intargs") else numpy.array(ks, dtype=float)}[c["kcont"]]
    L = None if a["lower"] is None else num(a["lower"], c)
    U = None if a["upper"] is None else num(a["upper"], c)
    if fam == "bs":
        kw = dict(df=a["df"], knots=K, degree=a["degree"], include_intercept=a["intercept"], lower_bound=L,
                  upper_bound=U, extrapolation=a["mode"])
        ctx = dict(DF_=a["df"], K_=K, D_=a["degree"], I_=a["intercept"], L_=L, U_=U, M_=a["mode"])
    else:
        C = a["constraints"]
        if isinstance(C, list):
            C = numpy.array([[fl(v) for v in row] for row in C], dtype=float)
        kw = dict(df=a["df"], knots=K, lower_bound=L, upper_bound=U, constraints=C, cyclic=a["cyclic"],
                  extrapolation=a["mode"])
        ctx = dict(DF_=a["df"], K_=K, L_=L, U_=U, C_=C, M_=a["mode"])
    out = dict(uses=None, joint_first=None, joint_second=None)

    with _CsHooks() as hooks:
        if entry == "direct":
            from formulaic.transforms.basis_spline import basis_spline

            fn = basis_spline if fam == "bs" else hooks.CS.cubic_spline
            wrap = lambda v: store(v, c.get("xdt"), c["xcont"])
            res = []
            for u in c["uses"]:
                st = {}
                try:
                    r = fn(wrap(u["x"]), _state=st, **kw)
                except Exception as e:
                    res.append(dict(error=err_class(e)))
                    continue
                keys, rows = _cols_rows(r, len(u["x"]))
                o = _bs_pack(st, keys, rows) if fam == "bs" else _cs_pack(st, keys, rows, hooks, kw)
                if u["x2"] is not None:
                    try:
                        r2 = fn(wrap(u["x2"]), _state=copy.deepcopy(st), **kw)
                        k2, r2 = _cols_rows(r2, len(u["x2"]))
                        o["second"] = dict(cols=[int(k) for k in k2], rows=r2) if fam == "bs" else dict(ncols=len(k2), rows=r2)
                    except Exception as e:
                        o["second"] = dict(error=err_class(e))
                res.append(o)
            out["uses"] = res
        else:
            from formulaic import model_matrix

            nuses = len(c["uses"])
            if entry == "terms":
                groups = [list(range(nuses))]
            else:
                groups = [[i] for i in range(nuses)]
            res = [None] * nuses
            for g in groups:
                # "calls": the same formula text, variable name and context objects on every call
                var = (lambda i: f"x{i}") if entry == "terms" else (lambda i: "x0")
                terms = [_hist_term(c, var(i)) for i in g]
                formula = " + ".join(t for _, t in terms) + " - 1"
                data = pandas.DataFrame({var(i): store(c["uses"][i]["x"], c.get("xdt"), "series") for i in g})
                try:
                    mm = model_matrix(formula, data, context=ctx, na_action="ignore", ensure_full_rank=False)
                except Exception as e:
                    if len(g) == 1:
                        res[g[0]] = dict(error=_root_error(e))
                    else:
                        out["joint_first"] = _root_error(e)
                    continue
                ms = mm.model_spec
                names = list(ms.column_names)
                mm2 = None
                if c["uses"][g[0]]["x2"] is not None and all(c["uses"][i]["x2"] is not None for i in g):
                    data2 = pandas.DataFrame({var(i): store(c["uses"][i]["x2"], c.get("xdt"), "series") for i in g})
                    try:
                        mm2 = ms.get_model_matrix(data2, context=ctx)
                    except Exception as e:
                        mm2 = dict(error=_root_error(e))
                for i, (fname, _) in zip(g, terms):
                    prefix = f"{fname}({var(i)},"
                    sts = [v for k, v in ms.transform_state.items() if k.startswith(prefix)]
                    if len(sts) != 1:
                        raise RuntimeError(f"{len(sts)} recorded states for the term {prefix}...)")
                    st = sts[0]
                    keys, rows = _term_block(mm, names, fname, var(i))
                    o = _bs_pack(st, keys, rows) if fam == "bs" else _cs_pack(st, keys, rows, hooks, kw)
                    if isinstance(mm2, dict):
                        if len(g) == 1:
                            o["second"] = mm2
                        else:
                            out["joint_second"] = mm2["error"]
                    elif mm2 is not None:
                        k2, r2 = _term_block(mm2, list(mm2.model_spec.column_names), fname, var(i))
                        o["second"] = dict(cols=k2, rows=r2) if fam == "bs" else dict(ncols=len(k2), rows=r2)
                    res[i] = o
            out["uses"] = None if out["joint_first"] is not None else res
    # what the caller's knots object holds afterwards (diagnostic only)
    out["knots_after"] = None if K is None else [ffs(v) for v in K]
    return out


def impl(c):
    if c["kind"] == "hist":
        return impl_hist(c)
    if c["kind"] == "state":
        return impl_state(c)
    if c["kind"] == "helper":
        return impl_helper(c)
    return impl_bs(c) if c["kind"] == "bs" else impl_cs(c)


def _cons_req(cons):
    if cons is None:
        return None
    if isinstance(cons, str):
        return dict(str=cons)
    if isinstance(cons, dict):
        return dict(ndim=cons["ndim"], rows=cons["rows"])
    return dict(ndim=2, rows=cons)


def request(c, o):
    if c["kind"] == "hist":
        outs = o.get("uses") or [{}] * len(c["uses"])
        return dict(op="uses", uses=[request(s, u) for s, u in zip(subcases(c), outs)])
    if c["kind"] == "helper":
        return dict(c, op="helper")
    if c["kind"] == "state":
        return dict(op="cs_state", state=c["state"], x=c["x"], xshape=c.get("xshape", "vec"),
                    mode=None if "mode" in (c.get("omit") or []) else c["mode"],
                    F=o.get("F") or [], Q2=o.get("Q2") or [])
    omit = set(c.get("omit") or [])
    g = lambda k: None if k in omit else c[k]
    # the value of the quantile PARAMETER (the implementation's interior knots) is handed over only when the knots
    # come from `df` and the implementation recorded a state (otherwise `null`: the model uses its own exact
    # quantiles); explicit knots are prepared (sorted, de-duplicated, bounds added) by the model alone
    if c["kind"] == "bs":
        quant = None
        if "state" in o and c["knots"] is None:
            d = c["degree"]
            k = o["state"]["knots"]
            quant = k[d + 1: len(k) - d - 1]
        return dict(op="bs", via=c.get("via"), x=c["x"], df=g("df"), knots=g("knots"), degree=g("degree"),
                    intercept=g("intercept"), lower=g("lower"), upper=g("upper"), mode=g("mode"), quant=quant, x2=c["x2"])
    quant, F, Q2 = None, [], []
    if "state" in o:
        if c["knots"] is None:
            quant = o["state"]["knots"][1:-1]
        F = o.get("F") or []
        Q2 = o.get("Q2") or []
    return dict(op="cs", via=c.get("via"), xshape=c.get("xshape", "vec"), x2shape=c.get("x2shape", "vec"), x=c["x"],
                df=g("df"), knots=g("knots"), lower=g("lower"), upper=g("upper"), cons=_cons_req(g("constraints")),
                cyclic=g("cyclic"), mode=g("mode"), quant=quant, F=F, Q2=Q2, x2=c["x2"])


# ----------------------------------------------------------------------------- model vs implementation


def _cmp_rows(irows, mrows, what):
    if len(irows) != len(mrows):
        return f"{what}: {len(irows)} rows vs model {len(mrows)}"
    for r, (a, b) in enumerate(zip(irows, mrows)):
        if b is None:
            if any(v is not None for v in a):
                return f"{what} row {r}: model gives a null row, implementation {a}"
            continue
        if len(a) != len(b):
            return f"{what} row {r}: {len(a)} columns vs model {len(b)}"
        for j, (u, v) in enumerate(zip(a, b)):
            if u is None:
                return f"{what} row {r} col {j}: implementation NaN, model {float(Fraction(v))}"
            if not close(u, float(Fraction(v))):
                return f"{what} row {r} col {j}: implementation {u!r}, model {float(Fraction(v))!r}"
    return None


def _res_small(mat, what, scale=1.0):
    for row in mat or []:
        for v in row:
            if abs(float(Fraction(v))) > 1e-8 * scale:
                return f"contract {what} violated by the implementation's parameter: residual {float(Fraction(v)):.3e}"
    return None


def _cmp_F(o, m):
    """the matrix returned by `_get_natural_f` / `_get_cyclic_f` against the second-derivative map the model solves
    for exactly on the recorded knots (certified: B.F = D holds exactly for the model's F)"""
    fi, fm = o.get("F"), m.get("F")
    if fi is None:
        return None
    if not fm:
        return "the model's exact solver did not produce F for the recorded knots"
    if len(fi) != len(fm) or any(len(a) != len(b) for a, b in zip(fi, fm)):
        return f"F has shape {len(fi)}x{len(fi[0]) if fi else 0}, the model's {len(fm)}x{len(fm[0]) if fm else 0}"
    scale = max([1.0] + [abs(float(Fraction(v))) for row in fm for v in row])
    for i, (ra, rb) in enumerate(zip(fi, fm)):
        for j, (a, b) in enumerate(zip(ra, rb)):
            if abs(float(Fraction(a)) - float(Fraction(b))) > 1e-9 * scale:
                return (f"F[{i}][{j}] = {float(Fraction(a))!r} but the exact solution of the tridiagonal system on the "
                        f"recorded knots is {float(Fraction(b))!r}")
    return None


def _not_modelled(m):
    return str(m.get("error", "")).startswith("not-modelled")


def agree_hist(c, o, m):
    """every use of a history against the model's INDEPENDENT answer for that use (the model is a function of the
    arguments the user wrote and of that use's data: no use may see an earlier one)"""
    subs = subcases(c)
    ms = m.get("uses")
    if not isinstance(ms, list) or len(ms) != len(subs):
        return f"model answered {str(m)[:200]}"
    if o.get("joint_first") is not None:
        # one model_matrix call over all terms failed: some use must fail in the model with that error
        if any(mi.get("error") == o["joint_first"] or _not_modelled(mi) for mi in ms):
            return None
        return f"model_matrix over all terms raised {o['joint_first']}, the model fits every term"
    for i, (sc, oi, mi) in enumerate(zip(subs, o["uses"], ms)):
        if o.get("joint_second") is not None:
            sc, mi = dict(sc, x2=None), dict(mi, second=None)
        w = agree(sc, oi, mi)
        if w:
            return f"use #{i + 1} of {len(subs)} ({c['entry']}): {w}"
    if o.get("joint_second") is not None:
        if not any(_not_modelled(mi) or (mi.get("second") or {}).get("error") == o["joint_second"] for mi in ms):
            return f"get_model_matrix over all terms raised {o['joint_second']}, the model transforms every term"
    return None


def _cmp_exact_state(o, m):
    """the recorded bounds and knots against the state the model derives ALONE from the arguments and the data
    (explicit knots: sorted / de-duplicated exactly; `df`: the linear-interpolation quantiles of the sample computed
    on exact rationals) - knots within rounding of the float quantile computation, bounds exactly"""
    ex = m.get("exact")
    if not isinstance(ex, dict):
        return "the model gave no exact state"
    if "error" in ex:
        if str(ex["error"]).startswith("not-modelled"):
            return None
        return f"the model alone (exact quantile knots) fails with {ex['error']} ({ex.get('reason')}), the implementation records a state"
    for k in ("lower", "upper"):
        if Fraction(o["state"][k]) != Fraction(ex[k]):
            return f"state {k}: implementation {o['state'][k]} vs model {ex[k]}"
    got = [float(Fraction(v)) for v in o["state"]["knots"]]
    want = [float(Fraction(v)) for v in ex["knots"]]
    if len(got) != len(want) or any(not close(a, b) for a, b in zip(got, want)):
        return f"recorded knots {got} vs the knots the model places exactly {want}"
    return None


def agree_state(c, o, m):
    if "error" in o or "error" in m:
        return _cmp_reason(o, m) if o.get("error") == m.get("error") else \
            f"transform on the given state: implementation {o.get('error', 'ok')} vs model {m.get('error', 'ok')} ({m.get('reason')})"
    st = c["state"]
    for k in ("lower", "upper"):
        if Fraction(o["state_after"][k]) != Fraction(st[k]):
            return f"the call changed state[{k}_bound] to {o['state_after'][k]}"
    if [Fraction(v) for v in o["state_after"]["knots"]] != [Fraction(v) for v in st["knots"]]:
        return f"the call changed state['knots'] to {o['state_after']['knots']}"
    hs = [float(Fraction(b) - Fraction(a)) for a, b in zip(st["knots"], st["knots"][1:])]
    scale = max(1.0, max(1 / h for h in hs)) if hs and min(hs) > 0 else 1.0
    w = _cmp_F(o, m) or _res_small(m.get("resF"), "B.F = D", scale) or _res_small(m.get("resQ"), "c.Q2 = 0")
    if w:
        return w
    if o.get("orth", 0.0) > 1e-9:
        return f"contract Q2 orthonormal violated: {o['orth']:.3e}"
    if o["first"]["ncols"] != m["out"]["ncols"]:
        return f"{o['first']['ncols']} columns vs model {m['out']['ncols']}"
    return _cmp_rows(o["first"]["rows"], m["out"]["rows"], "rows")


def agree_helper(c, o, m):
    if "error" in o or "error" in m:
        return _cmp_reason(o, m) if o.get("error") == m.get("error") else \
            f"{c['fn']}: implementation {o.get('error', 'ok')} vs model {m.get('error', 'ok')} ({m.get('reason')})"
    a, b = o["out"], m["out"]
    if len(a) != len(b):
        return f"{c['fn']}: {len(a)} values vs model {len(b)}"
    if c["fn"] == "base":
        for i, (u, v) in enumerate(zip(a, b)):
            if "error" in v:
                return f"base functions at x[{i}]: model {v['error']}"
            if u["j"] != v["j"]:
                return f"base functions at x[{i}]={c['x'][i]}: interval index {u['j']} vs model {v['j']}"
            for k in ("ajm", "ajp", "cjm", "cjp"):
                if not close(float(Fraction(u[k])), float(Fraction(v[k]))):
                    return f"base functions at x[{i}]={c['x'][i]}: {k} = {float(Fraction(u[k]))!r} vs model {float(Fraction(v[k]))!r}"
        return None
    for i, (u, v) in enumerate(zip(a, b)):
        if not close(float(Fraction(u)), float(Fraction(v))):
            return f"{c['fn']}: value {i} is {float(Fraction(u))!r}, model {float(Fraction(v))!r}"
    return None


def agree(c, o, m):
    if "driver_error" in m:
        return "driver: " + m["driver_error"][:300]
    if "harness_exception" in o:
        return "harness: " + o["harness_exception"]
    if c["kind"] == "hist":
        return agree_hist(c, o, m)
    if str(m.get("error", "")).startswith("not-modelled"):
        return None
    if c["kind"] == "state":
        return agree_state(c, o, m)
    if c["kind"] == "helper":
        return agree_helper(c, o, m)
    if "error" in o or "error" in m:
        return _cmp_reason(o, m) if o.get("error") == m.get("error") else \
            f"fit: implementation {o.get('error', 'ok')} vs model {m.get('error', 'ok')} ({m.get('reason')})"
    if o.get("nan_params"):
        return "the implementation's F / Q2 / recorded constraints contain NaN"
    for k in ("lower", "upper"):
        if Fraction(o["state"][k]) != Fraction(m["state"][k]):
            return f"state {k}: implementation {o['state'][k]} vs model {m['state'][k]}"
    if [Fraction(v) for v in o["state"]["knots"]] != [Fraction(v) for v in m["state"]["knots"]]:
        return f"state knots: implementation {o['state']['knots']} vs model {m['state']['knots']}"
    w = _cmp_exact_state(o, m)
    if w:
        return w
    if c["kind"] == "bs":
        if o["first"]["cols"] != m["first"]["cols"]:
            return f"columns {o['first']['cols']} vs model {m['first']['cols']}"
        w = _cmp_rows(o["first"]["rows"], m["first"]["rows"], "first call")
        if w:
            return w
    else:
        hs = [float(Fraction(b) - Fraction(a)) for a, b in zip(o["state"]["knots"], o["state"]["knots"][1:])]
        scale = max(1.0, max(1 / h for h in hs)) if hs and min(hs) > 0 else 1.0
        w = _cmp_F(o, m) or _res_small(m.get("resF"), "B.F = D", scale)
        if w:
            return w
        w = _res_small(m.get("resQ"), "c.Q2 = 0")
        if w:
            return w
        if o.get("orth", 0.0) > 1e-9:
            return f"contract Q2 orthonormal violated: {o['orth']:.3e}"
        ic, mc = o["state"]["constraints"], m["state"]["constraints"]
        if (ic is None) != (mc is None):
            return "state constraints: one side has none"
        if ic is not None:
            w = _cmp_rows(ic, mc, "state constraints")
            if w:
                return w
        if o["first"]["ncols"] != m["first"]["ncols"]:
            return f"{o['first']['ncols']} columns vs model {m['first']['ncols']}"
        w = _cmp_rows(o["first"]["rows"], m["first"]["rows"], "first call")
        if w:
            return w
    so, sm = o.get("second"), m.get("second")
    if (so is None) != (sm is None):
        return "second call: present on one side only"
    if so is not None:
        if "error" in so or "error" in sm:
            return None if so.get("error") == sm.get("error") else f"second call: implementation {so.get('error', 'ok')} vs model {sm.get('error', 'ok')}"
        w = _cmp_rows(so["rows"], sm["rows"], "second call")
        if w:
            return w
    return None


# ----------------------------------------------------------------------------- oracle (implementation only)


def cdb_row(t, d, x, piece=None):
    """Independent textbook Cox-de Boor: all B_{i,d}(x) on the non-decreasing knot vector t (Fractions).
    Terms with a zero denominator are dropped; x at the right end belongs to the last non-empty interval.
    piece=j forces the polynomial piece of interval j (used for the extension)."""
    n = len(t)
    if piece is None:
        if x == t[-1]:
            ne = [i for i in range(n - 1) if t[i] < t[i + 1]]
            piece = ne[-1] if ne else None
        else:
            piece = next((i for i in range(n - 1) if t[i] <= x < t[i + 1]), None)
    N = [Fraction(int(i == piece)) for i in range(n - 1)]
    for k in range(1, d + 1):
        new = []
        for i in range(n - k - 1):
            a = (x - t[i]) / (t[i + k] - t[i]) * N[i] if t[i + k] != t[i] else 0
            b = (t[i + k + 1] - x) / (t[i + k + 1] - t[i + 1]) * N[i + 1] if t[i + k + 1] != t[i + 1] else 0
            new.append(a + b)
        N = new
    return N


def _bs_expected_error(c):
    """None = must succeed, 'ValueError' = must raise, '?' = the property does not say"""
    vals = [Fraction(v) for v in c["x"] if v is not None]
    if c["mode"] not in MODES or c["degree"] < 0 or not vals:
        return "?"  # not a documented mode / degree, no data: argument validation, outside the property
    lo = Fraction(c["lower"]) if c["lower"] is not None else min(vals)
    hi = Fraction(c["upper"]) if c["upper"] is not None else max(vals)
    if c["df"] is not None and c["knots"] is not None:
        return "ValueError"
    if c["mode"] == "raise" and any(v < lo or v > hi for v in vals):
        return "ValueError"
    if c["df"] is not None:
        if c["df"] - c["degree"] - (1 if c["intercept"] else 0) < 0:
            return "ValueError"
        if c["mode"] in ("clip", "na", "zero") and not any(lo <= v <= hi for v in vals):
            return "ValueError"
    if lo > hi:
        return "?"
    return None


def _knots_ok(lo, hi, interior):
    return lo <= hi and all(lo <= k <= hi for k in interior) and all(a <= b for a, b in zip(interior, interior[1:]))


def _oracle_bs_rows(c, st, xs, out, which, t_ref=None):
    """t_ref: the knot vector the arguments denote (explicit knots: bounds padded around the knots in ascending
    order, whatever the transform recorded); default: the recorded knot vector"""
    d, icpt, mode = c["degree"], c["intercept"], c["mode"]
    lo, hi = Fraction(st["lower"]), Fraction(st["upper"])
    t = [Fraction(v) for v in st["knots"]] if t_ref is None else t_ref
    interior = t[d + 1: len(t) - d - 1]
    if "error" in out:
        outside = any(v is not None and (Fraction(v) < lo or Fraction(v) > hi) for v in xs)
        if mode == "raise" and outside:
            return None
        return f"{which}: raised {out['error']} although extrapolation={mode} and " + (
            "no value is outside the bounds" if not outside else "the mode documents no error")
    if mode == "raise" and any(v is not None and (Fraction(v) < lo or Fraction(v) > hi) for v in xs):
        return f"{which}: extrapolation='raise' did not raise although a value lies outside [{float(lo)}, {float(hi)}]"
    ncols = len(t) - d - 1 - (0 if icpt else 1)
    if len(out["cols"]) != ncols:
        return f"{which}: {len(out['cols'])} columns, the knot vector has {ncols} basis functions" + ("" if icpt else " besides the dropped first")
    if c["df"] is not None and len(out["cols"]) != c["df"]:
        return f"{which}: {len(out['cols'])} columns but df={c['df']}"
    ok = _knots_ok(lo, hi, interior)
    nondeg = [i for i in range(len(t) - 1) if t[i] < t[i + 1]]
    for r, (xv, row) in enumerate(zip(xs, out["rows"])):
        if xv is None:
            if any(v is not None for v in row):
                return f"{which} row {r}: null input but the output row is {row} (a null must stay a null row)"
            continue
        x = Fraction(xv)
        inside = lo <= x <= hi
        if not inside:
            if mode == "na":
                if any(v is not None for v in row):
                    return f"{which} row {r}: x={float(x)} is outside the bounds, extrapolation='na' documents NaN, got {row}"
                continue
            if mode == "zero":
                if ok and any(v is None or abs(v) > 1e-12 for v in row):
                    return f"{which} row {r}: x={float(x)} is outside the bounds, extrapolation='zero' documents 0, got {row}"
                continue
        if any(v is None for v in row):
            return f"{which} row {r}: x={float(x)} gives NaN {row}"
        if not ok or not nondeg:
            continue  # knot vector not admissible (malformed stream): no value claims
        if inside or mode == "clip":
            xe = min(max(x, lo), hi)
            kind = "the B-spline design matrix" if inside else "the basis at the clipped value"
            if any(v < -1e-12 for v in row):
                return f"{which} row {r}: negative entry at x={float(x)}: {row}"
            if icpt and not close(sum(row), 1.0):
                return f"{which} row {r}: row sums to {sum(row)!r} at x={float(x)} (inside the bounds)"
            if xe == hi and hi in interior:
                # an interior knot equal to the upper bound makes the closed last interval [t_{r-1}, t_r] empty: which
                # column carries the 1 at exactly x = upper is a convention (R's `lastLegit` picks the same interval);
                # the property's value claims there are non-negativity and the row sum, checked above
                continue
            full = cdb_row(t, d, xe)
        elif mode == "extend":
            full = cdb_row(t, d, x, piece=nondeg[0] if x < lo else nondeg[-1])
            kind = "the polynomial extension of the boundary piece"
            if icpt and abs(sum(row) - 1.0) > TOL * max(1.0, sum(abs(v) for v in row)):
                return f"{which} row {r}: extended row sums to {sum(row)!r} at x={float(x)}"
        else:
            continue
        want = [float(v) for v in (full if icpt else full[1:])]
        for j, (u, v) in enumerate(zip(row, want)):
            if not close(u, v):
                return f"{which} row {r} col {out['cols'][j]}: {u!r} but {kind} on the recorded knots gives {v!r} at x={float(x)}"
    return None


def oracle_bs(c, o):
    exp = _bs_expected_error(c)
    if "error" in o:
        if exp is None:
            return f"basis_spline raised {o['error']} on valid arguments"
        return None
    if exp == "ValueError":
        if c["df"] is not None and c["knots"] is None and len(o["first"]["cols"]) != c["df"]:
            # "has df columns": a df that no knot vector of this degree can deliver must not be answered with a
            # basis of another size (every other such df is refused)
            return (f"df={c['df']} with degree={c['degree']}, include_intercept={c['intercept']}: returned "
                    f"{len(o['first']['cols'])} columns (the transform has df columns, or refuses the df)")
        if c["mode"] == "raise" and not (c["df"] is not None and c["knots"] is not None):
            return "extrapolation='raise' did not raise although a value lies outside the bounds"
        return None  # argument validation is not part of the property
    if c["mode"] not in MODES or c["degree"] < 0:
        return None
    st = o["state"]
    d = c["degree"]
    t = [Fraction(v) for v in st["knots"]]
    lo, hi = Fraction(st["lower"]), Fraction(st["upper"])
    if len(t) < 2 * d + 2 or t[: d + 1] != [lo] * (d + 1) or t[len(t) - d - 1:] != [hi] * (d + 1):
        return f"recorded knot vector {list(map(float, t))} is not padded with degree+1 copies of the bounds"
    interior = t[d + 1: len(t) - d - 1]
    if c["df"] is not None and c["mode"] != "extend":
        vals = [Fraction(v) for v in c["x"] if v is not None and lo <= Fraction(v) <= hi]
        want = quantiles(vals, len(interior)) if vals else []
        if len(want) != len(interior) or any(not close(float(a), float(b)) for a, b in zip(interior, want)):
            return f"interior knots {list(map(float, interior))} are not the equally spaced quantiles {list(map(float, want))} of the in-range data"
    t_ref = None
    if c["df"] is None and c["knots"] is not None:
        # the basis the arguments denote: on the bounds padded around the given knots in ascending order
        t_ref = [lo] * (d + 1) + sorted(Fraction(k) for k in c["knots"]) + [hi] * (d + 1)
    w = _oracle_bs_rows(c, st, c["x"], o["first"], "first call", t_ref)
    if w:
        return w
    if o.get("second") is not None:
        w = _oracle_bs_rows(c, st, c["x2"], o["second"], "second call", t_ref)
        if w:
            return w
    if t_ref is not None and t != t_ref:
        return (f"recorded interior knots {list(map(float, interior))} are not the knots that were passed "
                f"{[float(Fraction(k)) for k in c['knots']]} in ascending order")
    return _same_as_ascending(c, o)


def _same_as_ascending(c, o):
    """the basis is a function of the SET of breakpoints (bs: of the multiset): the same knots listed in ascending
    order must record the same state and give the same values"""
    ref = o.get("ascending")
    if ref is None:
        return None
    ks = [float(Fraction(k)) for k in c["knots"]]
    if "error" in ref:
        return f"knots={ks} succeeds but the same knots listed in ascending order raise {ref['error']}"
    if ref["state"] != o["state"]:
        return (f"knots={ks}: recorded state {o['state']} differs from the state recorded for the same knots listed "
                f"in ascending order {ref['state']}")
    for part in ("first", "second"):
        a, b = o.get(part), ref.get(part)
        if a != b:
            return f"knots={ks}: the {part} call's values depend on the order in which the knots are listed"
    return None


def _ref_basis(knots, cyclic):
    """cardinal basis of the natural / periodic interpolating cubic spline through `knots` (SciPy)"""
    from scipy.interpolate import CubicSpline

    k = numpy.array(knots, dtype=float)
    n = len(k) - (1 if cyclic else 0)
    sps = []
    for col in range(n):
        y = numpy.zeros(len(k))
        y[col] = 1.0
        if cyclic and col == 0:
            y[-1] = 1.0
        if len(k) == 2:
            sps.append(None)  # two knots: the straight line (natural) / the constant (periodic)
        else:
            sps.append(CubicSpline(k, y, bc_type="periodic" if cyclic else "natural"))

    def ev(x):
        lo, hi = k[0], k[-1]
        if cyclic:
            if x > hi:
                x = lo + (x - hi) % (hi - lo)
            elif x < lo:
                x = hi - (lo - x) % (hi - lo)
        out = []
        for col, sp in enumerate(sps):
            if sp is None:
                if cyclic:
                    out.append(1.0)
                else:
                    w = (x - lo) / (hi - lo)
                    out.append(1 - w if col == 0 else w)
            elif not cyclic and x < lo:
                out.append(float(sp(lo) + sp(lo, 1) * (x - lo)))
            elif not cyclic and x > hi:
                out.append(float(sp(hi) + sp(hi, 1) * (x - hi)))
            else:
                out.append(float(sp(x)))
        return numpy.array(out)

    return ev, n


def _oracle_cs_rows(c, o, xs, out, which, ev, Q2):
    lo, hi = float(Fraction(o["state"]["lower"])), float(Fraction(o["state"]["upper"]))
    mode = c["mode"]
    outside = any(v is not None and (fl(v) < lo or fl(v) > hi) for v in xs)
    if "error" in out:
        if mode == "raise" and outside:
            return None
        return f"{which}: raised {out['error']} with extrapolation={mode}"
    if mode == "raise" and outside:
        return f"{which}: extrapolation='raise' did not raise although a value lies outside the bounds"
    for r, (xv, row) in enumerate(zip(xs, out["rows"])):
        if xv is None:
            if any(v is not None for v in row):
                return f"{which} row {r}: null input but output {row}"
            continue
        x = fl(xv)
        inside = lo <= x <= hi
        if not inside and mode == "na":
            if any(v is not None for v in row):
                return f"{which} row {r}: x={x} outside the bounds with extrapolation='na' gives {row}"
            continue
        if any(v is None for v in row):
            return f"{which} row {r}: x={x} gives NaN {row}"
        if not inside and mode == "zero":
            if any(abs(v) > 1e-12 for v in row):
                return f"{which} row {r}: x={x} outside the bounds with extrapolation='zero' gives {row}"
            continue
        xe = min(max(x, lo), hi) if mode == "clip" else x
        want = ev(xe)
        if Q2 is not None:
            want = want @ Q2
        if len(want) != len(row):
            return f"{which} row {r}: {len(row)} columns, expected {len(want)}"
        for j, (u, v) in enumerate(zip(row, want)):
            if abs(u - v) > 1e-7 * max(1.0, abs(v)):
                return (f"{which} row {r} col {j + 1}: {u!r} but the {'periodic' if c['cyclic'] else 'natural'} interpolating "
                        f"cubic spline basis through the recorded knots gives {float(v)!r} at x={x}")
    return None


def _cs_must_succeed(c):
    """True only in clear-cut cases: valid arguments for which the recorded knots are fully determined"""
    vals = [Fraction(v) for v in c["x"] if v is not None]
    cons = c["constraints"]
    if c["mode"] not in MODES or not vals or c.get("xshape", "vec") in ("mat", "cube"):
        return False
    if isinstance(cons, str) and cons != "center":
        return False
    if isinstance(cons, dict):
        if cons["ndim"] > 2:
            return False
        cons = cons["rows"]
    lo = Fraction(c["lower"]) if c["lower"] is not None else min(vals)
    hi = Fraction(c["upper"]) if c["upper"] is not None else max(vals)
    if lo >= hi or (c["df"] is not None and c["knots"] is not None) or (c["df"] is None and c["knots"] is None):
        return False
    if c["mode"] == "raise" and any(v < lo or v > hi for v in vals):
        return False
    nc = 0 if cons is None else 1
    if c["df"] is not None:
        if c["df"] < (2 if (not c["cyclic"] and nc == 0) else 1):
            return False
        if c["df"] - 2 + nc + (1 if c["cyclic"] else 0) != 0:
            return False  # quantile knots may collide; the outcome depends on the data
        nk = 2
    else:
        ks = [Fraction(k) for k in c["knots"]]
        if any(k <= lo or k >= hi for k in ks):
            return False
        nk = len(set(ks)) + 2
    ncols = nk - (1 if c["cyclic"] else 0)
    if isinstance(cons, list) and any(len(r) != ncols for r in cons):
        return False
    if cons == "center" and c["mode"] in ("na",) and not any(lo <= v <= hi for v in vals):
        return False
    if ncols - nc < 0:
        return False
    return True


def oracle_cs(c, o):
    if "error" in o:
        if _cs_must_succeed(c):
            return f"cubic_spline raised {o['error']} on valid arguments (df/knots are in the documented range)"
        return None  # argument validation / too few distinct values: not part of the property
    if c["mode"] not in MODES or c.get("xshape", "vec") in ("mat", "cube"):
        return None  # not a documented mode / not a vector: nothing is claimed about such a call
    knots = [float(Fraction(v)) for v in o["state"]["knots"]]
    if any(b <= a for a, b in zip(knots, knots[1:])) or len(knots) < 2:
        return f"recorded knots {knots} are not strictly increasing"
    if c["knots"] is not None:
        want = sorted(set([Fraction(k) for k in c["knots"]] + [Fraction(o["state"]["lower"]), Fraction(o["state"]["upper"])]))
        if [Fraction(v) for v in o["state"]["knots"]] != want:
            return (f"recorded knots {knots} are not the distinct knots that were passed "
                    f"{[float(Fraction(k)) for k in c['knots']]} together with the bounds, in ascending order")
    ev, n = _ref_basis(knots, c["cyclic"])
    Q2 = None
    if o["state"]["constraints"] is not None:
        Q2 = numpy.array([[float(Fraction(v)) for v in col] for col in o["Q2"]]).T.reshape((n, len(o["Q2"])))
        if o.get("nan_params"):
            lo, hi = float(Fraction(o["state"]["lower"])), float(Fraction(o["state"]["upper"]))
            usable = [v for v in c["x"] if v is not None and (c["mode"] != "na" or lo <= fl(v) <= hi)]
            if not usable:
                return None  # no non-null training row at all: nothing to centre, nothing claimed
            return "the recorded constraints / Q2 contain NaN (every output value is NaN)"
    ncols = n if Q2 is None else Q2.shape[1]
    if o["first"]["ncols"] != ncols:
        return f"{o['first']['ncols']} columns, expected {ncols}"
    if c["df"] is not None and o["first"]["ncols"] != c["df"]:
        return f"{o['first']['ncols']} columns but df={c['df']}"
    if o["first"]["keys"] != list(range(1, ncols + 1)):
        return f"column keys {o['first']['keys']}"
    # identity at the knots (free basis) / rows of Q2 (constrained)
    ak = o.get("at_knots")
    if isinstance(ak, dict):
        return f"evaluating at the recorded knots raised {ak['error']}"
    eye = numpy.eye(n)
    for k, row in enumerate(ak):
        e = eye[0 if (c["cyclic"] and k == len(knots) - 1) else k]
        want = e if Q2 is None else e @ Q2
        if any(v is None for v in row) or (len(want) and numpy.abs(numpy.array(row) - want).max() > 1e-9):
            return f"at knot {k} (x={knots[k]}) the row is {row}, the cardinal basis requires {want.tolist()}"
    w = _oracle_cs_rows(c, o, c["x"], o["first"], "first call", ev, Q2)
    if w:
        return w
    if c["constraints"] == "center":
        rows = [r for r in o["first"]["rows"] if not any(v is None for v in r)]
        if not rows:
            return "centering constraint: every training row is NaN"
        means = numpy.array(rows).mean(axis=0)
        if means.size and numpy.abs(means).max() > 1e-9:
            return f"centering constraint: column means on the training data are {means.tolist()}"
    if o.get("second") is not None:
        w = _oracle_cs_rows(c, o, c["x2"], o["second"], "second call", ev, Q2)
        if w:
            return w
    return _same_as_ascending(c, o)


def oracle_state(c, o):
    """cubic_spline on a state the caller supplies: the values are those of the cardinal basis through the state's
    knots (absorbed through Q2 when the state holds constraints), under the requested extrapolation mode"""
    st = c["state"]
    ks = [Fraction(k) for k in st["knots"]]
    valid = len(ks) >= 2 and all(a < b for a, b in zip(ks, ks[1:]))
    if not valid or c["mode"] not in MODES or c.get("xshape", "vec") in ("mat", "cube"):
        return None  # nothing is claimed for such a call
    knots = [float(k) for k in ks]
    ev, n = _ref_basis(knots, st["cyclic"])
    shim_c = dict(mode=c["mode"], cyclic=st["cyclic"])
    shim_o = dict(state=dict(lower=st["lower"], upper=st["upper"]))
    Q2 = None
    if "error" not in o and st["constraints"] is not None:
        Q2 = numpy.array([[float(Fraction(v)) for v in col] for col in (o.get("Q2") or [])]).T.reshape((n, len(o.get("Q2") or [])))
    out = o if "error" in o else dict(rows=o["first"]["rows"])
    return _oracle_cs_rows(shim_c, shim_o, c["x"], out, "given state", ev, Q2)


def oracle_helper(c, o):
    fn = c["fn"]
    if fn == "map_cyclic":
        lb, ub = Fraction(c["lb"]), Fraction(c["ub"])
        if lb >= ub:
            return None
        if "error" in o:
            return f"_map_cyclic raised {o['error']} for the interval [{float(lb)}, {float(ub)}]"
        for xv, yv in zip(c["x"], o["out"]):
            x, y = Fraction(xv), Fraction(yv)
            if not (lb <= y <= ub):
                return f"_map_cyclic({float(x)}) = {float(y)} is outside [{float(lb)}, {float(ub)}]"
            if lb <= x <= ub and y != x:
                return f"_map_cyclic moved the in-range value {float(x)} to {float(y)}"
            k = (y - x) / (ub - lb)
            if k.denominator != 1:
                return f"_map_cyclic({float(x)}) = {float(y)} is not a shift by a whole number of periods"
        return None
    if fn == "sorted_knots":
        if "error" in o:
            return None
        got = [Fraction(v) for v in o["out"]]
        lo, hi = Fraction(c["lower"]), Fraction(c["upper"])
        if any(b <= a for a, b in zip(got, got[1:])) or len(got) < 2 or got[0] != lo or got[-1] != hi:
            return f"_get_all_sorted_knots returned {list(map(float, got))}: not strictly increasing from the lower to the upper bound"
        if c["inner"] is not None:
            want = sorted(set([Fraction(k) for k in c["inner"]] + [lo, hi]))
            if got != want:
                return f"_get_all_sorted_knots returned {list(map(float, got))}, the distinct given knots and bounds are {list(map(float, want))}"
        else:
            sample = sorted(set(Fraction(v) for v in c["x"] if v is not None and lo <= Fraction(v) <= hi))
            want = quantiles(sample, len(got) - 2) if sample else []
            if len(got) - 2 != c["n_inner"] or len(want) != len(got) - 2 or any(not close(float(a), float(b)) for a, b in zip(got[1:-1], want)):
                return f"inner knots {list(map(float, got[1:-1]))} are not the {c['n_inner']} equally spaced percentiles {list(map(float, want))}"
        return None
    if fn == "base":
        if "error" in o:
            return f"_compute_base_functions raised {o['error']} on ascending knots"
        ks = [Fraction(k) for k in c["knots"]]
        for xv, b in zip(c["x"], o["out"]):
            x, j = Fraction(xv), b["j"]
            if not (0 <= j <= len(ks) - 2):
                return f"interval index {j} for x={float(x)} is outside 0..{len(ks) - 2}"
            if ks[0] < x <= ks[-1] and not (ks[j] < x <= ks[j + 1]):
                return f"x={float(x)} is not in (knots[{j}], knots[{j + 1}]]"
            if x <= ks[0] and j != 0 or x > ks[-1] and j != len(ks) - 2:
                return f"x={float(x)} outside the knots got interval index {j}"
            if not close(float(Fraction(b["ajm"]) + Fraction(b["ajp"])), 1.0):
                return f"a-(x) + a+(x) = {float(Fraction(b['ajm']) + Fraction(b['ajp']))!r} at x={float(x)}"
        return None
    return None


def _second_may_raise(sc, oi):
    """extrapolation='raise' and a value of the new data outside the recorded bounds"""
    if sc["mode"] != "raise" or sc["x2"] is None or "state" not in oi:
        return False
    lo, hi = Fraction(oi["state"]["lower"]), Fraction(oi["state"]["upper"])
    return any(v is not None and (Fraction(v) < lo or Fraction(v) > hi) for v in sc["x2"])


def oracle_hist(c, o):
    """The property holds for EVERY use of the transform on the arguments the user wrote: each use of a history is
    judged by the single-use oracle against the user's knots / df / bounds, whatever was used before it with the
    same argument objects."""
    subs = subcases(c)
    one = oracle_bs if c["fam"] == "bs" else oracle_cs
    n = len(subs)
    if o.get("joint_first") is not None:
        if c["fam"] == "bs":
            must = all(_bs_expected_error(sc) is None for sc in subs)
        else:
            must = all(_cs_must_succeed(sc) for sc in subs)
        if must:
            return (f"model_matrix with {n} {c['fam']} terms sharing their arguments raised {o['joint_first']} although "
                    f"every term has valid arguments")
        return None
    fails = []
    for i, (sc, oi) in enumerate(zip(subs, o["uses"])):
        if o.get("joint_second") is not None:
            sc = dict(sc, x2=None)
        w = one(sc, oi)
        if w:
            fails.append((classify(sc, oi, w) is not None, i, w))
    if fails:
        # report a use that is not an already known finding, if there is one
        _, i, w = min(fails)
        extra = ""
        if c["kcont"] not in (None, "literal") and o.get("knots_after") is not None and \
                [Fraction(v) for v in o["knots_after"]] != [Fraction(k) for k in c["args"]["knots"]]:
            extra = (f"; the caller's knots {c['kcont']} now holds "
                     f"{[float(Fraction(v)) for v in o['knots_after']]}")
        return (f"use #{i + 1} of {n} ({c['entry']}, knots given as {c['kcont']}, same argument objects in "
                f"every use): {w}{extra}")
    if o.get("joint_second") is not None and not any(_second_may_raise(sc, oi) for sc, oi in zip(subs, o["uses"])):
        return (f"get_model_matrix on new data raised {o['joint_second']} although no term has extrapolation='raise' "
                f"with a value outside its recorded bounds")
    return None


def oracle(c, o):
    if "harness_exception" in o:
        return "harness could not run the implementation: " + o["harness_exception"]
    if c["kind"] == "hist":
        return oracle_hist(c, o)
    if c["kind"] == "state":
        return oracle_state(c, o)
    if c["kind"] == "helper":
        return oracle_helper(c, o)
    return oracle_bs(c, o) if c["kind"] == "bs" else oracle_cs(c, o)


def classify(c, o, why):
    """known finding C12-F1: bs, extrapolation='extend', an interior knot coincides with a bound and a value
    lies strictly beyond that bound: the row is the boundary row, not the polynomial extension."""
    if c["kind"] == "hist":
        # a history hits a known finding only if every failing use does; judge the uses one by one
        if not isinstance(o.get("uses"), list):
            return None
        one = oracle_bs if c["fam"] == "bs" else oracle_cs
        ids = set()
        for sc, oi in zip(subcases(c), o["uses"]):
            if o.get("joint_second") is not None:
                sc = dict(sc, x2=None)
            w = one(sc, oi)
            if w:
                ids.add(classify(sc, oi, w))
        return ids.pop() if len(ids) == 1 else None
    if c["kind"] != "bs" or c["mode"] != "extend" or "state" not in o or "polynomial extension" not in str(why) and "extended row" not in str(why):
        return None
    d = c["degree"]
    t = [Fraction(v) for v in o["state"]["knots"]]
    lo, hi = t[0], t[-1]
    interior = t[d + 1: len(t) - d - 1]
    xs = [Fraction(v) for v in (c["x"] + (c["x2"] or [])) if v is not None]
    if (lo in interior and any(x < lo for x in xs)) or (hi in interior and any(x > hi for x in xs)):
        return "C12-F1"
    return None


LEVEL_TEXT = (
    "Proof: Lean theorems (Props/C12.lean, 51 obligations) show for EVERY knot list, degree and x that the model of basis_spline's "
    "two-buffer sweep computes the Cox-de Boor recursion; for every degree and every non-decreasing interior knot list inside the "
    "bounds (any multiplicity) that the basis is non-negative, locally supported and sums to one on the closed interval [lower, "
    "upper]; that a successful call with df=k has exactly k columns (bs and cr/cc); what each of the five extrapolation modes "
    "returns and that nulls stay null rows; for the cubic regression splines that the free design matrix at knot k is the unit row "
    "e_k for ANY second-derivative map F; that under the contract B.F = D every column is, on each closed knot interval, the cubic "
    "piece computed by the model, that these pieces interpolate the unit vector, are C2 (first-derivative continuity at a knot being "
    "EQUIVALENT to that knot's tridiagonal equation), satisfy the natural end conditions / periodic wrap and continue as the "
    "tangent line outside the knots; derivatives are Polynomial.derivative / HasDerivAt.  NEW: uniqueness and existence - the "
    "tridiagonal systems are strictly diagonally dominant, so for every strictly increasing knot vector exactly one F satisfies the "
    "contract (cr/cc_F_exists_unique), it is what the model's exact solver returns (solveF_is_the_solution), and ANY family of "
    "cubic polynomials with the defining conditions of the natural / periodic interpolating spline of e_c coincides with the "
    "model's column (cr/cc_interpolant_unique): the columns are THE cardinal splines.  NEW: the entry points - the call as written "
    "(array shape of x, extrapolation string, constraints of any form, omitted arguments, aliases) is modelled with one reason per "
    "raise statement and proved to refine the numerical model (cs/bs_entry_refines_fit); which calls are rejected and what an "
    "accepted call guarantees (cs_rejects, cs_accepted_knots: strictly increasing knots, at least two, = the distinct values among "
    "bounds and the user's list); which exits of _get_all_sorted_knots / _map_cyclic cannot be taken through cubic_spline "
    "(cs_unreachable_exits) and that the numerical part cannot fail on an admissible state (cs_numeric_part_total); explicit knots "
    "may be listed in any order (cr/cc: with repeats) without changing state or values (cs/bs_explicit_knots_order_irrelevant); the "
    "quantile knots (linear interpolation of order statistics, computed by the model on exact rationals) are m in number, sorted "
    "and inside the sample range, make the recorded bs knot vector admissible (bs_df_knots_admissible) and never collide for cr/cc "
    "when the in-range data hold two distinct values (cs_df_knots_never_collide); the generated tables (modes, defaults, aliases) "
    "are the documented ones (spline_tables_documented).  Centering: absorbing the constraint gives exactly zero column means "
    "whenever Q2 is orthogonal to it.  The models are tied to the code by a differential correspondence on every run that "
    "executes every line and branch of basis_spline.py and cubic_spline.py; only QR enters as a parameter whose contract is checked "
    "per case.  That the code is a function of the arguments the user wrote at every use - also when the same knots / constraints "
    "objects are handed to several terms, several model_matrix calls or repeated direct calls - is checked by the history stream."
)
LEVEL_NOTE = (
    "Partial: numpy.linalg.qr is a parameter (contract checked per case, not proved); the float quantile knots and the float F "
    "of the implementation are compared with the model's exact ones at 1e-9 (float rounding is not modelled), so the exact "
    "contract B.F = D of the interpolation theorems holds for the MODEL's F and for the implementation's F only up to that "
    "tolerance; that the model's exact elimination never fails on strictly increasing knots is observed per case, not proved "
    "(existence of F is proved abstractly); bs with df and extrapolation='extend' and bounds narrower than the data takes the "
    "quantiles of all the data (knots may leave the bounds: the value theorems then do not apply and the oracle makes no value "
    "claim there)."
)
