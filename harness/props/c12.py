"""C12 — Spline transforms reproduce the mathematical bases they name.

Correspondence stream `c12` (two request kinds):
  op=bs  the real `basis_spline(x, …, _state={})` (+ a second call that re-uses the recorded state on new
         data) against `Model.BSpline.fit/transform`; the model receives the implementation's interior
         knots as the value of the quantile PARAMETER and re-derives bounds, knot vector, columns and every
         row exactly in `Rat`;
  op=cs  the real `cubic_spline(…)` (natural and cyclic, constraints none/'center'/explicit) against
         `Model.CubicSpline.fit/transform`; parameters handed over: quantile knots, the matrix F returned by
         `_get_natural_f/_get_cyclic_f`, the columns of Q2 from `numpy.linalg.qr`.
  op=uses  a HISTORY of 1-3 uses of one transform that are all handed the SAME argument objects by the caller
         (knots as list / tuple / ndarray / formula literal, the constraint matrix), through the entry points a user
         has: repeated direct calls with fresh state, several terms `bs(x0, knots=K) + bs(x1, knots=K)` of ONE
         model_matrix call, successive model_matrix calls with the same formula and context; new data goes through
         the recorded state (direct) or `ModelSpec.get_model_matrix`.  The model answers every use independently
         from the arguments the user wrote (`Engines.C12.handle`, op "uses" = map of the single-use engines), so a
         use that sees an earlier one (mutated argument, leaked state) disagrees.
Parameter contracts checked per case (in `agree`): knots are the linear-interpolation quantiles of the
model's sample; `B·F = D` (exact residual computed by the model); `c·Q2 = 0`; Q2 has orthonormal columns.
Values are compared with tolerance 1e-9·max(1,|v|).

Oracle (implementation only): non-negativity and row sums 1 inside the bounds, column count = df, equality
with an independent textbook Cox–de Boor evaluation in Fractions, each extrapolation mode's documented
behaviour, null in -> null row out; for cr/cc: identity at the knots, equality with SciPy's natural /
periodic interpolating cubic splines (cardinal basis), zero column means under 'center'.  For a history the
single-use oracle is applied to every use with the knots / df / bounds THE USER GAVE (recorded interior knots =
the given knots, column count = len(knots) + degree + intercept), not with whatever the transform recorded.
"""
from __future__ import annotations

import copy
import math
from fractions import Fraction

import numpy

PROPERTY = "C12"
ENGINE = "c12"
REQUIRED_THEOREMS = [
    "bs_fit_shape",
    "bs_eq_coxdeboor",
    "bs_partition_of_unity",
    "bs_nonneg",
    "bs_local_support",
    "bs_ncols",
    "bs_ncols_knots",
    "bs_null_row",
    "bs_extrapolation_clip",
    "bs_extrapolation_na",
    "bs_extrapolation_zero",
    "bs_extrapolation_raise",
    "bs_extrapolation_extend",
    "cr_identity_at_knots",
    "cc_identity_at_knots",
    "cr_is_natural_interpolant_partial",
    "piece_derivatives_formal",
    "piece_derivatives_analytic",
    "cr_c1_iff_tridiagonal",
    "cr_is_natural_interpolant",
    "cc_c1_iff_tridiagonal",
    "cc_is_periodic_interpolant",
    "cr_linear_beyond_knots",
    "cr_glued_pieces_C2_real",
    "cc_glued_pieces_C2_real",
    "centered_columns_zero_mean",
    "centered_columns_zero_mean_nulls",
]
TRUSTED = [
    "parameters of the model (results of external numerical routines, taken from the implementation per case; "
    "their contracts are checked numerically per case, not proved): numpy.nanquantile/nanpercentile (knots = "
    "linear-interpolation quantiles of the sample), scipy.linalg.solve_banded / numpy.linalg.solve (B.F = D), "
    "numpy.linalg.qr (c.Q2 = 0, Q2 orthonormal)",
    "float rounding is not modelled: the model evaluates exactly in Rat on the implementation's (dyadic) floats; "
    "agreement is at 1e-9 relative to max(1,|value|)",
    "the cubic-spline interpolation theorems (cr_is_natural_interpolant, cc_is_periodic_interpolant) assume the contract "
    "B.F = D EXACTLY (AllZero (residualF ...)); on the implementation's floating-point F the same residual is computed exactly "
    "by the model per case and required to be < 1e-8 (scaled), and the implementation is additionally compared with "
    "scipy.interpolate.CubicSpline by the oracle",
    "numpy.searchsorted is modelled for ascending knot arrays (count of knots < x)",
    "histories through the formula entry points: formula parsing, context lookup, column naming `name[k]` and assembly of "
    "the model matrix are not modelled (C01-C03); the harness reads each term's block of columns by its name prefix and its "
    "recorded state from ModelSpec.transform_state, with ensure_full_rank=False and na_action='ignore' so that the block is "
    "the transform's output unchanged",
]
ASSUMPTIONS = [
    "bs theorems about values (partition of unity, non-negativity, local support, zero/extend modes) assume interior "
    "knots non-decreasing inside [lower, upper] (KnotsOk); bs_eq_coxdeboor holds for any knot list",
    "cr/cc identity at knots assumes strictly increasing knots (guaranteed by numpy.unique + the size check) and F of shape n x n",
    "input vectors contain at least one non-null value; all-null / empty samples are outside the model (Err.noData)",
]
RULE = (
    "bs: x over dyadic rationals (multiples of 1/8 in [-2,4], ties, nulls) x degree 0..5 x (df | explicit interior knots incl. "
    "repeated and equal to a bound | neither) x bounds (none | explicit, incl. narrower than the data and lower=upper) x "
    "include_intercept x 5 extrapolation modes, plus a second call on new data with the recorded state; malformed stream: df and "
    "knots together, df too small, empty in-range sample, unsorted / out-of-bounds explicit knots. cs: natural/cyclic x (df | "
    "explicit knots) x constraints none/'center'/explicit x bounds x modes x second call. non-trivial = at least one interior "
    "knot or degree >= 1 (bs) / any cs case; distinct by canonical JSON. histories (300 quick / 5000 thorough, after the "
    "single-use stream): the same argument generators (explicit knots in 3 of 4) x 1-3 uses on different data (same range as "
    "the first use in 7 of 10 when the bounds come from the data) x knots container list/tuple/ndarray/formula literal, shared "
    "by all uses x entry point (direct calls with fresh state, x as ndarray or pandas Series | the terms of one model_matrix "
    "call | successive model_matrix calls; formula entry points with ensure_full_rank=False, na_action='ignore', all other "
    "arguments through the context) x new data per use through the recorded state / ModelSpec.get_model_matrix"
)
TOL = 1e-9
MODES = ["raise", "clip", "na", "zero", "extend"]


# ----------------------------------------------------------------------------- helpers


def fr(s):
    return None if s is None else Fraction(s)


def fs(q: Fraction) -> str:
    return f"{q.numerator}/{q.denominator}"


def ffs(v) -> str:
    """exact rational string of a float (NaN/inf -> "0/1"; callers record that separately)"""
    v = float(v)
    return "0/1" if not math.isfinite(v) else fs(Fraction(v))


def fl(s):
    return float("nan") if s is None else float(Fraction(s))


def arr(xs):
    return numpy.array([fl(v) for v in xs], dtype=float)


def cell(v):
    v = float(v)
    return None if math.isnan(v) else v


def err_class(e):
    return "ValueError" if isinstance(e, ValueError) else type(e).__name__


def close(a, b, tol=TOL):
    return abs(a - b) <= tol * max(1.0, abs(a), abs(b))


def quantiles(sample, m):
    """linear-interpolation quantiles k/(m+1), k=1..m of a sample of Fractions (independent of numpy)"""
    s = sorted(sample)
    n = len(s)
    out = []
    for k in range(1, m + 1):
        pos = Fraction(k, m + 1) * (n - 1)
        g = pos.numerator // pos.denominator
        gam = pos - g
        out.append(s[g] if g + 1 >= n else s[g] + gam * (s[g + 1] - s[g]))
    return out


# ----------------------------------------------------------------------------- generators


def dy(rng, lo=-16, hi=32, den=8):
    return fs(Fraction(rng.randint(lo, hi), den))


def gen_x(rng, nmin=1, nmax=12, lo=-16, hi=32, nulls=True):
    n = rng.randint(nmin, nmax)
    pool = [dy(rng, lo, hi) for _ in range(rng.randint(1, max(1, n)))]
    xs = [rng.choice(pool) for _ in range(n)]
    if nulls and rng.random() < 0.35:
        for _ in range(rng.randint(1, 2)):
            xs[rng.randrange(n)] = None
    if all(v is None for v in xs):
        xs[0] = dy(rng, lo, hi)
    return xs


def gen_bs(rng):
    degree = rng.choice([0, 1, 1, 2, 2, 3, 3, 3, 4, 5])
    intercept = rng.random() < 0.5
    mode = rng.choice(MODES)
    x = gen_x(rng)
    vals = [Fraction(v) for v in x if v is not None]
    r = rng.random()
    if r < 0.4:
        lower = upper = None
        lo, hi = min(vals), max(vals)
    else:
        a, b = sorted([Fraction(rng.randint(-8, 24), 8), Fraction(rng.randint(-8, 24), 8)])
        if a == b and rng.random() < 0.7:
            b = a + Fraction(rng.randint(1, 16), 8)
        if rng.random() < 0.03:
            a, b = b, a  # malformed: lower > upper
        lo, hi = a, b
        lower, upper = fs(a), fs(b)
        if rng.random() < 0.15:
            lower = None
            lo = min(vals)
        elif rng.random() < 0.15:
            upper = None
            hi = max(vals)
    df = knots = None
    r = rng.random()
    if r < 0.45:
        df = degree + (1 if intercept else 0) + rng.choice([0, 0, 1, 1, 2, 3, 4])
        if rng.random() < 0.06:
            df = rng.choice([0, degree - 1, -1, degree])  # malformed / edge
    elif r < 0.85:
        k = rng.randint(0, 4)
        if lo <= hi:
            span = hi - lo
            ks = sorted(lo + span * Fraction(rng.randint(0, 8), 8) for _ in range(k))
            if ks and rng.random() < 0.3:
                ks[rng.randrange(len(ks))] = rng.choice(ks)  # repeated
                ks.sort()
        else:
            ks = []
        if rng.random() < 0.06 and ks:
            rng.shuffle(ks)  # malformed: unsorted
            ks[0] = ks[0] + 5  # and out of bounds
        knots = [fs(q) for q in ks]
    if rng.random() < 0.02:
        df, knots = 4, []  # malformed: both
    x2 = None
    if rng.random() < 0.6:
        x2 = gen_x(rng, 1, 8)
    return dict(kind="bs", x=x, df=df, knots=knots, degree=degree, intercept=intercept,
                lower=lower, upper=upper, mode=mode, x2=x2)


def gen_cs(rng):
    cyclic = rng.random() < 0.5
    mode = rng.choice(["extend", "extend", "raise", "clip", "na", "zero"])
    x = gen_x(rng, 3, 14)
    vals = sorted(set(Fraction(v) for v in x if v is not None))
    r = rng.random()
    if r < 0.5:
        lower = upper = None
        lo, hi = vals[0], vals[-1]
    else:
        a, b = sorted([Fraction(rng.randint(-8, 24), 8), Fraction(rng.randint(-8, 24), 8)])
        if a == b:
            b = a + Fraction(rng.randint(1, 16), 8)
        lo, hi, lower, upper = a, b, fs(a), fs(b)
    cons = rng.choice([None, None, "center", "center", "matrix"])
    df = knots = None
    nc = 0 if cons is None else 1
    if rng.random() < 0.6:
        df = rng.choice([1, 2, 2, 3, 3, 4, 5])
        ncols = df + nc
    else:
        k = rng.randint(0, 4)
        span = hi - lo
        ks = sorted(set(lo + span * Fraction(rng.randint(1, 15), 16) for _ in range(k)))
        if rng.random() < 0.05 and ks:
            ks[0] = lo - 1  # malformed: below the lower bound
        knots = [fs(q) for q in ks]
        ncols = len(set(ks)) + 2 - (1 if cyclic else 0)
    if cons == "matrix":
        ncols = max(ncols, 1)
        if rng.random() < 0.08:
            ncols += 1  # malformed: wrong number of columns
        row = [str(rng.randint(-2, 3)) for _ in range(ncols)]
        if all(v == "0" for v in row):
            row[0] = "1"
        cons = [row]
    if rng.random() < 0.02:
        df, knots = 3, []
    x2 = None
    if rng.random() < 0.6:
        x2 = gen_x(rng, 1, 8)
    return dict(kind="cs", x=x, df=df, knots=knots, lower=lower, upper=upper, constraints=cons,
                cyclic=cyclic, mode=mode, x2=x2)


KCONTS = ["list", "list", "list", "tuple", "ndarray"]


def gen_hist(rng):
    """A HISTORY of uses of one transform that are all handed the SAME argument objects (knots container,
    constraint matrix) by the caller, through one of the entry points a user has: repeated direct calls with fresh
    state, several terms of one formula, successive model_matrix calls.  Every use also may transform new data
    with its recorded state (direct: the state dictionary; formula: ModelSpec.get_model_matrix)."""
    fam = "bs" if rng.random() < 0.65 else "cs"
    want_knots = rng.random() < 0.75
    for _ in range(8):
        base = gen_bs(rng) if fam == "bs" else gen_cs(rng)
        if (base["knots"] is not None) == want_knots and not (base["df"] is not None and base["knots"] is not None):
            break
    entry = rng.choice(["direct", "terms", "terms", "calls", "calls"])
    nuses = rng.choice([1, 2, 2, 2, 3, 3]) if entry != "direct" else rng.choice([2, 2, 3])
    x0 = base.pop("x")
    x20 = base.pop("x2")
    base.pop("kind")
    n = len(x0)
    vals = [Fraction(v) for v in x0 if v is not None]
    lo, hi = min(vals), max(vals)
    same_len = entry == "terms"
    m2 = None if x20 is None else len(x20)
    uses = [dict(x=x0, x2=x20)]
    for _ in range(nuses - 1):
        x = gen_x(rng, n, n) if same_len else gen_x(rng, 3 if fam == "cs" else 1, 12)
        if len(x) >= 2 and rng.random() < 0.7:
            # same data range as the first use: the shared explicit knots stay inside the bounds of every use
            i, j = rng.sample(range(len(x)), 2)
            if base["lower"] is None:
                x[i] = fs(lo)
            if base["upper"] is None:
                x[j] = fs(hi)
        if same_len:
            x2 = None if m2 is None else gen_x(rng, m2, m2)
        else:
            x2 = gen_x(rng, 1, 8) if rng.random() < 0.6 else None
        uses.append(dict(x=x, x2=x2))
    kcont = None
    if base["knots"] is not None:
        kcont = rng.choice(KCONTS + (["literal"] if entry != "direct" else []))
    xcont = rng.choice(["ndarray", "series"]) if entry == "direct" else "frame"
    return dict(kind="hist", fam=fam, entry=entry, kcont=kcont, xcont=xcont, args=base, uses=uses)


def subcases(c):
    """the uses of a history as independent single-use cases on the arguments THE USER WROTE"""
    return [dict(c["args"], kind=c["fam"], x=u["x"], x2=u["x2"]) for u in c["uses"]]


def cases(rng, tier):
    n = {"quick": 3000, "thorough": 50000, "search": 150}[tier]
    for i in range(n):
        yield gen_bs(rng) if rng.random() < 0.6 else gen_cs(rng)
    # histories come after the single-use stream (which therefore is unchanged for a given seed)
    for i in range({"quick": 300, "thorough": 5000, "search": 60}[tier]):
        yield gen_hist(rng)


def describe(c):
    if c["kind"] == "hist":
        a = c["args"]
        fam = "bs" if c["fam"] == "bs" else ("cc" if a["cyclic"] else "cr")
        how = "df" if a["df"] is not None else ("knots:" + c["kcont"] if a["knots"] is not None else "plain")
        return f"hist:{fam},{c['entry']}x{len(c['uses'])},{how}"
    if c["kind"] == "bs":
        how = "df" if c["df"] is not None else ("knots" if c["knots"] is not None else "plain")
        return f"bs,d={c['degree']},{how},{c['mode']}"
    how = "df" if c["df"] is not None else "knots"
    cons = "none" if c["constraints"] is None else ("center" if c["constraints"] == "center" else "matrix")
    return f"{'cc' if c['cyclic'] else 'cr'},{how},{cons},{c['mode']}"


def nontrivial(c):
    if c["kind"] == "hist":
        return any(nontrivial(s) for s in subcases(c))
    if c["kind"] == "cs":
        return True
    return c["degree"] >= 1 or bool(c["knots"]) or (c["df"] or 0) > 1


# ----------------------------------------------------------------------------- implementation side


def _cols_rows(res, n):
    keys = [k for k in res.keys()]
    mat = [numpy.atleast_1d(numpy.asarray(res[k], dtype=float)) for k in keys]
    rows = [[cell(col[i]) for col in mat] for i in range(n)]
    return keys, rows


def impl_bs(c):
    from formulaic.transforms.basis_spline import basis_spline

    kw = dict(
        df=c["df"],
        knots=None if c["knots"] is None else [fl(k) for k in c["knots"]],
        degree=c["degree"],
        include_intercept=c["intercept"],
        lower_bound=None if c["lower"] is None else fl(c["lower"]),
        upper_bound=None if c["upper"] is None else fl(c["upper"]),
        extrapolation=c["mode"],
    )
    st = {}
    try:
        res = basis_spline(arr(c["x"]), _state=st, **kw)
    except Exception as e:
        return dict(error=err_class(e))
    keys, rows = _cols_rows(res, len(c["x"]))
    out = dict(
        state=dict(lower=ffs(st["lower_bound"]), upper=ffs(st["upper_bound"]), knots=[ffs(k) for k in st["knots"]]),
        first=dict(cols=[int(k) for k in keys], rows=rows),
        second=None,
    )
    if c["x2"] is not None:
        st2 = copy.deepcopy(st)
        try:
            res2 = basis_spline(arr(c["x2"]), _state=st2, **kw)
            k2, r2 = _cols_rows(res2, len(c["x2"]))
            out["second"] = dict(cols=[int(k) for k in k2], rows=r2)
        except Exception as e:
            out["second"] = dict(error=err_class(e))
    return out


def impl_cs(c):
    import formulaic.transforms.cubic_spline as CS

    cons = c["constraints"]
    if isinstance(cons, list):
        cons = numpy.array([[fl(v) for v in row] for row in cons], dtype=float)
    kw = dict(
        df=c["df"],
        knots=None if c["knots"] is None else [fl(k) for k in c["knots"]],
        lower_bound=None if c["lower"] is None else fl(c["lower"]),
        upper_bound=None if c["upper"] is None else fl(c["upper"]),
        constraints=cons,
        cyclic=c["cyclic"],
        extrapolation=c["mode"],
    )
    rec = {}
    o_nat, o_cyc, o_qr = CS._get_natural_f, CS._get_cyclic_f, numpy.linalg.qr

    def nat(k):
        r = o_nat(k)
        rec["F"] = numpy.array(r)
        return r

    def cyc(k):
        r = o_cyc(k)
        rec["F"] = numpy.array(r)
        return r

    def qr(a, mode="reduced"):
        q, r = o_qr(a, mode=mode)
        rec["Q2"] = numpy.array(q)[:, numpy.asarray(a).shape[1]:]
        return q, r

    CS._get_natural_f, CS._get_cyclic_f, numpy.linalg.qr = nat, cyc, qr
    try:
        st = {}
        try:
            res = CS.cubic_spline(arr(c["x"]), _state=st, **kw)
        except Exception as e:
            return dict(error=err_class(e))
        keys, rows = _cols_rows(res, len(c["x"]))
        carr = st["constraints"]
        out = dict(
            state=dict(
                lower=ffs(st["lower_bound"]), upper=ffs(st["upper_bound"]), knots=[ffs(k) for k in st["knots"]],
                cyclic=bool(st["cyclic"]),
                constraints=None if carr is None else [[cell(v) for v in row] for row in numpy.atleast_2d(carr)],
            ),
            first=dict(ncols=len(keys), keys=[int(k) for k in keys], rows=rows),
            second=None,
            F=None if "F" not in rec else [[ffs(v) for v in row] for row in rec["F"]],
            Q2=None if "Q2" not in rec else [[ffs(v) for v in col] for col in rec["Q2"].T],
        )
        out["nan_params"] = bool(
            ("F" in rec and not numpy.isfinite(rec["F"]).all()) or ("Q2" in rec and not numpy.isfinite(rec["Q2"]).all())
            or (carr is not None and not numpy.isfinite(numpy.asarray(carr, dtype=float)).all()))
        if "Q2" in rec:
            q2 = rec["Q2"]
            out["orth"] = float(numpy.abs(q2.T @ q2 - numpy.eye(q2.shape[1])).max()) if q2.shape[1] else 0.0
        # rows at the recorded knots (identity-at-knots observable)
        try:
            resk = CS.cubic_spline(numpy.array(st["knots"], dtype=float), _state=copy.deepcopy(st), **kw)
            out["at_knots"] = _cols_rows(resk, len(st["knots"]))[1]
        except Exception as e:
            out["at_knots"] = dict(error=err_class(e))
        if c["x2"] is not None:
            try:
                res2 = CS.cubic_spline(arr(c["x2"]), _state=copy.deepcopy(st), **kw)
                k2, r2 = _cols_rows(res2, len(c["x2"]))
                out["second"] = dict(ncols=len(k2), rows=r2)
            except Exception as e:
                out["second"] = dict(error=err_class(e))
        return out
    finally:
        CS._get_natural_f, CS._get_cyclic_f, numpy.linalg.qr = o_nat, o_cyc, o_qr


# ---- histories: several uses that share the caller's argument objects


class _CsHooks:
    """records every F (keyed by kind and knots) and every Q2 (keyed by the constraint matrix) computed inside"""

    def __enter__(self):
        import formulaic.transforms.cubic_spline as CS

        self.CS, self.F, self.Q2 = CS, {}, {}
        self.saved = (CS._get_natural_f, CS._get_cyclic_f, numpy.linalg.qr)
        o_nat, o_cyc, o_qr = self.saved

        def key(a):
            a = numpy.ascontiguousarray(numpy.asarray(a, dtype=float))
            return (a.shape, a.tobytes())

        self.key = key

        def nat(k):
            r = o_nat(k)
            self.F[(False, key(k))] = numpy.array(r)
            return r

        def cyc(k):
            r = o_cyc(k)
            self.F[(True, key(k))] = numpy.array(r)
            return r

        def qr(a, mode="reduced"):
            q, r = o_qr(a, mode=mode)
            self.Q2[key(numpy.transpose(a))] = numpy.array(q)[:, numpy.asarray(a).shape[1]:]
            return q, r

        CS._get_natural_f, CS._get_cyclic_f, numpy.linalg.qr = nat, cyc, qr
        return self

    def __exit__(self, *a):
        self.CS._get_natural_f, self.CS._get_cyclic_f, numpy.linalg.qr = self.saved


def _root_error(e):
    from formulaic.errors import FactorEvaluationError

    while isinstance(e, FactorEvaluationError) and e.__cause__ is not None:
        e = e.__cause__
    return err_class(e)


def _bs_pack(st, keys, rows):
    return dict(
        state=dict(lower=ffs(st["lower_bound"]), upper=ffs(st["upper_bound"]), knots=[ffs(k) for k in st["knots"]]),
        first=dict(cols=[int(k) for k in keys], rows=rows),
        second=None,
    )


def _cs_pack(st, keys, rows, hooks, kw):
    """same observables as impl_cs for one use whose recorded state is `st`"""
    CS = hooks.CS
    carr = st["constraints"]
    F = hooks.F.get((bool(st["cyclic"]), hooks.key(st["knots"])))
    Q2 = None if carr is None else hooks.Q2.get(hooks.key(numpy.atleast_2d(carr)))
    out = dict(
        state=dict(
            lower=ffs(st["lower_bound"]), upper=ffs(st["upper_bound"]), knots=[ffs(k) for k in st["knots"]],
            cyclic=bool(st["cyclic"]),
            constraints=None if carr is None else [[cell(v) for v in row] for row in numpy.atleast_2d(carr)],
        ),
        first=dict(ncols=len(keys), keys=[int(k) for k in keys], rows=rows),
        second=None,
        F=None if F is None else [[ffs(v) for v in row] for row in F],
        Q2=None if Q2 is None else [[ffs(v) for v in col] for col in Q2.T],
    )
    out["nan_params"] = bool(
        (F is not None and not numpy.isfinite(F).all()) or (Q2 is not None and not numpy.isfinite(Q2).all())
        or (carr is not None and not numpy.isfinite(numpy.asarray(carr, dtype=float)).all()))
    if Q2 is not None:
        out["orth"] = float(numpy.abs(Q2.T @ Q2 - numpy.eye(Q2.shape[1])).max()) if Q2.shape[1] else 0.0
    try:
        resk = CS.cubic_spline(numpy.array(st["knots"], dtype=float), _state=copy.deepcopy(st), **kw)
        out["at_knots"] = _cols_rows(resk, len(st["knots"]))[1]
    except Exception as e:
        out["at_knots"] = dict(error=err_class(e))
    return out


def _hist_term(c, var):
    a = c["args"]
    kn = "K_"
    if c["kcont"] == "literal":
        kn = "[" + ", ".join(repr(fl(k)) for k in a["knots"]) + "]"
    if c["fam"] == "bs":
        return ("bs", f"bs({var}, df=DF_, knots={kn}, degree=D_, include_intercept=I_, lower_bound=L_, "
                      f"upper_bound=U_, extrapolation=M_)")
    fn = "cc" if a["cyclic"] else "cr"
    return fn, f"{fn}({var}, df=DF_, knots={kn}, lower_bound=L_, upper_bound=U_, constraints=C_, extrapolation=M_)"


def _term_block(mat, names, fn, var):
    import re

    prefix = f"{fn}({var},"
    idx = [i for i, nm in enumerate(names) if nm.startswith(prefix)]
    keys = [int(re.search(r"\[(\d+)\]$", names[i]).group(1)) for i in idx]
    vals = numpy.asarray(mat, dtype=float)
    rows = [[cell(vals[r, i]) for i in idx] for r in range(vals.shape[0])]
    return keys, rows


def impl_hist(c):
    import pandas

    a = c["args"]
    fam, entry = c["fam"], c["entry"]
    K = None
    if a["knots"] is not None:
        ks = [fl(k) for k in a["knots"]]
        K = {"list": ks, "literal": ks, "tuple": tuple(ks), "ndarray": numpy.array(ks, dtype=float)}[c["kcont"]]
    L = None if a["lower"] is None else fl(a["lower"])
    U = None if a["upper"] is None else fl(a["upper"])
    if fam == "bs":
        kw = dict(df=a["df"], knots=K, degree=a["degree"], include_intercept=a["intercept"], lower_bound=L,
                  upper_bound=U, extrapolation=a["mode"])
        ctx = dict(DF_=a["df"], K_=K, D_=a["degree"], I_=a["intercept"], L_=L, U_=U, M_=a["mode"])
    else:
        C = a["constraints"]
        if isinstance(C, list):
            C = numpy.array([[fl(v) for v in row] for row in C], dtype=float)
        kw = dict(df=a["df"], knots=K, lower_bound=L, upper_bound=U, constraints=C, cyclic=a["cyclic"],
                  extrapolation=a["mode"])
        ctx = dict(DF_=a["df"], K_=K, L_=L, U_=U, C_=C, M_=a["mode"])
    out = dict(uses=None, joint_first=None, joint_second=None)

    with _CsHooks() as hooks:
        if entry == "direct":
            from formulaic.transforms.basis_spline import basis_spline

            fn = basis_spline if fam == "bs" else hooks.CS.cubic_spline
            wrap = (lambda v: pandas.Series(arr(v))) if c["xcont"] == "series" else arr
            res = []
            for u in c["uses"]:
                st = {}
                try:
                    r = fn(wrap(u["x"]), _state=st, **kw)
                except Exception as e:
                    res.append(dict(error=err_class(e)))
                    continue
                keys, rows = _cols_rows(r, len(u["x"]))
                o = _bs_pack(st, keys, rows) if fam == "bs" else _cs_pack(st, keys, rows, hooks, kw)
                if u["x2"] is not None:
                    try:
                        r2 = fn(wrap(u["x2"]), _state=copy.deepcopy(st), **kw)
                        k2, r2 = _cols_rows(r2, len(u["x2"]))
                        o["second"] = dict(cols=[int(k) for k in k2], rows=r2) if fam == "bs" else dict(ncols=len(k2), rows=r2)
                    except Exception as e:
                        o["second"] = dict(error=err_class(e))
                res.append(o)
            out["uses"] = res
        else:
            from formulaic import model_matrix

            nuses = len(c["uses"])
            if entry == "terms":
                groups = [list(range(nuses))]
            else:
                groups = [[i] for i in range(nuses)]
            res = [None] * nuses
            for g in groups:
                # "calls": the same formula text, variable name and context objects on every call
                var = (lambda i: f"x{i}") if entry == "terms" else (lambda i: "x0")
                terms = [_hist_term(c, var(i)) for i in g]
                formula = " + ".join(t for _, t in terms) + " - 1"
                data = pandas.DataFrame({var(i): arr(c["uses"][i]["x"]) for i in g})
                try:
                    mm = model_matrix(formula, data, context=ctx, na_action="ignore", ensure_full_rank=False)
                except Exception as e:
                    if len(g) == 1:
                        res[g[0]] = dict(error=_root_error(e))
                    else:
                        out["joint_first"] = _root_error(e)
                    continue
                ms = mm.model_spec
                names = list(ms.column_names)
                mm2 = None
                if c["uses"][g[0]]["x2"] is not None and all(c["uses"][i]["x2"] is not None for i in g):
                    data2 = pandas.DataFrame({var(i): arr(c["uses"][i]["x2"]) for i in g})
                    try:
                        mm2 = ms.get_model_matrix(data2, context=ctx)
                    except Exception as e:
                        mm2 = dict(error=_root_error(e))
                for i, (fname, _) in zip(g, terms):
                    prefix = f"{fname}({var(i)},"
                    sts = [v for k, v in ms.transform_state.items() if k.startswith(prefix)]
                    if len(sts) != 1:
                        raise RuntimeError(f"{len(sts)} recorded states for the term {prefix}...)")
                    st = sts[0]
                    keys, rows = _term_block(mm, names, fname, var(i))
                    o = _bs_pack(st, keys, rows) if fam == "bs" else _cs_pack(st, keys, rows, hooks, kw)
                    if isinstance(mm2, dict):
                        if len(g) == 1:
                            o["second"] = mm2
                        else:
                            out["joint_second"] = mm2["error"]
                    elif mm2 is not None:
                        k2, r2 = _term_block(mm2, list(mm2.model_spec.column_names), fname, var(i))
                        o["second"] = dict(cols=k2, rows=r2) if fam == "bs" else dict(ncols=len(k2), rows=r2)
                    res[i] = o
            out["uses"] = None if out["joint_first"] is not None else res
    # what the caller's knots object holds afterwards (diagnostic only)
    out["knots_after"] = None if K is None else [ffs(v) for v in K]
    return out


def impl(c):
    if c["kind"] == "hist":
        return impl_hist(c)
    return impl_bs(c) if c["kind"] == "bs" else impl_cs(c)


def request(c, o):
    if c["kind"] == "hist":
        outs = o.get("uses") or [{}] * len(c["uses"])
        return dict(op="uses", uses=[request(s, u) for s, u in zip(subcases(c), outs)])
    if c["kind"] == "bs":
        quant = []
        if "state" in o:
            d = c["degree"]
            k = o["state"]["knots"]
            quant = k[d + 1: len(k) - d - 1]
        return dict(op="bs", x=c["x"], df=c["df"], knots=c["knots"], degree=c["degree"], intercept=c["intercept"],
                    lower=c["lower"], upper=c["upper"], mode=c["mode"], quant=quant, x2=c["x2"])
    quant, F, Q2 = [], [], []
    if "state" in o:
        quant = o["state"]["knots"][1:-1]
        F = o.get("F") or []
        Q2 = o.get("Q2") or []
    return dict(op="cs", x=c["x"], df=c["df"], knots=c["knots"], lower=c["lower"], upper=c["upper"],
                constraints=c["constraints"], cyclic=c["cyclic"], mode=c["mode"], quant=quant, F=F, Q2=Q2, x2=c["x2"])


# ----------------------------------------------------------------------------- model vs implementation


def _cmp_rows(irows, mrows, what):
    if len(irows) != len(mrows):
        return f"{what}: {len(irows)} rows vs model {len(mrows)}"
    for r, (a, b) in enumerate(zip(irows, mrows)):
        if b is None:
            if any(v is not None for v in a):
                return f"{what} row {r}: model gives a null row, implementation {a}"
            continue
        if len(a) != len(b):
            return f"{what} row {r}: {len(a)} columns vs model {len(b)}"
        for j, (u, v) in enumerate(zip(a, b)):
            if u is None:
                return f"{what} row {r} col {j}: implementation NaN, model {float(Fraction(v))}"
            if not close(u, float(Fraction(v))):
                return f"{what} row {r} col {j}: implementation {u!r}, model {float(Fraction(v))!r}"
    return None


def _res_small(mat, what, scale=1.0):
    for row in mat or []:
        for v in row:
            if abs(float(Fraction(v))) > 1e-8 * scale:
                return f"contract {what} violated by the implementation's parameter: residual {float(Fraction(v)):.3e}"
    return None


def _not_modelled(m):
    return str(m.get("error", "")).startswith("not-modelled")


def agree_hist(c, o, m):
    """every use of a history against the model's INDEPENDENT answer for that use (the model is a function of the
    arguments the user wrote and of that use's data: no use may see an earlier one)"""
    subs = subcases(c)
    ms = m.get("uses")
    if not isinstance(ms, list) or len(ms) != len(subs):
        return f"model answered {str(m)[:200]}"
    if o.get("joint_first") is not None:
        # one model_matrix call over all terms failed: some use must fail in the model with that error
        if any(mi.get("error") == o["joint_first"] or _not_modelled(mi) for mi in ms):
            return None
        return f"model_matrix over all terms raised {o['joint_first']}, the model fits every term"
    for i, (sc, oi, mi) in enumerate(zip(subs, o["uses"], ms)):
        if o.get("joint_second") is not None:
            sc, mi = dict(sc, x2=None), dict(mi, second=None)
        w = agree(sc, oi, mi)
        if w:
            return f"use #{i + 1} of {len(subs)} ({c['entry']}): {w}"
    if o.get("joint_second") is not None:
        if not any(_not_modelled(mi) or (mi.get("second") or {}).get("error") == o["joint_second"] for mi in ms):
            return f"get_model_matrix over all terms raised {o['joint_second']}, the model transforms every term"
    return None


def agree(c, o, m):
    if "driver_error" in m:
        return "driver: " + m["driver_error"][:300]
    if "harness_exception" in o:
        return "harness: " + o["harness_exception"]
    if c["kind"] == "hist":
        return agree_hist(c, o, m)
    if str(m.get("error", "")).startswith("not-modelled"):
        return None
    if "error" in o or "error" in m:
        return None if o.get("error") == m.get("error") else f"fit: implementation {o.get('error', 'ok')} vs model {m.get('error', 'ok')}"
    if o.get("nan_params"):
        return "the implementation's F / Q2 / recorded constraints contain NaN"
    for k in ("lower", "upper"):
        if Fraction(o["state"][k]) != Fraction(m["state"][k]):
            return f"state {k}: implementation {o['state'][k]} vs model {m['state'][k]}"
    if [Fraction(v) for v in o["state"]["knots"]] != [Fraction(v) for v in m["state"]["knots"]]:
        return f"state knots: implementation {o['state']['knots']} vs model {m['state']['knots']}"
    sample = [Fraction(v) for v in m["sample"]]
    if c["kind"] == "bs":
        if c["df"]:
            d = c["degree"]
            got = [Fraction(v) for v in o["state"]["knots"]][d + 1: len(o["state"]["knots"]) - d - 1]
            want = quantiles(sample, len(got)) if sample else []
            if len(want) != len(got) or any(not close(float(a), float(b)) for a, b in zip(got, want)):
                return f"quantile contract: interior knots {list(map(float, got))} are not the quantiles {list(map(float, want))} of the model's sample"
        if o["first"]["cols"] != m["first"]["cols"]:
            return f"columns {o['first']['cols']} vs model {m['first']['cols']}"
        w = _cmp_rows(o["first"]["rows"], m["first"]["rows"], "first call")
        if w:
            return w
    else:
        if c["df"] is not None:
            got = [Fraction(v) for v in o["state"]["knots"]][1:-1]
            want = quantiles(sample, len(got)) if sample else []
            if len(want) != len(got) or any(not close(float(a), float(b)) for a, b in zip(got, want)):
                return f"quantile contract: inner knots {list(map(float, got))} are not the percentiles {list(map(float, want))} of the model's sample"
        hs = [float(Fraction(b) - Fraction(a)) for a, b in zip(o["state"]["knots"], o["state"]["knots"][1:])]
        scale = max(1.0, max(1 / h for h in hs)) if hs and min(hs) > 0 else 1.0
        w = _res_small(m.get("resF"), "B.F = D", scale)
        if w:
            return w
        w = _res_small(m.get("resQ"), "c.Q2 = 0")
        if w:
            return w
        if o.get("orth", 0.0) > 1e-9:
            return f"contract Q2 orthonormal violated: {o['orth']:.3e}"
        ic, mc = o["state"]["constraints"], m["state"]["constraints"]
        if (ic is None) != (mc is None):
            return "state constraints: one side has none"
        if ic is not None:
            w = _cmp_rows(ic, mc, "state constraints")
            if w:
                return w
        if o["first"]["ncols"] != m["first"]["ncols"]:
            return f"{o['first']['ncols']} columns vs model {m['first']['ncols']}"
        w = _cmp_rows(o["first"]["rows"], m["first"]["rows"], "first call")
        if w:
            return w
    so, sm = o.get("second"), m.get("second")
    if (so is None) != (sm is None):
        return "second call: present on one side only"
    if so is not None:
        if "error" in so or "error" in sm:
            return None if so.get("error") == sm.get("error") else f"second call: implementation {so.get('error', 'ok')} vs model {sm.get('error', 'ok')}"
        w = _cmp_rows(so["rows"], sm["rows"], "second call")
        if w:
            return w
    return None


# ----------------------------------------------------------------------------- oracle (implementation only)


def cdb_row(t, d, x, piece=None):
    """Independent textbook Cox-de Boor: all B_{i,d}(x) on the non-decreasing knot vector t (Fractions).
    Terms with a zero denominator are dropped; x at the right end belongs to the last non-empty interval.
    piece=j forces the polynomial piece of interval j (used for the extension)."""
    n = len(t)
    if piece is None:
        if x == t[-1]:
            ne = [i for i in range(n - 1) if t[i] < t[i + 1]]
            piece = ne[-1] if ne else None
        else:
            piece = next((i for i in range(n - 1) if t[i] <= x < t[i + 1]), None)
    N = [Fraction(int(i == piece)) for i in range(n - 1)]
    for k in range(1, d + 1):
        new = []
        for i in range(n - k - 1):
            a = (x - t[i]) / (t[i + k] - t[i]) * N[i] if t[i + k] != t[i] else 0
            b = (t[i + k + 1] - x) / (t[i + k + 1] - t[i + 1]) * N[i + 1] if t[i + k + 1] != t[i + 1] else 0
            new.append(a + b)
        N = new
    return N


def _bs_expected_error(c):
    """None = must succeed, 'ValueError' = must raise, '?' = the property does not say"""
    vals = [Fraction(v) for v in c["x"] if v is not None]
    lo = Fraction(c["lower"]) if c["lower"] is not None else min(vals)
    hi = Fraction(c["upper"]) if c["upper"] is not None else max(vals)
    if c["df"] is not None and c["knots"] is not None:
        return "ValueError"
    if c["mode"] == "raise" and any(v < lo or v > hi for v in vals):
        return "ValueError"
    if c["df"]:
        if c["df"] - c["degree"] - (1 if c["intercept"] else 0) < 0:
            return "ValueError"
        if c["mode"] in ("clip", "na", "zero") and not any(lo <= v <= hi for v in vals):
            return "ValueError"
    if lo > hi:
        return "?"
    return None


def _knots_ok(lo, hi, interior):
    return lo <= hi and all(lo <= k <= hi for k in interior) and all(a <= b for a, b in zip(interior, interior[1:]))


def _oracle_bs_rows(c, st, xs, out, which):
    d, icpt, mode = c["degree"], c["intercept"], c["mode"]
    lo, hi = Fraction(st["lower"]), Fraction(st["upper"])
    t = [Fraction(v) for v in st["knots"]]
    interior = t[d + 1: len(t) - d - 1]
    if "error" in out:
        outside = any(v is not None and (Fraction(v) < lo or Fraction(v) > hi) for v in xs)
        if mode == "raise" and outside:
            return None
        return f"{which}: raised {out['error']} although extrapolation={mode} and " + (
            "no value is outside the bounds" if not outside else "the mode documents no error")
    if mode == "raise" and any(v is not None and (Fraction(v) < lo or Fraction(v) > hi) for v in xs):
        return f"{which}: extrapolation='raise' did not raise although a value lies outside [{float(lo)}, {float(hi)}]"
    ncols = len(t) - d - 1 - (0 if icpt else 1)
    if len(out["cols"]) != ncols:
        return f"{which}: {len(out['cols'])} columns, the knot vector has {ncols} basis functions" + ("" if icpt else " besides the dropped first")
    if c["df"] and len(out["cols"]) != c["df"]:
        return f"{which}: {len(out['cols'])} columns but df={c['df']}"
    ok = _knots_ok(lo, hi, interior)
    nondeg = [i for i in range(len(t) - 1) if t[i] < t[i + 1]]
    for r, (xv, row) in enumerate(zip(xs, out["rows"])):
        if xv is None:
            if any(v is not None for v in row):
                return f"{which} row {r}: null input but the output row is {row} (a null must stay a null row)"
            continue
        x = Fraction(xv)
        inside = lo <= x <= hi
        if not inside:
            if mode == "na":
                if any(v is not None for v in row):
                    return f"{which} row {r}: x={float(x)} is outside the bounds, extrapolation='na' documents NaN, got {row}"
                continue
            if mode == "zero":
                if ok and any(v is None or abs(v) > 1e-12 for v in row):
                    return f"{which} row {r}: x={float(x)} is outside the bounds, extrapolation='zero' documents 0, got {row}"
                continue
        if any(v is None for v in row):
            return f"{which} row {r}: x={float(x)} gives NaN {row}"
        if not ok or not nondeg:
            continue  # knot vector not admissible (malformed stream): no value claims
        if inside or mode == "clip":
            xe = min(max(x, lo), hi)
            kind = "the B-spline design matrix" if inside else "the basis at the clipped value"
            if any(v < -1e-12 for v in row):
                return f"{which} row {r}: negative entry at x={float(x)}: {row}"
            if icpt and not close(sum(row), 1.0):
                return f"{which} row {r}: row sums to {sum(row)!r} at x={float(x)} (inside the bounds)"
            if xe == hi and hi in interior:
                # an interior knot equal to the upper bound makes the closed last interval [t_{r-1}, t_r] empty: which
                # column carries the 1 at exactly x = upper is a convention (R's `lastLegit` picks the same interval);
                # the property's value claims there are non-negativity and the row sum, checked above
                continue
            full = cdb_row(t, d, xe)
        elif mode == "extend":
            full = cdb_row(t, d, x, piece=nondeg[0] if x < lo else nondeg[-1])
            kind = "the polynomial extension of the boundary piece"
            if icpt and abs(sum(row) - 1.0) > TOL * max(1.0, sum(abs(v) for v in row)):
                return f"{which} row {r}: extended row sums to {sum(row)!r} at x={float(x)}"
        else:
            continue
        want = [float(v) for v in (full if icpt else full[1:])]
        for j, (u, v) in enumerate(zip(row, want)):
            if not close(u, v):
                return f"{which} row {r} col {out['cols'][j]}: {u!r} but {kind} on the recorded knots gives {v!r} at x={float(x)}"
    return None


def oracle_bs(c, o):
    exp = _bs_expected_error(c)
    if "error" in o:
        if exp is None:
            return f"basis_spline raised {o['error']} on valid arguments"
        return None
    if exp == "ValueError":
        if c["mode"] == "raise" and not (c["df"] is not None and c["knots"] is not None):
            return "extrapolation='raise' did not raise although a value lies outside the bounds"
        return None  # argument validation is not part of the property
    st = o["state"]
    d = c["degree"]
    t = [Fraction(v) for v in st["knots"]]
    lo, hi = Fraction(st["lower"]), Fraction(st["upper"])
    if len(t) < 2 * d + 2 or t[: d + 1] != [lo] * (d + 1) or t[len(t) - d - 1:] != [hi] * (d + 1):
        return f"recorded knot vector {list(map(float, t))} is not padded with degree+1 copies of the bounds"
    interior = t[d + 1: len(t) - d - 1]
    if c["df"] and c["mode"] != "extend":
        vals = [Fraction(v) for v in c["x"] if v is not None and lo <= Fraction(v) <= hi]
        want = quantiles(vals, len(interior)) if vals else []
        if len(want) != len(interior) or any(not close(float(a), float(b)) for a, b in zip(interior, want)):
            return f"interior knots {list(map(float, interior))} are not the equally spaced quantiles {list(map(float, want))} of the in-range data"
    if not c["df"] and c["knots"] is not None and interior != [Fraction(k) for k in c["knots"]]:
        return (f"recorded interior knots {list(map(float, interior))} differ from the knots that were passed "
                f"{[float(Fraction(k)) for k in c['knots']]}")
    w = _oracle_bs_rows(c, st, c["x"], o["first"], "first call")
    if w:
        return w
    if o.get("second") is not None:
        return _oracle_bs_rows(c, st, c["x2"], o["second"], "second call")
    return None


def _ref_basis(knots, cyclic):
    """cardinal basis of the natural / periodic interpolating cubic spline through `knots` (SciPy)"""
    from scipy.interpolate import CubicSpline

    k = numpy.array(knots, dtype=float)
    n = len(k) - (1 if cyclic else 0)
    sps = []
    for col in range(n):
        y = numpy.zeros(len(k))
        y[col] = 1.0
        if cyclic and col == 0:
            y[-1] = 1.0
        if len(k) == 2:
            sps.append(None)  # two knots: the straight line (natural) / the constant (periodic)
        else:
            sps.append(CubicSpline(k, y, bc_type="periodic" if cyclic else "natural"))

    def ev(x):
        lo, hi = k[0], k[-1]
        if cyclic:
            if x > hi:
                x = lo + (x - hi) % (hi - lo)
            elif x < lo:
                x = hi - (lo - x) % (hi - lo)
        out = []
        for col, sp in enumerate(sps):
            if sp is None:
                if cyclic:
                    out.append(1.0)
                else:
                    w = (x - lo) / (hi - lo)
                    out.append(1 - w if col == 0 else w)
            elif not cyclic and x < lo:
                out.append(float(sp(lo) + sp(lo, 1) * (x - lo)))
            elif not cyclic and x > hi:
                out.append(float(sp(hi) + sp(hi, 1) * (x - hi)))
            else:
                out.append(float(sp(x)))
        return numpy.array(out)

    return ev, n


def _oracle_cs_rows(c, o, xs, out, which, ev, Q2):
    lo, hi = float(Fraction(o["state"]["lower"])), float(Fraction(o["state"]["upper"]))
    mode = c["mode"]
    outside = any(v is not None and (fl(v) < lo or fl(v) > hi) for v in xs)
    if "error" in out:
        if mode == "raise" and outside:
            return None
        return f"{which}: raised {out['error']} with extrapolation={mode}"
    if mode == "raise" and outside:
        return f"{which}: extrapolation='raise' did not raise although a value lies outside the bounds"
    for r, (xv, row) in enumerate(zip(xs, out["rows"])):
        if xv is None:
            if any(v is not None for v in row):
                return f"{which} row {r}: null input but output {row}"
            continue
        x = fl(xv)
        inside = lo <= x <= hi
        if not inside and mode == "na":
            if any(v is not None for v in row):
                return f"{which} row {r}: x={x} outside the bounds with extrapolation='na' gives {row}"
            continue
        if any(v is None for v in row):
            return f"{which} row {r}: x={x} gives NaN {row}"
        if not inside and mode == "zero":
            if any(abs(v) > 1e-12 for v in row):
                return f"{which} row {r}: x={x} outside the bounds with extrapolation='zero' gives {row}"
            continue
        xe = min(max(x, lo), hi) if mode == "clip" else x
        want = ev(xe)
        if Q2 is not None:
            want = want @ Q2
        if len(want) != len(row):
            return f"{which} row {r}: {len(row)} columns, expected {len(want)}"
        for j, (u, v) in enumerate(zip(row, want)):
            if abs(u - v) > 1e-7 * max(1.0, abs(v)):
                return (f"{which} row {r} col {j + 1}: {u!r} but the {'periodic' if c['cyclic'] else 'natural'} interpolating "
                        f"cubic spline basis through the recorded knots gives {float(v)!r} at x={x}")
    return None


def _cs_must_succeed(c):
    """True only in clear-cut cases: valid arguments for which the recorded knots are fully determined"""
    vals = [Fraction(v) for v in c["x"] if v is not None]
    lo = Fraction(c["lower"]) if c["lower"] is not None else min(vals)
    hi = Fraction(c["upper"]) if c["upper"] is not None else max(vals)
    if lo >= hi or (c["df"] is not None and c["knots"] is not None) or (c["df"] is None and c["knots"] is None):
        return False
    if c["mode"] == "raise" and any(v < lo or v > hi for v in vals):
        return False
    cons = c["constraints"]
    nc = 0 if cons is None else 1
    if c["df"] is not None:
        if c["df"] < (2 if (not c["cyclic"] and nc == 0) else 1):
            return False
        if c["df"] - 2 + nc + (1 if c["cyclic"] else 0) != 0:
            return False  # quantile knots may collide; the outcome depends on the data
        nk = 2
    else:
        ks = [Fraction(k) for k in c["knots"]]
        if any(k <= lo or k >= hi for k in ks):
            return False
        nk = len(set(ks)) + 2
    ncols = nk - (1 if c["cyclic"] else 0)
    if isinstance(cons, list) and any(len(r) != ncols for r in cons):
        return False
    if cons == "center" and c["mode"] in ("na",) and not any(lo <= v <= hi for v in vals):
        return False
    if ncols - nc < 0:
        return False
    return True


def oracle_cs(c, o):
    if "error" in o:
        if _cs_must_succeed(c):
            return f"cubic_spline raised {o['error']} on valid arguments (df/knots are in the documented range)"
        return None  # argument validation / too few distinct values: not part of the property
    knots = [float(Fraction(v)) for v in o["state"]["knots"]]
    if any(b <= a for a, b in zip(knots, knots[1:])) or len(knots) < 2:
        return f"recorded knots {knots} are not strictly increasing"
    ev, n = _ref_basis(knots, c["cyclic"])
    Q2 = None
    if o["state"]["constraints"] is not None:
        Q2 = numpy.array([[float(Fraction(v)) for v in col] for col in o["Q2"]]).T.reshape((n, len(o["Q2"])))
        if o.get("nan_params"):
            lo, hi = float(Fraction(o["state"]["lower"])), float(Fraction(o["state"]["upper"]))
            usable = [v for v in c["x"] if v is not None and (c["mode"] != "na" or lo <= fl(v) <= hi)]
            if not usable:
                return None  # no non-null training row at all: nothing to centre, nothing claimed
            return "the recorded constraints / Q2 contain NaN (every output value is NaN)"
    ncols = n if Q2 is None else Q2.shape[1]
    if o["first"]["ncols"] != ncols:
        return f"{o['first']['ncols']} columns, expected {ncols}"
    if c["df"] is not None and o["first"]["ncols"] != c["df"]:
        return f"{o['first']['ncols']} columns but df={c['df']}"
    if o["first"]["keys"] != list(range(1, ncols + 1)):
        return f"column keys {o['first']['keys']}"
    # identity at the knots (free basis) / rows of Q2 (constrained)
    ak = o.get("at_knots")
    if isinstance(ak, dict):
        return f"evaluating at the recorded knots raised {ak['error']}"
    eye = numpy.eye(n)
    for k, row in enumerate(ak):
        e = eye[0 if (c["cyclic"] and k == len(knots) - 1) else k]
        want = e if Q2 is None else e @ Q2
        if any(v is None for v in row) or (len(want) and numpy.abs(numpy.array(row) - want).max() > 1e-9):
            return f"at knot {k} (x={knots[k]}) the row is {row}, the cardinal basis requires {want.tolist()}"
    w = _oracle_cs_rows(c, o, c["x"], o["first"], "first call", ev, Q2)
    if w:
        return w
    if c["constraints"] == "center":
        rows = [r for r in o["first"]["rows"] if not any(v is None for v in r)]
        if not rows:
            return "centering constraint: every training row is NaN"
        means = numpy.array(rows).mean(axis=0)
        if means.size and numpy.abs(means).max() > 1e-9:
            return f"centering constraint: column means on the training data are {means.tolist()}"
    if o.get("second") is not None:
        return _oracle_cs_rows(c, o, c["x2"], o["second"], "second call", ev, Q2)
    return None


def _second_may_raise(sc, oi):
    """extrapolation='raise' and a value of the new data outside the recorded bounds"""
    if sc["mode"] != "raise" or sc["x2"] is None or "state" not in oi:
        return False
    lo, hi = Fraction(oi["state"]["lower"]), Fraction(oi["state"]["upper"])
    return any(v is not None and (Fraction(v) < lo or Fraction(v) > hi) for v in sc["x2"])


def oracle_hist(c, o):
    """The property holds for EVERY use of the transform on the arguments the user wrote: each use of a history is
    judged by the single-use oracle against the user's knots / df / bounds, whatever was used before it with the
    same argument objects."""
    subs = subcases(c)
    one = oracle_bs if c["fam"] == "bs" else oracle_cs
    n = len(subs)
    if o.get("joint_first") is not None:
        if c["fam"] == "bs":
            must = all(_bs_expected_error(sc) is None for sc in subs)
        else:
            must = all(_cs_must_succeed(sc) for sc in subs)
        if must:
            return (f"model_matrix with {n} {c['fam']} terms sharing their arguments raised {o['joint_first']} although "
                    f"every term has valid arguments")
        return None
    fails = []
    for i, (sc, oi) in enumerate(zip(subs, o["uses"])):
        if o.get("joint_second") is not None:
            sc = dict(sc, x2=None)
        w = one(sc, oi)
        if w:
            fails.append((classify(sc, oi, w) is not None, i, w))
    if fails:
        # report a use that is not an already known finding, if there is one
        _, i, w = min(fails)
        extra = ""
        if c["kcont"] not in (None, "literal") and o.get("knots_after") is not None and \
                [Fraction(v) for v in o["knots_after"]] != [Fraction(k) for k in c["args"]["knots"]]:
            extra = (f"; the caller's knots {c['kcont']} now holds "
                     f"{[float(Fraction(v)) for v in o['knots_after']]}")
        return (f"use #{i + 1} of {n} ({c['entry']}, knots given as {c['kcont']}, same argument objects in "
                f"every use): {w}{extra}")
    if o.get("joint_second") is not None and not any(_second_may_raise(sc, oi) for sc, oi in zip(subs, o["uses"])):
        return (f"get_model_matrix on new data raised {o['joint_second']} although no term has extrapolation='raise' "
                f"with a value outside its recorded bounds")
    return None


def oracle(c, o):
    if "harness_exception" in o:
        return "harness could not run the implementation: " + o["harness_exception"]
    if c["kind"] == "hist":
        return oracle_hist(c, o)
    return oracle_bs(c, o) if c["kind"] == "bs" else oracle_cs(c, o)


def classify(c, o, why):
    """known finding C12-F1: bs, extrapolation='extend', an interior knot coincides with a bound and a value
    lies strictly beyond that bound: the row is the boundary row, not the polynomial extension."""
    if c["kind"] == "hist":
        # a history hits a known finding only if every failing use does; judge the uses one by one
        if not isinstance(o.get("uses"), list):
            return None
        one = oracle_bs if c["fam"] == "bs" else oracle_cs
        ids = set()
        for sc, oi in zip(subcases(c), o["uses"]):
            if o.get("joint_second") is not None:
                sc = dict(sc, x2=None)
            w = one(sc, oi)
            if w:
                ids.add(classify(sc, oi, w))
        return ids.pop() if len(ids) == 1 else None
    if c["kind"] != "bs" or c["mode"] != "extend" or "state" not in o or "polynomial extension" not in str(why) and "extended row" not in str(why):
        return None
    d = c["degree"]
    t = [Fraction(v) for v in o["state"]["knots"]]
    lo, hi = t[0], t[-1]
    interior = t[d + 1: len(t) - d - 1]
    xs = [Fraction(v) for v in (c["x"] + (c["x2"] or [])) if v is not None]
    if (lo in interior and any(x < lo for x in xs)) or (hi in interior and any(x > hi for x in xs)):
        return "C12-F1"
    return None


LEVEL_TEXT = (
    "Proof: Lean theorems (Props/C12.lean) show for EVERY knot list, degree and x that the model of basis_spline's two-buffer "
    "sweep computes the Cox-de Boor recursion; for every degree and every non-decreasing interior knot list inside the bounds "
    "(any multiplicity) that the basis is non-negative, locally supported and sums to one on the closed interval [lower, upper]; "
    "that a successful call with df=k has exactly k columns; what each of the five extrapolation modes returns (clip = row of the "
    "clipped value, na = null row, zero = zero row, raise = error iff a value is outside, extend = polynomial extension of the "
    "boundary piece, still summing to one) and that nulls stay null rows; for the cubic regression splines that the free design "
    "matrix at knot k is the unit row e_k for ANY second-derivative map F (natural; cyclic with first and last knot identified); "
    "that under the contract B.F = D (the matrices of _get_natural_f/_get_cyclic_f, exactly as the engine evaluates it) every column "
    "of the free design matrix is, on each closed knot interval, the cubic piece computed by the model, that these pieces interpolate "
    "the unit vector, have equal second derivatives at shared knots and equal FIRST derivatives at every interior knot (every node of "
    "the circle for cc) - first-derivative continuity at a knot being EQUIVALENT to that knot's tridiagonal equation for any F -, that "
    "the second derivative vanishes at the boundary knots and the column continues as the tangent line outside the knots (natural "
    "spline, extrapolation='extend'); the derivatives are those of the polynomial pieces (Polynomial.derivative, and HasDerivAt: the "
    "glued real function is twice differentiable everywhere); "
    "and that absorbing the centering constraint gives exactly zero column means whenever Q2 is orthogonal to the constraint. "
    "The models are tied to the code by a differential correspondence on every run; quantiles, linear solves and QR enter as "
    "parameters whose contracts are checked numerically per case. The theorems are about fit/transform as FUNCTIONS of the "
    "arguments the user wrote (bs_ncols_knots: explicit knots ks give len(ks) + degree + intercept columns); that the code is "
    "such a function at every use - also when the same knots / constraints objects are handed to several terms, several "
    "model_matrix calls or repeated direct calls - is checked by the history stream of the correspondence."
)
LEVEL_NOTE = (
    "Partial: numpy.nanquantile / solve_banded / solve / qr are parameters (contracts checked per case, not proved); float rounding "
    "not modelled (1e-9 agreement), so the exact contract B.F = D of the interpolation theorems holds for the implementation's F only "
    "up to the numerically checked residual; uniqueness of the natural/periodic interpolating spline is not proved (its defining "
    "conditions are)."
)
