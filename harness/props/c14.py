"""C14 — Any input string is parsed or rejected with the library's parsing error.

Correspondence stream `c14` (engine `Engines/C14.lean`; ops `terms`, `api`, `spec`, `resolve`): the outcome (a term structure /
tokens / syntax tree / formula, or the class FormulaParsingError / SyntaxError / FormulaInvalidError / internal:<type>) of the
real entry points against the Lean model:
* `DefaultFormulaParser(flags).get_terms(s)` on exhaustive short strings over an adversarial alphabet, random Unicode strings,
  mutated valid formulas, multistage nestings, exponent literals, a fixed table of Python fragments with degenerate back-quoted
  names, a fixed table of Python fragments over every kind of AST node (lambdas with every argument-list field, comprehensions, …)
  in every position of a formula, Python fragments CPython cannot digest, parsers with a history (reconfigured / pickled / deep-copied);
* every entry point around it (`api`): `parse(target=…)` with int / str / enum targets, `get_tokens`, `get_ast`, `get_terms`, on
  `DefaultFormulaParser` and on the base class `FormulaParser(operator_resolver=DefaultOperatorResolver(<flag names>))`;
* `Formula(<list / tuple / dict / keyword specification>)` with string, Term, Formula and non-specification leaves (`spec`);
* `DefaultOperatorResolver.resolve(<operator token>)` with the sign-collapsing loop as written (`resolve`).
Oracle (impl only): the outcome is a formula or FormulaParsingError; a plain SyntaxError only when some Python fragment of the
string is itself rejected by Python; FormulaInvalidError only for a specification with a leaf that is none; operators disabled by
feature flags never appear in a result or a syntax tree; parsing terminates (per-case wall-clock cap).
"""
from __future__ import annotations

import itertools
import json
import re

from harness import parser_common as pc
from harness.props import c01

PROPERTY = "C14"
ENGINE = "c14"
REQUIRED_THEOREMS = ["shunt_errors_are_syntax", "eval_plain_no_internal", "pySyntax_only_from_fragment", "disabled_never_used",
                     "no_internal_error", "eval_no_internal",
                     "internal_error_only_nested_multistage", "no_internal_error_multistage_partial", "merge_fuel_suffices",
                     "nested_multistage_escapes", "resolve_loop_terminates", "resolve_loop_is_one_pass",
                     "parse_targets_internal", "parse_at_terms_is_get_terms", "base_parser_internal", "base_parser_tree",
                     "formula_spec_internal", "leaves_accepted_by_to_factor", "feature_flag_names_denote",
                     "feature_flag_aliases", "api_tables_live", "first_error_any_order", "evaluates_iff_no_failing_node",
                     "alias_loop_terminates", "normaliser_fails_only_with_syntax_error", "internal_error_down_to_format_expr",
                     "simplify_fuel_suffices", "power_stable", "power_stable_any", "power_capped",
                     "plain_ops_keep_distinct_factors", "power_capped_plain"]
TRUSTED = list(c01.TRUSTED) + [
    "Gen/ParseApi.lean (regenerated on every run): FormulaParser.Target members, FeatureFlags members and aliases, CONTEXT_OPENERS/CLOSERS, Token.to_factor's kind map (probed by calling it)",
    "format_expr (ast.parse / ast.unparse) is the only piece of sanitize_python_code that is NOT modelled: its result on the expression the model's own sanitize_variable_names produces enters as per-case data (keyed by that expression, computed with the real code: a different expression is a disagreement); str.isspace of the string's characters enters as data; the alias pass and the restoration are the model shared with C15 (Model/PyAlias.lean: ASCII word classes, keyword.kwlist and the alias template read from the live package by the translator)",
]
ASSUMPTIONS = [
    "exponent literals of two or more digits: the Lean model expands the n-fold product literally and is not run on them; that the literal expansion equals the code's capped one (min(n, max(#terms, 1)) copies) as an ORDERED term set is a theorem (power_capped, from power_stable) for terms with distinct factors — the invariant of Term.__init__, a hypothesis (Term.WF) in the model that every non-structural operator keeps (plain_ops_keep_distinct_factors) and that is discharged for bases of the arithmetic fragment (power_capped_plain), not for bases evaluated through structured values; on the implementation they are covered by the `bigexp` oracle stream (outcome class, termination, same result as the exponent-5 twin)",
    "the interpreter's recursion limit is not modelled: the model evaluates trees of any depth; the implementation's RecursionError for multistage stages nested >160 deep is known finding C14-F3",
    "Formula(<dict>) with a structure key that starts with an underscore (ValueError of Structured.__init__) or a non-string key (TypeError of the ** call) is API misuse outside the property; the model returns internal:ValueError for it and the theorem excludes it by hypothesis",
    "configuration errors (a feature-flag NAME or a parse target that does not exist: AttributeError / ValueError / KeyError) are modelled as internal outcomes and compared, but are not part of the property (the oracle is silent on them)",
]
RULE = (
    "quick: all strings of length <=3 over the 21-symbol alphabet a b 1 0 + - * : / ^ ( ) [ ] ~ | ` { } space . (9724 strings) "
    "+ random strings over an extended alphabet incl. quotes, %, dots, commas, non-ASCII letters/digits/spaces (length<=12) + mutated "
    "grammar-derived formulas, each with a random feature-flag subset and intercept setting; thorough: length<=4 exhaustively (204205); plus 'reconfig' cases: a parser that was used under wider feature flags and then narrowed with set_feature_flags, or that was pickled and restored / deep-copied after use, must behave like a fresh parser with the same flags; and 10x the random streams. "
    "Fixed tables run on every seed: exponent literals (incl. exponents above the number of terms, checked against the literal n-fold product of the model); `degenerate`: 44 degenerate back-quoted names x 15 Python-fragment shapes + 9 positions (lhs of ~, multi-part, multistage); `astfrag`: 105 Python expressions covering every field of ast.arguments (positional-only, keyword-only with and without default, *args, **kw, defaults that refer to columns, nested lambdas), comprehensions with several generators and conditions, conditional expressions, walrus, starred calls, f-strings, subscripts/slices, displays, plus malformed ones, each as brace / call fragment in 8 positions (lhs and rhs of `~`, `|` parts on both sides, both sides at once, multistage parts, alone) + random mixes from a small expression grammar (the variable scan of left-hand-side tokens must not let an exception escape); `deepfrag`: Python fragments nested 600-1200 deep / NUL / lone surrogates (CPython's RecursionError, MemoryError, UnicodeEncodeError); `bigexp`: exponents of 2..5000 digits (oracle only); multistage nestings 120/200/400 deep (C14-F3). "
    "`api`: targeted + random strings x parser {DefaultFormulaParser, base FormulaParser} x target {0..3, names in any case, enum, get_tokens/get_ast/get_terms} x feature flags as a set of names (any case, aliases default/all/none; 2% bogus names, 2% bogus targets); `spec`: random specification trees (depth<=3: str / list of str, Term, junk / tuple / dict / Formula object / non-specification leaf) x _parser x _nested_parser x keyword structure; `resolve`: operator tokens made of sign runs and operator characters (length<=8, plus runs of 40-100 signs). "
    "non-trivial = contains an operator or bracket character; distinct by canonical JSON"
)

SHORT = "ab10+-*:/^()[]~|`{} ."
EXT = SHORT + "'\"%.,_x\\é١ \t\n2$!<>=&@#"


def cfgs():
    out = []
    for ic, tw, mp, ms in itertools.product([True, False], repeat=4):
        out.append(dict(intercept=ic, twosided=tw, multipart=mp, multistage=ms))
    return out


ALL_CFG = cfgs()


def cases(rng, tier):
    maxlen = {"quick": 3, "thorough": 4, "search": 3}[tier]
    nrand = {"quick": 2500, "thorough": 25000, "search": 2500}[tier]
    if tier != "search":
        for n in range(0, maxlen + 1):
            for tup in itertools.product(SHORT, repeat=n):
                yield dict(kind="short", s="".join(tup), cfg=rng.choice(ALL_CFG), avail=None)
    for _ in range(nrand):
        n = rng.randint(1, 12)
        s = "".join(rng.choice(EXT) for _ in range(n))
        if c01.BIG_EXPONENT.search(s):
            continue
        yield dict(kind="random", s=s, cfg=rng.choice(ALL_CFG), avail=rng.choice([None, None, ["a", "b", "x"]]))
    for _ in range(nrand // 2):
        f = pc.gen_formula(rng, depth=rng.choice([1, 2]), dot=rng.random() < 0.2)
        try:
            pc.denote(pc.to_lists(f), dict(pc.CFG_DEFAULT, multistage=True), ["a"], ordered=False)
        except pc.TooBig:
            continue
        except Exception:
            pass
        s = c01.mutate(rng, pc.render_formula(f, rng))
        if rng.random() < 0.3:  # multistage brackets around a part
            s = "[" + s + "]" if rng.random() < 0.5 else s.replace("~", "~ [", 1) + "]"
        yield dict(kind="mutated", s=s, cfg=rng.choice(ALL_CFG), avail=rng.choice([None, ["a", "b", "x"]]))
    # exponent literals of `**` / `^` (the right operand must be a positive integer literal)
    for base in ("a", "(a+b)", "a:b", "(a+b+c)", "(a + a:b)", "(b:a + a + a:b)"):
        for op in ("**", "^", " ** "):
            for ex in ("0", "00", "000", "01", "1", "2", "02", "3", "4", "5", "7", "1.", "1.0", ".5", "..", "-1", "+2", "(1)", "(00)", "(2)", "1e2",
                       "0x1", "1_0", "b", "'2'", "2:3", "(2+3)", "(a-a)", "True", "١", "2 2", ""):
                yield dict(kind="exponent", s=f"{base}{op}{ex}", cfg=rng.choice(ALL_CFG), avail=None)
    for _ in range(nrand // 8):
        # narrow the feature flags of a parser that has already built its operator table
        cfg = dict(rng.choice(ALL_CFG))
        wide = {k: True for k in ("twosided", "multipart", "multistage") if not cfg[k] and rng.random() < 0.8}
        s = rng.choice(["y ~ x", "x | z", "y ~ x | z", "y ~ [x ~ z]", "a | b ~ c", "[a ~ b] | c", "~ a", "a + b"])
        if rng.random() < 0.4:
            s = c01.mutate(rng, s)
        yield dict(kind="reconfig", s=s, cfg=cfg, wide=wide, via=rng.choice(["parser", "resolver", "pickle", "deepcopy"]),
                   warmup=rng.sample(["a + b", "y ~ x | z", "y ~ [x ~ z]", "("], rng.randint(0, 2)), avail=None)
    for _ in range(nrand // 8):
        # structured specifications (mapping / keyword / list forms) handed to Formula with a restricted parser:
        # every nested string must be parsed under that parser's flags
        cfg = dict(rng.choice(ALL_CFG))
        pool = ["x", "x + z", "x | z", "y ~ x", "a:b - 1", "[x ~ z]", "x ~ z | w", "(", "a +", "~ q"]
        parts = {k: (c01.mutate(rng, v) if rng.random() < 0.15 else v)
                 for k, v in zip(rng.sample(["lhs", "rhs", "extra"], rng.randint(1, 3)), rng.sample(pool, 3))}
        yield dict(kind="nested", form=rng.choice(["dict", "kwargs", "assign", "list"]), parts=parts,
                   s=next(iter(parts.values())), cfg=cfg, avail=None)
    for _ in range(nrand // 5):
        st = gen_stage(rng, 2)
        s = rng.choice(["{0}", "y ~ {0}", "{0} + x", "{0} ~ z", "{0} | w", "y ~ x + {0} : {1}", "{0} ** 2"]).format(st, gen_stage(rng, 1))
        if rng.random() < 0.3:
            s = c01.mutate(rng, s)
        cfg = dict(rng.choice(ALL_CFG))
        if rng.random() < 0.7:
            cfg["multistage"] = True
        yield dict(kind="multistage", s=s, cfg=cfg, avail=None)
    for n in (120, 200, 400):  # stages nested deeper than the interpreter's recursion limit allows (known finding C14-F3)
        yield dict(kind="multistage", s="[a~" * n + "b" + "]" * n, cfg=dict(ALL_CFG[0], multistage=True), avail=None)
    yield from degenerate_cases(rng, tier, nrand)
    yield from api_cases(rng, tier, nrand)
    yield from deep_fragment_cases(rng, tier)
    yield from ast_fragment_cases(rng, tier, nrand)
    yield from big_exponent_cases(rng, tier)
    yield from spec_cases(rng, tier, nrand)
    yield from resolve_cases(rng, tier, nrand)


# Python fragments (call-style, brace) that contain DEGENERATE back-quoted names. They reach utils/code.py
# (sanitize_variable_names / sanitize_variable_name) only through sanitize_tokens -> sanitize_python_code; a top-level
# empty pair is discarded by the tokenizer. The table below is run on EVERY seed of every tier (no randomness).
DEGEN_NAMES = ["", " ", "  ", "\t", "\n", "_", "__", "1", "0", "123", "1a", "+", "+-*", "~", "|", "()", "(", "]", "{", "}", "%",
               ".", ",", "#", "a#b", "a b", "a.b", "class", "if", "None", "True", "lambda", "\u00e9", "\u65e5\u672c", "\u0661",
               "x" * 300, "_formulaic_a", "_formulaic_", "_formulaic_a_b", "a_b", "\ufb01", "x\u00b2", "e\u0301", "it's", "\\`", "\"", "'", "a'b", "a\"b", "\\", "a\\"]
DEGEN_FRAGS = ["f(`{0}`)", "np.log(`{0}`)", "f(`{0}`, `{1}`)", "f(`{0}` + a)", "f(x, `{0}`)", "{{`{0}`}}", "{{`{0}` + a}}",
               "{{`{0}` * `{1}`}}", "f(`{0}`)(`{1}`)", "f(g(`{0}`))", "f('`{0}`')", "f[`{0}`]", "`{0}`", "f(`{0}`", "f(`{0})"]
DEGEN_POS = ["{0}", "{0} ~ x", "y ~ {0}", "y ~ a | {0}", "{0} | b ~ c", "{0} + {0}", "a + {0}", "[{0} ~ z]", "y ~ [a ~ {0}]"]


def degenerate_cases(rng, tier, nrand):
    i = 0
    for n in DEGEN_NAMES:
        for fr in DEGEN_FRAGS:  # each fragment shape alone, the second name ordinary
            yield dict(kind="degenerate", s=fr.format(n, "a"), cfg=ALL_CFG[i % len(ALL_CFG)], avail=None)
            i += 1
        for k, po in enumerate(DEGEN_POS):  # every position; the name twice; mixed with another degenerate name
            fr = DEGEN_FRAGS[(i + k) % 12]
            other = [n, "a", DEGEN_NAMES[(i + 7 * k) % len(DEGEN_NAMES)]][k % 3]
            cfg = dict(ALL_CFG[(i + k) % len(ALL_CFG)])
            if "[" in po:
                cfg["multistage"] = True
            yield dict(kind="degenerate", s=po.format(fr.format(n, other)), cfg=cfg, avail=None)
            i += 1
    for _ in range(nrand // 8):  # random mixes
        names = [rng.choice(DEGEN_NAMES + ["a", "b", "x y", "q"]) for _ in range(2)]
        frag = rng.choice(DEGEN_FRAGS).format(*names)
        if rng.random() < 0.3:
            frag = frag + rng.choice([" + ", ":", " * ", " "]) + rng.choice(DEGEN_FRAGS).format(*reversed(names))
        s2 = rng.choice(DEGEN_POS).format(frag)
        if rng.random() < 0.2:
            s2 = c01.mutate(rng, s2)
        yield dict(kind="degenerate", s=s2, cfg=rng.choice(ALL_CFG), avail=rng.choice([None, None, ["a", "b", "x"]]))
    for _ in range(nrand // 3):  # quote-heavy fragments: the alternatives of UNQUOTED_BACKTICK_MATCHER (escapes, quotes inside names, unterminated quotes)
        body = "".join(rng.choice("ab`\"'\\ _1+`\"'\\x,") for _ in range(rng.randint(1, 12)))
        frag = rng.choice(["f({0})", "{{{0}}}", "f({0}, `a b`)", "f(`a b`, {0})", "g('{0}')", "g(\"{0}\")"]).format(body)
        yield dict(kind="degenerate", s=rng.choice(["{0}", "y ~ {0}", "{0} + `a b`"]).format(frag), cfg=rng.choice(ALL_CFG), avail=None)


# strings that reach the branches of the parser no other stream reaches (string literals inside an interaction, a pooled sign
# token that ends in `~` / `|`, an exponent that is a quoted string, the lone `.`)
TARGETED = ["a:\"x\"", "'x':b", "a:'2'", "\"s\"*a", "a ~ +~ b", "~ +~a", "a | +| b", "a ~ -~ b", "y ~ +| x", "a +~ b", "a -| b",
            "a ~ +~", "~+~", "|+|", ".", "a + .", "y ~ .", ". ~ a", "y ~ . - a", "(.)", ".:a", "a", "", " ", "1", "0", "y ~ a + 0",
            ") f(1 +)", "f(1 +) )", "a b f(", "'x", "a 'x", "f(1 +) 'x", "[a ~ b]", "[[a ~ b] ~ c]", "a | b", "y ~ x | z",
            "`a b`", "{a+1}", "f(x) + g(`a b`)", "a**2", "a**'2'", "a**\"x\"", "(a", "a)", "(a]", "[a)", "a +", "+ a", "a b"]

FLAG_NAMES = ("twosided", "multipart", "multistage")


def flag_names(rng, cfg):
    """the feature flags of `cfg` as a set of NAMES, the way `feature_flags={...}` accepts them (any case, aliases)"""
    on = [k for k in FLAG_NAMES if cfg[k]]
    r = rng.random()
    if r < 0.15 and on == ["twosided", "multipart"]:
        names = [rng.choice(["default", "DEFAULT", "Default"])]
    elif r < 0.15 and len(on) == 3:
        names = [rng.choice(["all", "ALL"])]
    elif r < 0.15 and not on:
        names = rng.choice([[], ["none"], ["NONE"]])
    else:
        names = [rng.choice([k, k.upper(), k.capitalize()]) for k in on]
        if rng.random() < 0.1:
            names.append("none")
        if rng.random() < 0.1 and "twosided" in on and "multipart" in on:
            names.append("default")
    rng.shuffle(names)
    return names


def api_cases(rng, tier, nrand):
    """every entry point around get_terms: parse(target=...) / get_tokens / get_ast / get_terms, on DefaultFormulaParser
    and on the base class FormulaParser(operator_resolver=DefaultOperatorResolver(<flag names>))"""
    pool = list(TARGETED)
    for _ in range(nrand // 3):
        r = rng.random()
        if r < 0.35:
            n = rng.randint(1, 8)
            s = "".join(rng.choice(EXT) for _ in range(n))
        elif r < 0.6:
            s = "".join(rng.choice(SHORT) for _ in range(rng.randint(1, 5)))
        elif r < 0.85:
            f = pc.gen_formula(rng, depth=rng.choice([1, 2]), dot=rng.random() < 0.3)
            try:  # the grammar streams bound the size of expansions (powers of large sums); do the same here
                pc.denote(pc.to_lists(f), dict(pc.CFG_DEFAULT, multistage=True), ["a"], ordered=False)
            except pc.TooBig:
                continue
            except Exception:
                pass
            s = pc.render_formula(f, rng)
            if rng.random() < 0.5:
                s = c01.mutate(rng, s)
        else:
            s = gen_stage(rng, 1)
            if rng.random() < 0.3:
                s = c01.mutate(rng, s)
        if c01.BIG_EXPONENT.search(s):
            continue
        pool.append(s)
    i = 0
    for s in TARGETED:  # fixed table: both parser classes x the three parsing targets, on every seed
        for parser in ("base", "default"):
            for target in (1, 2, 3):
                cfg = ALL_CFG[i % len(ALL_CFG)]
                i += 1
                yield dict(kind="api", s=s, cfg=cfg, parser=parser, target=target, via="parse",
                           flags=[k for k in FLAG_NAMES if cfg[k]], bogus=None, avail=["a", "b", "x"] if i % 2 else None,
                           availvia="layer" if i % 4 == 1 else "key")
    for s in pool:
        cfg = dict(rng.choice(ALL_CFG))
        parser = rng.choice(["default", "default", "base"])
        target = rng.choice([0, 1, 2, 3, 3, "tokens", "ast", "terms", "formula", "TOKENS", "Ast", "TERMS"])
        via = rng.choice(["parse", "parse", "enum", "method"])
        flags = flag_names(rng, cfg)
        bogus = None
        if rng.random() < 0.02:
            bogus = "flag"
            flags = flags + [rng.choice(["bogus", "twosided ", "name", "", "from_spec"])]
        elif rng.random() < 0.02:
            bogus = "target"
            target = rng.choice([4, 7, -1, "bogus", "term", ""])
            via = "parse"
        yield dict(kind="api", s=s, cfg=cfg, parser=parser, target=target, via=via, flags=flags, bogus=bogus,
                   avail=rng.choice([None, ["a", "b", "x"]]), availvia=rng.choice(["key", "key", "layer"]))


# ----------------------------------------------------------------------------- Python fragments with every kind of AST node

# Expressions that exercise every field of the `ast` argument lists and every expression node legal inside `eval` mode. The
# parser scans the variables of the tokens on the LEFT of `~` while tokenising (Token.required_variables ->
# utils.variables.get_expression_variables), so an exception in that scan on an unusual node escapes from get_terms/Formula.
AST_EXPRS = [
    # lambdas: every field of ast.arguments
    "(lambda: y)()", "(lambda a: a + y)(x)", "(lambda a, b=y: a + b)(x)", "(lambda a, /, b: a + b)(x, y)",
    "(lambda a, /, b=z, *, k: a + b + k)(x, k=y)", "(lambda *, k: k + 1)(k=y)", "(lambda *, k, j=y: k + j)(k=x)",
    "(lambda *, k=y, j: k + j)(j=x)", "(lambda *args: args[0])(y)", "(lambda **kw: kw['k'])(k=y)",
    "(lambda a, *args, k, **kw: a + k)(x, k=y)", "(lambda a=x, /, *rest, k=y, j, **kw: a + k + j)(j=z)",
    "(lambda a: (lambda b: a + b + z))(x)(y)", "(lambda a: lambda *, k: a + k)(x)(k=y)", "(lambda f=lambda q=y: q: f())()",
    "(lambda *, k=(lambda *, j: j)(j=y): k)()", "(lambda a, b=[t for t in y], *, c, d={x: 1}: a)(x, c=z)",
    "map(lambda v, /, *, w: v + w, y)", "sorted(y, key=lambda r, *, rev=z: r)",
    # comprehensions
    "[a for a in y]", "[a + b for a in y for b in x if a if b]", "[a for a in y if a > z for b in a if b < w]",
    "{a for a in y if a}", "{a: b for a, b in y}", "{k: [v for v in vs if v > z] for k, vs in y.items()}",
    "sum(a * b for a, b in zip(x, y))", "[(lambda q, *, r=a: q + r)(b) for a in x for b in y]", "[[c for c in r] for r in y]",
    "[a for a in (b for b in y)]", "[(a := v) for v in y]", "[a async for a in y]",
    # conditional, boolean, comparison chains, walrus
    "x if y > 0 else z", "x if y else z if w else v", "(t := y) + t", "(t := (lambda *, k: k)(k=y))", "x < y <= z != w",
    "not x and y or z", "x is None or y is not z", "x in y and z not in w",
    # calls: starred, keywords, attributes, methods on call results
    "f(*y)", "f(**y)", "f(x, *y, k=z, **w)", "f(*[a for a in y], **{k: v for k, v in z})", "np.log(y).clip(x, z)", "y.a.b(x).c",
    "f(x)(y)(z)", "f(g(h(y)))", "(x + y).sum()", "y.str.len()", "f(k=lambda *, j: j)",
    # subscripts and slices
    "y[0]", "y[x]", "y[1:2]", "y[::2]", "y[x:z:w]", "y[1:2, ::3]", "y[...]", "y[x, z]", "y[:, None]", "y[(lambda *, k: k)(k=0)]",
    "y['a']['b']", "y[x][z:w]",
    # displays, constants, f-strings, operators
    "[x, y, *z]", "(x, y)", "{x, y}", "{x: y, **z}", "{}", "()", "[]", "{**y}", "{*y}", "f'{y}'", "f'{y!r:>{w}}'", "f'{y + 1:{x}.{z}f}'",
    "f'{(lambda *, k: k)(k=y)}'", "'a' 'b'", "b'ab'", "1j * y", "-y ** +x", "~y", "y @ x", "y // x % z", "x << 2 | y >> 1 & z ^ w",
    "True", "None", "...", "y if (lambda *, k: k)(k=x) else z", "(yield)", "(yield y)", "(yield from y)", "await y", "*y", "**y",
    "lambda *, k: k", "lambda", "lambda *: 1", "lambda a, a: 1", "lambda *, k, k: 1", "(lambda *, k=: k)", "lambda /: 1",
    "[a for a in]", "f(k=1, 2)", "f(**y, *z)", "y[", "x if y",
]
AST_WRAPS = ["{{{0}}}", "f({0})", "g(y, {0})", "h({0}, k={0})"]
AST_POSITIONS = ["{0} ~ x", "y ~ {0}", "{0} | b ~ c", "y ~ a | {0}", "a + {0}:b ~ x + {0}", "[{0} ~ z] ~ w", "y ~ [{0} ~ z]", "{0}"]


def _gen_pyexpr(rng, depth, names=("x", "y", "z", "w")):
    """a small grammar of Python expressions over every node kind of `eval` mode"""
    nm = lambda: rng.choice(names)
    if depth <= 0:
        return rng.choice([nm(), nm(), "1", "'s'", "None", nm() + ".a", nm() + "[0]"])
    sub = lambda: _gen_pyexpr(rng, depth - 1, names)
    r = rng.randrange(16)
    if r == 0:  # lambda with a random argument list
        parts, call = [], []
        if rng.random() < 0.4:
            parts += ["p" + (("=" + sub()) if rng.random() < 0.3 else ""), "/"]
            call.append(sub())
        if rng.random() < 0.6:
            parts.append("a" + (("=" + sub()) if rng.random() < 0.4 else ""))
            call.append(sub())
        if rng.random() < 0.3:
            parts.append("*args")
        kw = rng.randint(0, 2)
        if kw and "*args" not in parts:
            parts.append("*")
        for i in range(kw):
            parts.append(f"k{i}" + (("=" + sub()) if rng.random() < 0.5 else ""))
            call.append(f"k{i}={sub()}")
        if rng.random() < 0.3:
            parts.append("**kw")
        body = _gen_pyexpr(rng, depth - 1, tuple(names) + ("a", "k0"))
        return f"(lambda {', '.join(parts)}: {body})({', '.join(call)})"
    if r == 1:
        gens = " ".join(f"for t{i} in {sub()}" + (f" if {sub()}" if rng.random() < 0.5 else "") for i in range(rng.randint(1, 2)))
        elt = _gen_pyexpr(rng, depth - 1, tuple(names) + ("t0",))
        return rng.choice(["[{0} {1}]", "{{{0} {1}}}", "sum({0} {1})", "{{{0}: {0} {1}}}"]).format(elt, gens)
    if r == 2:
        return f"({sub()} if {sub()} else {sub()})"
    if r == 3:
        return f"(v := {sub()})"
    if r == 4:
        return f"f({sub()}, *{sub()}, k={sub()}, **{sub()})"
    if r == 5:
        return f"{nm()}[{sub()}:{sub()}, ::{sub()}]"
    if r == 6:
        return "f'{" + sub().replace("'", '"') + "!r:>{" + nm() + "}}'"
    if r == 7:
        return rng.choice(["[{0}, *{1}]", "{{{0}: {1}, **{2}}}", "{{{0}, {1}}}", "({0}, {1})"]).format(sub(), sub(), sub())
    if r == 8:
        return f"{sub()} {rng.choice(['+', '-', '*', '@', '//', '%', '**', '<<', '|', '&', '^', 'and', 'or', '<', 'is not', 'not in'])} {sub()}"
    if r == 9:
        return f"{rng.choice(['-', '~', 'not '])}{sub()}"
    if r == 10:
        return f"{nm()}.m({sub()}).attr"
    if r == 11:
        return f"g({sub()})({sub()})"
    if r == 12:
        return f"({sub()})[{sub()}]"
    if r == 13:
        return f"{nm()} < {sub()} <= {sub()}"
    return f"h({sub()}, {sub()})"


def ast_fragment_cases(rng, tier, nrand):
    i = 0
    for e in AST_EXPRS:  # fixed table, every seed: every expression x {lhs, rhs, `|` parts, multistage, alone}
        for k, po in enumerate(AST_POSITIONS):
            frag = AST_WRAPS[(i + k) % len(AST_WRAPS)].format(e)
            cfg = dict(ALL_CFG[(i + k) % len(ALL_CFG)])
            if k < 2:  # the left- and right-hand-side positions always under a parser that accepts `~`
                cfg["twosided"] = True
            if k in (2, 3):
                cfg.update(twosided=True, multipart=True)
            if "[" in po:
                cfg.update(twosided=True, multistage=True)
            yield dict(kind="astfrag", s=po.format(frag), cfg=cfg, avail=None)
        i += 1
    for _ in range(nrand // 4):  # random mixes from the expression grammar
        e = _gen_pyexpr(rng, rng.choice([1, 2, 2, 3]))
        frag = rng.choice(AST_WRAPS).format(e)
        cfg = dict(rng.choice(ALL_CFG))
        if rng.random() < 0.7:
            cfg["twosided"] = True
        yield dict(kind="astfrag", s=rng.choice(AST_POSITIONS).format(frag), cfg=cfg, avail=None)


# ----------------------------------------------------------------------------- Python fragments CPython cannot digest

def deep_fragment_cases(rng, tier):
    """valid-looking Python fragments whose nesting (or encoding) exceeds what CPython's parser / ast.unparse accept:
    the parser's RecursionError / MemoryError / UnicodeEncodeError must not escape (fixed table, every seed)"""
    n = 1200  # CPython 3.12 with the default recursion limit gives up around 500 levels
    frags = [
        "f(" + "-" * n + "x)", "f(" + "not " * n + "x)", "f(x" + ".a" * n + ")", "f" + "(x)" * n, "f(" + "+".join(["x"] * n) + ")",
        "f(" + "x if x else " * 600 + "x)", "f(x" + "[0]" * n + ")", "f(" + "**".join(["x"] * n) + ")",
        "{" + "-" * n + "x}", "f(" + "(" * 600 + "x" + ")" * 600 + ")", "f(" + "9" * 5000 + ")", "f(\x00)",
        "f(\ud800)", "f('\ud800')", "{'\udfff' + a}", "f(`\ud800`)", "np.log(" + " + ".join("x%d" % i for i in range(600)) + ")",
    ]
    for i, fr in enumerate(frags):
        for po in ("{0}", "y ~ a + {0}", "{0} ~ x"):
            yield dict(kind="deepfrag", s=po.format(fr), cfg=ALL_CFG[(3 * i) % len(ALL_CFG)], avail=None)


# ----------------------------------------------------------------------------- exponents the model cannot expand

BIG_EXPONENTS = ["10", "11", "25", "99", "100", "4096", "999999999", "9" * 30, "1" + "0" * 100, "9" * 4000, "9" * 5000]
BIG_BASES = ["a", "(a+b)", "(a + b + c)", "(a-a)", "a:b", "(a+b+c+d+e)", "f(x)", "(y ~ a)"]


def big_exponent_cases(rng, tier):
    """`base ** E` with E of two or more digits. ORACLE ONLY: the Lean model expands the E-fold product literally and cannot
    be run on these; the oracle checks the outcome class, termination (case timeout) and that the result is the one of the
    same formula with the exponent 5 (no base below has more than 5 terms)."""
    i = 0
    for b in BIG_BASES:
        for e in BIG_EXPONENTS:
            op = ("**", "^", " ** ")[i % 3]
            yield dict(kind="bigexp", s=f"{b}{op}{e}", small=f"{b}{op}5", cfg=ALL_CFG[i % len(ALL_CFG)], avail=None)
            i += 1


# ----------------------------------------------------------------------------- Formula(<non-string specification>)

SPEC_STRS = ["x", "x + z", "x | z", "y ~ x", "a:b - 1", "[x ~ z]", "x ~ z | w", "(", "a +", "~ q", "", "1", "0", "a + a",
             "b:a + a", "f(", "f(1 +)", "a | b | c", "y ~ (a | b)", "-x", ".", "x - x", "[[a ~ b] ~ c]", "f(``)", "a:'s'"]
SPEC_OTHERS = ["none", "int", "float", "bool", "bytes", "obj", "term", "iter", "frozenset", "nan", "complex", "range"]
ITEM_OTHERS = ["none", "int", "float", "list", "tuple", "formula", "bool", "dict", "bytes"]
SPEC_KEYS = ["lhs", "rhs", "root", "a", "b", "deps", "x y", ""]


def gen_item(rng):
    r = rng.random()
    if r < 0.6:
        return {"str": rng.choice(SPEC_STRS)}
    if r < 0.8:
        return {"term": rng.choice([[["q", "lookup"]], [["a", "lookup"], ["b", "lookup"]], [["1", "literal"]], [],
                                    [["2", "literal"], ["f(x)", "python"]]])}
    return {"other": rng.choice(ITEM_OTHERS)}


def gen_spec(rng, depth):
    r = rng.random()
    if depth <= 0 or r < 0.35:
        if r < 0.06:
            return {"other": rng.choice(SPEC_OTHERS)}
        return {"str": c01.mutate(rng, rng.choice(SPEC_STRS)) if rng.random() < 0.1 else rng.choice(SPEC_STRS)}
    if r < 0.5:
        return {"list": [gen_item(rng) for _ in range(rng.randint(0, 3))]}
    if r < 0.65:
        return {"tuple": [gen_spec(rng, depth - 1) for _ in range(rng.randint(0, 3))]}
    if r < 0.85:
        return {"dict": [[k, gen_spec(rng, depth - 1)] for k in rng.sample(SPEC_KEYS, rng.randint(0, 3))]}
    if r < 0.95:
        return {"formula": gen_spec(rng, depth - 1)}
    return {"other": rng.choice(["none", "int", "term"])}


def _other(name):
    from formulaic.parser.types import Factor, Term

    return {"none": None, "int": 5, "float": 2.5, "bool": True, "bytes": b"ab", "obj": object(), "nan": float("nan"),
            "complex": 1j, "range": range(3), "term": Term([Factor("q")]), "iter": iter(["a"]), "frozenset": frozenset(["a"]),
            "list": ["b"], "tuple": ("a",), "dict": {"a": "b"}}[name]


def build_spec(spec):
    """the Python object a specification description stands for"""
    from formulaic import Formula
    from formulaic.parser.types import Factor, Term

    k, v = next(iter(spec.items()))
    if k == "str":
        return v
    if k == "other":
        return Formula("a") if v == "formula" else _other(v)
    if k == "term":
        return Term([Factor(e, eval_method=m) for e, m in v])
    if k == "formula":
        return Formula(build_spec(v))
    if k == "list":
        return [build_spec(i) for i in v]
    if k == "tuple":
        return tuple(build_spec(x) for x in v)
    return {kk: build_spec(x) for kk, x in v}


def _formulas_buildable(spec):
    from formulaic import Formula

    k, v = next(iter(spec.items()))
    if k == "formula":
        try:
            Formula(build_spec(v))
        except Exception:
            return False
        return _formulas_buildable(v)
    if k == "tuple":
        return all(_formulas_buildable(x) for x in v)
    if k == "dict":
        return all(_formulas_buildable(x) for _, x in v)
    return True


def _spec_strings(spec, out):
    k, v = next(iter(spec.items()))
    if k == "str":
        out.append(v)
    elif k in ("list", "tuple"):
        for x in v:
            _spec_strings(x, out)
    elif k == "dict":
        for _, x in v:
            _spec_strings(x, out)
    elif k == "formula":
        _spec_strings(v, out)
    return out


def _spec_only_strings(spec):
    """only dictionaries / tuples of strings: no list, no non-specification leaf"""
    k, v = next(iter(spec.items()))
    if k == "str":
        return True
    if k == "tuple":
        return all(_spec_only_strings(x) for x in v)
    if k == "dict":
        return all(_spec_only_strings(x) for _, x in v)
    return False


def spec_cases(rng, tier, nrand):
    """Formula(<list / tuple / dict / keyword specification>) with string, Term, Formula and non-specification leaves"""
    cfgs = [None] + ALL_CFG
    for _ in range(nrand // 2):
        spec = gen_spec(rng, 3)
        P, N = rng.choice(cfgs), rng.choice([None, None] + cfgs)
        kw = None
        if rng.random() < 0.25:
            kw = [[k, gen_spec(rng, 2)] for k in rng.sample(["lhs", "rhs", "a", "b"], rng.randint(0, 2))]
            if rng.random() < 0.3:
                spec = None
        parts = ([spec] if spec is not None else []) + [x for _, x in (kw or [])]
        if not all(_formulas_buildable(x) for x in parts):
            continue
        yield dict(kind="spec", s=json.dumps(spec)[:60], root=spec, kw=kw, P=P, N=N, cfg=P or pc.CFG_DEFAULT, avail=None)


# ----------------------------------------------------------------------------- DefaultOperatorResolver.resolve (the sign loop)

RESOLVE_TEXTS = ["+", "-", "++", "--", "+-", "-+", "+-+", "---", "~", "~-", "~--", "~+-", ":--", "*++", "*-", "**", "**-", "^--+",
                 "|", "|-", "|~", "+~", "-~-", "~~", "in", "%", "%in%", ".", ".-", "+.", "--.--", "++~--|+-", "=", "+=", "", "-" * 40,
                 "+-" * 25 + "~" + "-+" * 25]


def resolve_cases(rng, tier, nrand):
    texts = list(RESOLVE_TEXTS)
    for _ in range(nrand // 4):
        texts.append("".join(rng.choice("+-+-+-~|*:/^.") for _ in range(rng.randint(1, 8))))
    for t in texts:
        cfg = rng.choice(ALL_CFG)
        yield dict(kind="resolve", s=t, cfg=cfg, flags=flag_names(rng, cfg), avail=None)


def gen_stage(rng, depth):
    def side():
        if depth > 0 and rng.random() < 0.4:
            return gen_stage(rng, depth - 1)
        return pc.render(pc.gen_sum(rng, 0, {}), rng)

    inner = side() + rng.choice([" ~ ", "~", " ~"]) + side()
    if rng.random() < 0.25:
        inner = inner + rng.choice([" | ", " + ", " : "]) + side()
    return "[" + inner + "]"


def describe(c):
    if c["kind"] == "api":
        return f"api/{c['parser']}/{str(c['target']).lower()}"
    return c["kind"]


def impl_reconfig(c):
    """a parser used under `wide` flags, then narrowed to c['cfg'] with set_feature_flags (history of calls)"""
    import copy
    import pickle

    wide = dict(c["cfg"], **c["wide"])
    if c["via"] in ("pickle", "deepcopy"):
        wide = c["cfg"]  # a configured parser that travels (pickle round trip / deep copy) keeps its configuration
    p = pc.make_parser(wide)
    try:
        for warm in c["warmup"]:
            try:
                p.get_terms(warm)
            except Exception:
                pass
        flags = {k for k in ("twosided", "multipart", "multistage") if c["cfg"][k]}
        if c["via"] == "pickle":
            p = pickle.loads(pickle.dumps(p))
        elif c["via"] == "deepcopy":
            p = copy.deepcopy(p)
        elif c["via"] == "parser":
            p.set_feature_flags(flags)
        else:
            p.operator_resolver.set_feature_flags(flags)
        return {"terms": pc.canon_val(p.get_terms(c["s"]))}
    except Exception as e:
        return {"error": pc.exc_class(e)}


def nontrivial(c):
    return any(ch in c["s"] for ch in "+-*:/^~|()[]{}`%'\"")


def impl_nested(c):
    """Formula(<structured spec>, _parser=P): outcome of the whole, and of every nested string on its own"""
    from formulaic import Formula

    cfg, parts = c["cfg"], c["parts"]
    out = pc.impl_terms(c["s"], cfg)  # the correspondence still runs on the first nested string
    out["each"] = {k: pc.impl_formula(v, cfg) for k, v in parts.items()}
    try:
        P = pc.make_parser(cfg)
        if c["form"] == "dict":
            f = Formula(dict(parts), _parser=P)
        elif c["form"] == "kwargs":
            f = Formula(_parser=P, **parts)
        elif c["form"] == "list":
            f = Formula([v for v in parts.values()], _parser=P)
        else:  # build from the first part, then assign the others as attributes
            ks = list(parts)
            f = Formula({ks[0]: parts[ks[0]]}, _parser=P)
            for k in ks[1:]:
                setattr(f, k, parts[k])
        out["whole"] = {"formula": pc.canon_val(f)}
    except Exception as e:
        out["whole"] = {"error": pc.exc_class(e), "cls": type(e).__name__}
    return out


TARGET_LEVEL = {"formula": 0, "tokens": 1, "ast": 2, "terms": 3}


def impl_api(c):
    """the real entry point named by the case; observable: error class, or the value at that target"""
    from formulaic.parser import DefaultFormulaParser, DefaultOperatorResolver
    from formulaic.parser.types import FormulaParser

    ctx = {"__formulaic_variables_available__": c["avail"]} if c["avail"] is not None else {}
    if c["avail"] is not None and c.get("availvia") == "layer":  # the variables come from a named `data` layer
        from formulaic.utils.layered_mapping import LayeredMapping

        ctx = LayeredMapping({"unrelated": 0}, LayeredMapping({v: 0 for v in c["avail"]}, name="data"))
    try:
        if c["parser"] == "base":
            P = FormulaParser(operator_resolver=DefaultOperatorResolver(feature_flags=set(c["flags"])))
        else:
            P = DefaultFormulaParser(include_intercept=c["cfg"]["intercept"], feature_flags=set(c["flags"]))
        t = c["target"]
        lvl = t if isinstance(t, int) else TARGET_LEVEL.get(t.lower())
        if c["via"] == "method" and lvl in (1, 2, 3):
            r = {1: P.get_tokens, 2: P.get_ast, 3: P.get_terms}[lvl](c["s"], context=ctx)
        else:
            if c["via"] == "enum" and lvl in (0, 1, 2, 3):
                t = P.Target(lvl)
            r = P.parse(c["s"], target=t, context=ctx)
        if lvl == 0:
            return {"formula": r == c["s"]}
        if lvl == 1:
            return {"tokens": [[x.token, x.kind.value if x.kind else "none"] for x in r]}
        if lvl == 2:
            return {"ast": None if r is None else r.flatten(str_args=True)}
        return {"terms": pc.canon_val(r)}
    except Exception as e:
        return {"error": pc.exc_class(e)}


def impl_spec(c):
    from formulaic import Formula
    from formulaic.errors import FormulaInvalidError

    try:
        kwargs = {}
        if c["P"] is not None:
            kwargs["_parser"] = pc.make_parser(c["P"])
        if c["N"] is not None:
            kwargs["_nested_parser"] = pc.make_parser(c["N"])
        args = [build_spec(c["root"])] if c["root"] is not None else []
        kw = {k: build_spec(x) for k, x in (c["kw"] or [])}
        return {"formula": pc.canon_val(Formula(*args, **kwargs, **kw))}
    except Exception as e:
        if isinstance(e, FormulaInvalidError):
            return {"error": "FormulaInvalidError"}
        return {"error": pc.exc_class(e)}


def impl_resolve(c):
    from formulaic.parser import DefaultOperatorResolver
    from formulaic.parser.types import Token

    try:
        r = DefaultOperatorResolver(feature_flags=set(c["flags"]))
        return {"groups": [[[o.symbol, o.arity, bool(o.disabled)] for o in ops]
                           for _, ops in r.resolve(Token(c["s"], kind="operator"))]}
    except Exception as e:
        return {"error": pc.exc_class(e)}


def impl_bigexp(c):
    out = pc.impl_terms(c["s"], c["cfg"])
    out["small"] = pc.impl_terms(c["small"], c["cfg"])
    return out


def impl(c):
    try:
        return _impl(c)
    except BaseException as e:  # the driver's per-case wall-clock cap: a hang is an outcome the oracle must see
        if type(e).__name__ == "CaseTimeout":
            return {"error": "timeout"}
        raise


def _impl(c):
    if c["kind"] == "bigexp":
        return impl_bigexp(c)
    if c["kind"] == "api":
        return impl_api(c)
    if c["kind"] == "spec":
        return impl_spec(c)
    if c["kind"] == "resolve":
        return impl_resolve(c)
    if c["kind"] == "reconfig":
        return impl_reconfig(c)
    if c["kind"] == "nested":
        return impl_nested(c)
    return pc.impl_terms(c["s"], c["cfg"], c.get("avail"))


def _spec_request(spec):
    """the specification with every string leaf replaced by the per-string data the model needs"""
    k, v = next(iter(spec.items()))
    if k == "str":
        r = request_for(v, "terms")
        return {"str": {x: r[x] for x in ("s", "w", "sp", "norm", "pyvars", "avail", "cc", "fmt")}}
    if k in ("list", "tuple"):
        return {k: [_spec_request(x) for x in v]}
    if k == "dict":
        return {"dict": [[kk, _spec_request(x)] for kk, x in v]}
    if k == "formula":
        return {"formula": _spec_request(v)}
    return spec


_WORD = re.compile(r"\w")


def fmt_env(s):
    """what the model's `sanitize_python_code` needs from CPython for the string `s`: the Unicode classes of its characters,
    and the result of `format_expr` (ast.parse + ast.unparse) on the expression that the REAL sanitize_variable_names makes of
    every Python token the real tokenizer finds (keyed by that expression: the model must arrive at the same one)"""
    from formulaic.parser.algos.tokenize import tokenize
    from formulaic.parser.types import Token
    from formulaic.utils.code import format_expr, sanitize_variable_names

    cc = [[ch, bool(_WORD.match(ch)), ch.isdigit(), ch.isspace()] for ch in dict.fromkeys(s + " _")]  # " " and "_" are inserted by the code
    toks = []
    try:
        for t in tokenize(s):
            toks.append(t)
    except Exception:
        pass
    fmt, seen = [], set()
    for t in toks:
        if t.kind is Token.Kind.PYTHON and t.token not in seen:
            seen.add(t.token)
            try:
                e1 = _limited(lambda: sanitize_variable_names(t.token, {}, {}, template="_formulaic_{}"))
            except BaseException:  # raised, or did not return: the model finds no entry for ITS expression (fmt-missing)
                continue
            try:
                fmt.append(dict(k=e1, ok=format_expr(e1)))
            except Exception as e:
                fmt.append(dict(k=e1, mro=[k.__name__ for k in type(e).__mro__]))
    return cc, fmt


class _TooLong(BaseException):
    pass


def _limited(fn, seconds=3):
    """run `fn` under a wall-clock cap (request() is called outside the driver's per-case cap)"""
    import signal

    def onalarm(signum, frame):
        raise _TooLong()

    old = signal.signal(signal.SIGALRM, onalarm)
    signal.alarm(seconds)
    try:
        return fn()
    finally:
        signal.alarm(0)
        signal.signal(signal.SIGALRM, old)


def request_for(s, op, cfg=None, avail=None):
    try:
        r = _limited(lambda: pc.request_for(s, op, cfg, avail), 10)
    except _TooLong:  # the real sanitize_python_code does not return on this string: send the string without CPython data
        w, sp = pc.char_flags(s)
        r = dict(op=op, s=s, w=w, sp=sp, cfg=cfg or pc.CFG_DEFAULT, norm=[], pyvars=[], avail=avail)
    r["cc"], r["fmt"] = fmt_env(s)
    return r


def request(c, o):
    if c["kind"] == "bigexp":  # oracle only: the model is asked about the exponent-5 formula
        return request_for(c["small"], "terms", c["cfg"], None)
    if c["kind"] == "spec":
        return dict(op="spec", P=c["P"], N=c["N"], root=None if c["root"] is None else _spec_request(c["root"]),
                    kw=[[k, _spec_request(x)] for k, x in (c["kw"] or [])])
    if c["kind"] == "resolve":
        return dict(op="resolve", text=c["s"], flags=c["flags"])
    if c["kind"] == "api":
        r = request_for(c["s"], "api", c["cfg"], c.get("avail"))
        r.update(parser=c["parser"], flags=c["flags"], intercept=c["cfg"]["intercept"], target=c["target"])
        return r
    return request_for(c["s"], "terms", c["cfg"], c.get("avail"))


def _nosurr(x):
    """lone surrogates cannot travel through the JSON line protocol (Lean reads them as U+FFFD)"""
    if isinstance(x, str):
        return "".join("\ufffd" if 0xD800 <= ord(ch) <= 0xDFFF else ch for ch in x)
    if isinstance(x, list):
        return [_nosurr(y) for y in x]
    if isinstance(x, dict):
        return {_nosurr(k): _nosurr(v) for k, v in x.items()}
    return x


def agree(c, o, m):
    if "driver_error" in m:
        return "driver: " + m["driver_error"][:300]
    if c["kind"] == "deepfrag":
        o = _nosurr(o)
    if c["kind"] == "bigexp":  # model vs implementation on the exponent-5 formula
        o = o["small"]
    if "error" in o or "error" in m:
        # when several nodes of the tree fail, the implementation's topological evaluation order decides which exception
        # escapes; the model lists the classes of all minimal failing nodes (`alt`, proved to contain its own answer)
        if o.get("error") == m.get("error") or ("error" in o and o["error"] in m.get("alt", [])):
            return None
        return f"impl {o.get('error', 'ok')} vs model {m.get('error', 'ok')}" + (f" (or {m['alt']})" if m.get("alt") else "")
    if c["kind"] == "api":
        return None if o == m else f"accepted, but the values at target {c['target']!r} differ"
    if c["kind"] in ("spec", "resolve"):
        return None if o == m else "accepted, but the values differ"
    return None if o.get("terms") == m.get("terms") else "accepted, but the term structures differ"


def _fragment_invalid(s):
    """does some Python fragment of `s` fail to parse on its own?"""
    from formulaic.parser.algos.sanitize_tokens import sanitize_python_code
    from formulaic.parser.algos.tokenize import tokenize
    from formulaic.parser.types import Token

    try:
        for t in tokenize(s):
            if t.kind is Token.Kind.PYTHON:
                try:
                    sanitize_python_code(t.token)
                except SyntaxError:
                    return True
                except Exception:
                    pass
    except Exception:
        pass
    return False


def _has(v, what):
    if isinstance(v, dict):
        if "s" in v:
            if what == "sides" and ("lhs" in v["s"] or "rhs" in v["s"]):
                return True
            if what == "deps" and "deps" in v["s"]:
                return True
            return any(_has(x, what) for x in v["s"].values())
        if "t" in v:
            if what == "tuple":
                return True
            return any(_has(x, what) for x in v["t"])
    return False


def _ast_nodes(a):
    if isinstance(a, list):
        yield a
        for x in a[1:]:
            yield from _ast_nodes(x)


def _oracle_ast(a, cfg):
    """a syntax tree (flattened: [symbol, *args]) never contains an operator that the feature flags disable"""
    for n in _ast_nodes(a):
        if n[0] == "|" and not cfg["multipart"]:
            return "the syntax tree has a `|` node although MULTIPART is disabled"
        if n[0] == "~" and len(n) == 3 and not cfg["twosided"] and not cfg["multistage"]:
            return "the syntax tree has a two-argument `~` node although TWOSIDED and MULTISTAGE are disabled"
    return None


def _oracle_nested(c, o):
    whole, each = o["whole"], o["each"]
    bad = [k for k, v in each.items() if "error" in v]
    for k in bad:
        if each[k]["error"] not in ("FormulaParsingError", "SyntaxError"):
            return f"nested string {c['parts'][k]!r}: internal exception type escaped: {each[k]['error']}"
    if bad and "error" not in whole:
        return (f"the parser rejects {c['parts'][bad[0]]!r} under {c['cfg']}, but Formula(<{c['form']} spec>, _parser=...) "
                f"accepted it as part {bad[0]!r}")
    if "error" in whole:
        if whole["error"].startswith("internal:") and whole.get("cls") not in ("FormulaInvalidError",):
            return f"Formula(<{c['form']} spec>) let an internal exception type escape: {whole['error']}"
        if bad and whole["error"] not in ("FormulaParsingError", "SyntaxError"):
            return f"a nested string is rejected by the parser but Formula(<{c['form']} spec>) raised {whole.get('cls')}"
        if not bad and c["form"] != "list" and whole["error"] in ("FormulaParsingError", "SyntaxError"):
            return f"every nested string parses on its own under {c['cfg']}, but Formula(<{c['form']} spec>) raised {whole.get('cls')}"
        return None
    if c["form"] != "list":
        got = whole["formula"].get("s", {}) if isinstance(whole["formula"], dict) else {}
        for k, v in each.items():
            if got.get(k) != v["formula"]:
                return f"part {k!r} of Formula(<{c['form']} spec>) is {got.get(k)}, but {c['parts'][k]!r} parses to {v['formula']}"
    return None


def _oracle_spec(c, o):
    """Formula(<specification>) returns a formula or raises FormulaParsingError / a fragment's SyntaxError (from a string
    leaf) / FormulaInvalidError (a leaf that is no specification); never an internal exception type"""
    e = o.get("error")
    if e is None or e == "FormulaParsingError":
        return None
    parts = ([c["root"]] if c["root"] is not None else []) + [x for _, x in (c["kw"] or [])]
    strings = [s for p_ in parts for s in _spec_strings(p_, [])]
    if e == "SyntaxError":
        return None if any(_fragment_invalid(s) for s in strings) else "plain SyntaxError although every Python fragment of every string leaf parses on its own"
    if e == "FormulaInvalidError":
        if parts and all(_spec_only_strings(p_) for p_ in parts):
            return "FormulaInvalidError for a specification made of strings only (no list, no non-specification leaf)"
        return None
    return f"Formula(<specification>) let an internal exception type escape: {e}"


def oracle(c, o):
    if "harness_exception" in o:
        return "parsing did not terminate / harness failure: " + o["harness_exception"]
    if o.get("error") == "timeout":
        return "parsing did not terminate within the per-case wall-clock cap"
    if c["kind"] == "nested":
        w = _oracle_nested(c, o)
        if w:
            return w
    if c["kind"] == "spec":
        return _oracle_spec(c, o)
    if c["kind"] == "bigexp":
        small = o.get("small", {})
        if "terms" in o and "terms" in small and o["terms"] != small["terms"]:
            return (f"{c['s'][:40]!r} and {c['small']!r} are both accepted but give different term sets: a power beyond the "
                    "number of terms must not change the result")
    if c["kind"] == "resolve":
        e = o.get("error")
        return None if e in (None, "FormulaParsingError") else f"resolve({c['s']!r}) let an internal exception type escape: {e}"
    e = o.get("error")
    if e is not None:
        if e == "FormulaParsingError":
            return None
        if e == "SyntaxError":
            return None if _fragment_invalid(c["s"]) else "plain SyntaxError although every Python fragment parses on its own"
        if c.get("bogus") == "flag" and e == "internal:AttributeError":
            return None  # a feature-flag NAME that does not exist: a configuration error, outside the property
        if c.get("bogus") == "target" and e in ("internal:ValueError", "internal:KeyError"):
            return None  # a parse target that does not exist: a configuration error, outside the property
        return f"internal exception type escaped: {e}"
    cfg = c["cfg"]
    if c["kind"] == "api":
        if "formula" in o:
            return None if o["formula"] is True else "target FORMULA did not return the input string"
        if "tokens" in o:
            return None
        if "ast" in o:
            return _oracle_ast(o["ast"], cfg)
    v = o["terms"]
    if not cfg["twosided"] and _has(v, "sides") and not _has(v, "deps"):
        return "result has lhs/rhs although TWOSIDED is disabled"
    if not cfg["multipart"] and _has(v, "tuple") and not _has(v, "deps"):
        return "result has several parts although MULTIPART is disabled"
    if not cfg["multistage"] and _has(v, "deps"):
        return "result has stage dependencies although MULTISTAGE is disabled"
    return None


def classify(c, o, why):
    ms = c["cfg"].get("multistage")
    if c["kind"] == "spec":  # any parser involved may have the flag (the default parsers do not)
        ms = any(p and p.get("multistage") for p in (c["P"], c["N"]))
    if ms and o.get("error") == "internal:NotImplementedError":
        return "C14-F1"
    if ms and o.get("error") == "internal:RecursionError" and str(c.get("s", "")).count("[") >= 100:
        return "C14-F3"
    return None


LEVEL_TEXT = (
    "Proof: the model keeps every Python operation that can raise a non-parsing exception as an explicit 'internal' outcome. Lean theorems (32) show, for ALL token lists and ALL operator tables, that every shunting-yard failure is the parsing error and that no disabled operator occurs in a returned tree; for ALL strings that tokenisation/rewriting fails only with the parsing error or with SyntaxError exactly when an embedded Python fragment is rejected by Python; and, for ALL strings, both intercept settings and ALL EIGHT feature-flag subsets, that get_terms yields a term structure, the parsing error or a fragment's SyntaxError — never an internal exception — with ONE exception that is characterised exactly: under MULTISTAGE the NotImplementedError of known finding C14-F1, which requires a multistage `~` with a multistage `~` inside its left argument (internal_error_only_nested_multistage; no_internal_error for MULTISTAGE off; no_internal_error_multistage_partial with the excluding hypothesis and nested_multistage_escapes as the negative witness). Two shape invariants of the index-based shunting-yard carry this (no structural operator below a non-structural one; a multistage `~` entry sits directly on a `[` entry). The same statement is proved for every other entry point that is modelled: parse(target=...) at every target level, get_tokens/get_ast (parse_targets_internal), the base class FormulaParser with its lazy token stream (base_parser_internal, base_parser_tree), and Formula(<specification tree>) with string, Term, Formula and non-specification leaves, lists, tuples, dictionaries and keyword structure of unbounded nesting (formula_spec_internal). Termination: every model function is structural recursion except two fuelled ones, both with sufficiency theorems — the sign-collapsing `while True` loop of resolve (resolve_loop_terminates: it breaks within len(token) iterations and equals the one-pass function the parser model uses) and Structured._merge (merge_fuel_suffices). Token.to_factor's KeyError/RuntimeError branches (read from the live package) are proved unreachable on every leaf of every returned tree (leaves_accepted_by_to_factor). The Python-fragment normaliser is modelled down to CPython: sanitize_variable_names (the repaired back-quote regular expression, whole back-quoted names, the words reserved by the code, ASCII base names, the alias-collision loop with keywords and reserved words) and the one-pass restoration of aliases are the Lean functions of Model/PyAlias.lean (shared with C15), wrapped by the try/except of sanitize_python_code (Model/SanitizeNames.lean) and run by the correspondence; the alias loop terminates for every alias table, environment, reserved set and name (alias_loop_terminates, from Proofs/C15Loop.lean), the normaliser fails only with SyntaxError (normaliser_fails_only_with_syntax_error) and the main theorem holds assuming only that ast.parse/ast.unparse raise SyntaxError, RecursionError, MemoryError or UnicodeError (internal_error_down_to_format_expr). The order in which graphlib evaluates the tree does not matter: every minimal failing node's error is the parsing error or the known NotImplementedError (first_error_any_order). The `**` / `^` operator: the code expands min(n, max(#terms, 1)) copies of its argument, the model n copies literally; the two ORDERED term sets are equal for every ordered set of terms with distinct factors and every exponent (power_capped), because S**(n+1) = S**n as lists — same terms, same factor order of each representative, same first-occurrence order — for every n >= max(#terms, 1) (power_stable; power_stable_any: without the assumption on the terms for n >= max(#terms, 2); the bound is sharp and the assumption necessary at n = 1, both with witnesses); the assumption is the invariant of Term.__init__, every non-structural operator of the model keeps it (plain_ops_keep_distinct_factors), and for base expressions of the arithmetic fragment it is discharged (power_capped_plain). The model is tied to the code by the differential correspondence on the streams listed in the rule, and the outcome-class oracle runs on the real entry points."
)
LEVEL_NOTE = (
    "Trusted: Lean kernel + the three standard axioms; the hand model validated by correspondence (outcome class AND value: term structures, tokens, syntax trees, formulas, resolved operator groups). "
    "Parameters, not verified: format_expr (ast.parse + ast.unparse) enters as per-case data and is assumed to raise only SyntaxError / RecursionError / MemoryError / UnicodeError — checked per case (any other class is reported as internal), exercised by the `degenerate` and `deepfrag` tables; Python's re classes \\w, \\s of the tokenizer and str.isspace. "
    "Only observed (oracle, no theorem): exponents of two or more digits on the implementation (`bigexp`; that the code's min(n, max(#terms, 1)) copies give the model's literal n-fold product is the theorem power_capped, but the model is not run on these inputs), parsers with a history (`reconfig`), the assignment form of structured specifications (`nested`/assign), the interpreter's recursion limit (C14-F3). "
    "Not covered: error MESSAGES (only the class), Token API not used by the parser (__lt__, split(before=), source_loc), repr/flatten of trees deeper than the recursion limit, custom operator resolvers."
)
