"""C14 — Any input string is parsed or rejected with the library's parsing error.

Correspondence stream `c01` (op `terms`): the outcome class (ok / FormulaParsingError / SyntaxError /
internal:<type>) of the real `DefaultFormulaParser(flags).get_terms(s)` against the Lean model, on
exhaustive short strings over an adversarial alphabet, random Unicode strings and mutated valid
formulas, for every feature-flag subset.
Oracle (impl only): the outcome is a formula or FormulaParsingError; a plain SyntaxError only when
some Python fragment of the string is itself invalid; operators disabled by feature flags never
appear in a result; parsing terminates (per-case wall-clock cap).
"""
from __future__ import annotations

import itertools
import re

from harness import parser_common as pc
from harness.props import c01

PROPERTY = "C14"
ENGINE = "c01"
REQUIRED_THEOREMS = ["shunt_errors_are_syntax", "eval_plain_no_internal", "pySyntax_only_from_fragment", "disabled_never_used", "no_internal_error", "eval_no_internal"]
TRUSTED = list(c01.TRUSTED)
ASSUMPTIONS = [
    "strings whose exponent literal has two or more digits are excluded from the random streams (x**11 is valid and takes 2^11.. steps)",
]
RULE = (
    "quick: all strings of length <=3 over the 21-symbol alphabet a b 1 0 + - * : / ^ ( ) [ ] ~ | ` { } space . (9724 strings) "
    "+ random strings over an extended alphabet incl. quotes, %, dots, commas, non-ASCII letters/digits/spaces (length<=12) + mutated "
    "grammar-derived formulas, each with a random feature-flag subset and intercept setting; thorough: length<=4 exhaustively (204205); plus 'reconfig' cases: a parser that was used under wider feature flags and then narrowed with set_feature_flags, or that was pickled and restored / deep-copied after use, must behave like a fresh parser with the same flags; and 10x the random streams. "
    "non-trivial = contains an operator or bracket character; distinct by canonical JSON"
)

SHORT = "ab10+-*:/^()[]~|`{} ."
EXT = SHORT + "'\"%.,_x\\é١ \t\n2$!<>=&@#"


def cfgs():
    out = []
    for ic, tw, mp, ms in itertools.product([True, False], repeat=4):
        out.append(dict(intercept=ic, twosided=tw, multipart=mp, multistage=ms))
    return out


ALL_CFG = cfgs()


def cases(rng, tier):
    maxlen = {"quick": 3, "thorough": 4, "search": 3}[tier]
    nrand = {"quick": 2500, "thorough": 25000, "search": 2500}[tier]
    if tier != "search":
        for n in range(0, maxlen + 1):
            for tup in itertools.product(SHORT, repeat=n):
                yield dict(kind="short", s="".join(tup), cfg=rng.choice(ALL_CFG), avail=None)
    for _ in range(nrand):
        n = rng.randint(1, 12)
        s = "".join(rng.choice(EXT) for _ in range(n))
        if c01.BIG_EXPONENT.search(s):
            continue
        yield dict(kind="random", s=s, cfg=rng.choice(ALL_CFG), avail=rng.choice([None, None, ["a", "b", "x"]]))
    for _ in range(nrand // 2):
        f = pc.gen_formula(rng, depth=rng.choice([1, 2]), dot=rng.random() < 0.2)
        try:
            pc.denote(pc.to_lists(f), dict(pc.CFG_DEFAULT, multistage=True), ["a"], ordered=False)
        except pc.TooBig:
            continue
        except Exception:
            pass
        s = c01.mutate(rng, pc.render_formula(f, rng))
        if rng.random() < 0.3:  # multistage brackets around a part
            s = "[" + s + "]" if rng.random() < 0.5 else s.replace("~", "~ [", 1) + "]"
        yield dict(kind="mutated", s=s, cfg=rng.choice(ALL_CFG), avail=rng.choice([None, ["a", "b", "x"]]))
    # exponent literals of `**` / `^` (the right operand must be a positive integer literal)
    for base in ("a", "(a+b)", "a:b"):
        for op in ("**", "^", " ** "):
            for ex in ("0", "00", "000", "01", "1", "2", "02", "1.", "1.0", ".5", "..", "-1", "+2", "(1)", "(00)", "(2)", "1e2",
                       "0x1", "1_0", "b", "'2'", "2:3", "(2+3)", "(a-a)", "True", "١", "2 2", ""):
                yield dict(kind="exponent", s=f"{base}{op}{ex}", cfg=rng.choice(ALL_CFG), avail=None)
    for _ in range(nrand // 8):
        # narrow the feature flags of a parser that has already built its operator table
        cfg = dict(rng.choice(ALL_CFG))
        wide = {k: True for k in ("twosided", "multipart", "multistage") if not cfg[k] and rng.random() < 0.8}
        s = rng.choice(["y ~ x", "x | z", "y ~ x | z", "y ~ [x ~ z]", "a | b ~ c", "[a ~ b] | c", "~ a", "a + b"])
        if rng.random() < 0.4:
            s = c01.mutate(rng, s)
        yield dict(kind="reconfig", s=s, cfg=cfg, wide=wide, via=rng.choice(["parser", "resolver", "pickle", "deepcopy"]),
                   warmup=rng.sample(["a + b", "y ~ x | z", "y ~ [x ~ z]", "("], rng.randint(0, 2)), avail=None)
    for _ in range(nrand // 8):
        # structured specifications (mapping / keyword / list forms) handed to Formula with a restricted parser:
        # every nested string must be parsed under that parser's flags
        cfg = dict(rng.choice(ALL_CFG))
        pool = ["x", "x + z", "x | z", "y ~ x", "a:b - 1", "[x ~ z]", "x ~ z | w", "(", "a +", "~ q"]
        parts = {k: (c01.mutate(rng, v) if rng.random() < 0.15 else v)
                 for k, v in zip(rng.sample(["lhs", "rhs", "extra"], rng.randint(1, 3)), rng.sample(pool, 3))}
        yield dict(kind="nested", form=rng.choice(["dict", "kwargs", "assign", "list"]), parts=parts,
                   s=next(iter(parts.values())), cfg=cfg, avail=None)
    for _ in range(nrand // 5):
        st = gen_stage(rng, 2)
        s = rng.choice(["{0}", "y ~ {0}", "{0} + x", "{0} ~ z", "{0} | w", "y ~ x + {0} : {1}", "{0} ** 2"]).format(st, gen_stage(rng, 1))
        if rng.random() < 0.3:
            s = c01.mutate(rng, s)
        cfg = dict(rng.choice(ALL_CFG))
        if rng.random() < 0.7:
            cfg["multistage"] = True
        yield dict(kind="multistage", s=s, cfg=cfg, avail=None)


def gen_stage(rng, depth):
    def side():
        if depth > 0 and rng.random() < 0.4:
            return gen_stage(rng, depth - 1)
        return pc.render(pc.gen_sum(rng, 0, {}), rng)

    inner = side() + rng.choice([" ~ ", "~", " ~"]) + side()
    if rng.random() < 0.25:
        inner = inner + rng.choice([" | ", " + ", " : "]) + side()
    return "[" + inner + "]"


def describe(c):
    return c["kind"]


def impl_reconfig(c):
    """a parser used under `wide` flags, then narrowed to c['cfg'] with set_feature_flags (history of calls)"""
    import copy
    import pickle

    wide = dict(c["cfg"], **c["wide"])
    if c["via"] in ("pickle", "deepcopy"):
        wide = c["cfg"]  # a configured parser that travels (pickle round trip / deep copy) keeps its configuration
    p = pc.make_parser(wide)
    try:
        for warm in c["warmup"]:
            try:
                p.get_terms(warm)
            except Exception:
                pass
        flags = {k for k in ("twosided", "multipart", "multistage") if c["cfg"][k]}
        if c["via"] == "pickle":
            p = pickle.loads(pickle.dumps(p))
        elif c["via"] == "deepcopy":
            p = copy.deepcopy(p)
        elif c["via"] == "parser":
            p.set_feature_flags(flags)
        else:
            p.operator_resolver.set_feature_flags(flags)
        return {"terms": pc.canon_val(p.get_terms(c["s"]))}
    except Exception as e:
        return {"error": pc.exc_class(e)}


def nontrivial(c):
    return any(ch in c["s"] for ch in "+-*:/^~|()[]{}`%'\"")


def impl_nested(c):
    """Formula(<structured spec>, _parser=P): outcome of the whole, and of every nested string on its own"""
    from formulaic import Formula

    cfg, parts = c["cfg"], c["parts"]
    out = pc.impl_terms(c["s"], cfg)  # the correspondence still runs on the first nested string
    out["each"] = {k: pc.impl_formula(v, cfg) for k, v in parts.items()}
    try:
        P = pc.make_parser(cfg)
        if c["form"] == "dict":
            f = Formula(dict(parts), _parser=P)
        elif c["form"] == "kwargs":
            f = Formula(_parser=P, **parts)
        elif c["form"] == "list":
            f = Formula([v for v in parts.values()], _parser=P)
        else:  # build from the first part, then assign the others as attributes
            ks = list(parts)
            f = Formula({ks[0]: parts[ks[0]]}, _parser=P)
            for k in ks[1:]:
                setattr(f, k, parts[k])
        out["whole"] = {"formula": pc.canon_val(f)}
    except Exception as e:
        out["whole"] = {"error": pc.exc_class(e), "cls": type(e).__name__}
    return out


def impl(c):
    if c["kind"] == "reconfig":
        return impl_reconfig(c)
    if c["kind"] == "nested":
        return impl_nested(c)
    return pc.impl_terms(c["s"], c["cfg"], c.get("avail"))


def request(c, o):
    return pc.request_for(c["s"], "terms", c["cfg"], c.get("avail"))


def agree(c, o, m):
    if "driver_error" in m:
        return "driver: " + m["driver_error"][:300]
    if "error" in o or "error" in m:
        return None if o.get("error") == m.get("error") else f"impl {o.get('error', 'ok')} vs model {m.get('error', 'ok')}"
    return None if o.get("terms") == m.get("terms") else "accepted, but the term structures differ"


def _fragment_invalid(s):
    """does some Python fragment of `s` fail to parse on its own?"""
    from formulaic.parser.algos.sanitize_tokens import sanitize_python_code
    from formulaic.parser.algos.tokenize import tokenize
    from formulaic.parser.types import Token

    try:
        for t in tokenize(s):
            if t.kind is Token.Kind.PYTHON:
                try:
                    sanitize_python_code(t.token)
                except SyntaxError:
                    return True
                except Exception:
                    pass
    except Exception:
        pass
    return False


def _has(v, what):
    if isinstance(v, dict):
        if "s" in v:
            if what == "sides" and ("lhs" in v["s"] or "rhs" in v["s"]):
                return True
            if what == "deps" and "deps" in v["s"]:
                return True
            return any(_has(x, what) for x in v["s"].values())
        if "t" in v:
            if what == "tuple":
                return True
            return any(_has(x, what) for x in v["t"])
    return False


def _oracle_nested(c, o):
    whole, each = o["whole"], o["each"]
    bad = [k for k, v in each.items() if "error" in v]
    for k in bad:
        if each[k]["error"] not in ("FormulaParsingError", "SyntaxError"):
            return f"nested string {c['parts'][k]!r}: internal exception type escaped: {each[k]['error']}"
    if bad and "error" not in whole:
        return (f"the parser rejects {c['parts'][bad[0]]!r} under {c['cfg']}, but Formula(<{c['form']} spec>, _parser=...) "
                f"accepted it as part {bad[0]!r}")
    if "error" in whole:
        if whole["error"].startswith("internal:") and whole.get("cls") not in ("FormulaInvalidError",):
            return f"Formula(<{c['form']} spec>) let an internal exception type escape: {whole['error']}"
        if bad and whole["error"] not in ("FormulaParsingError", "SyntaxError"):
            return f"a nested string is rejected by the parser but Formula(<{c['form']} spec>) raised {whole.get('cls')}"
        if not bad and c["form"] != "list" and whole["error"] in ("FormulaParsingError", "SyntaxError"):
            return f"every nested string parses on its own under {c['cfg']}, but Formula(<{c['form']} spec>) raised {whole.get('cls')}"
        return None
    if c["form"] != "list":
        got = whole["formula"].get("s", {}) if isinstance(whole["formula"], dict) else {}
        for k, v in each.items():
            if got.get(k) != v["formula"]:
                return f"part {k!r} of Formula(<{c['form']} spec>) is {got.get(k)}, but {c['parts'][k]!r} parses to {v['formula']}"
    return None


def oracle(c, o):
    if "harness_exception" in o:
        return "parsing did not terminate / harness failure: " + o["harness_exception"]
    if c["kind"] == "nested":
        w = _oracle_nested(c, o)
        if w:
            return w
    e = o.get("error")
    if e is not None:
        if e == "FormulaParsingError":
            return None
        if e == "SyntaxError":
            return None if _fragment_invalid(c["s"]) else "plain SyntaxError although every Python fragment parses on its own"
        return f"internal exception type escaped: {e}"
    v = o["terms"]
    cfg = c["cfg"]
    if not cfg["twosided"] and _has(v, "sides") and not _has(v, "deps"):
        return "result has lhs/rhs although TWOSIDED is disabled"
    if not cfg["multipart"] and _has(v, "tuple") and not _has(v, "deps"):
        return "result has several parts although MULTIPART is disabled"
    if not cfg["multistage"] and _has(v, "deps"):
        return "result has stage dependencies although MULTISTAGE is disabled"
    return None


def classify(c, o, why):
    if c["cfg"].get("multistage") and o.get("error") == "internal:NotImplementedError":
        return "C14-F1"
    return None


LEVEL_TEXT = (
    "Proof: the model keeps every Python operation that can raise a non-parsing exception as an explicit 'internal' outcome; Lean theorems show for ALL token lists and ALL operator tables that every shunting-yard failure is the parsing error, for ALL strings that tokenisation/rewriting fails only with the parsing error or with SyntaxError exactly when an embedded Python fragment is rejected by Python, and for ALL expressions of the arithmetic fragment (unbounded nesting) that evaluation yields a term set or the parsing error. For parsers without the experimental MULTISTAGE flag the unrestricted statement IS proved (no_internal_error: for every string, both intercept settings and every TWOSIDED/MULTIPART subset, parsing yields a term structure, the parsing error or a fragment's SyntaxError, never an internal exception; by a shape invariant of the shunting-yard loop derived from the context-acceptance rules). With MULTISTAGE it is false of the code (known finding C14-F1) and is covered by the correspondence on exhaustive short strings (length<=3 quick, <=4 thorough) over an adversarial alphabet, random Unicode strings, mutated formulas and multistage nestings, with the outcome-class oracle on the real parser."
)
LEVEL_NOTE = (
    'Trusted: Lean kernel + the three standard axioms; the hand model validated by correspondence on the outcome class; sanitize_python_code (CPython ast) is a parameter assumed to raise only SyntaxError (checked per case: any other class is reported as internal).'
)
