"""C07 — Multi-part formulas give row-aligned parts equal to separate builds.

Correspondence stream `c07` (engine `Engines/C07.lean`, model `Model/Parts.lean` on top of
`Model/Structured.lean` and the C02 pipeline `Model/Materialize.lean`):

* `parts`   a structured formula (string with `~` / `|`, keyword / tuple / list structure through
            `Formula(...)`, nesting, a `Structured` whose `root` key is not last) is materialised by
            the REAL code — `PandasMaterializer(data).get_model_matrix(formula, drop_rows=caller, …)`,
            `formula.get_model_matrix(data, …)` or `model_matrix(formula, data, …)` — on a frame
            whose nulls are spread over the variables of different parts, with the iteration order of
            the pooled factor set chosen by the case (the set has no order of its own). The harness
            forwards what the implementation's factor evaluation returned (per distinct factor: null
            positions, transform state written, the encoder results under the joint drop list); the
            model pools, fills its memo table in the same order, accumulates the drop set, maps over
            the structure and returns per leaf: kept rows, column names, exact values, the recorded
            term structure and transform state; plus its own standalone build and spec replay of
            every leaf and the joint replay of `result.model_spec`. All of it must equal the
            implementation's observables.
* `badname` malformed stream: one part names a column that does not exist.

Oracle (implementation only, never looks at the model): matrices, specs and formula have the same
nested shape (same keys / tuple lengths at every level); every leaf has the same kept rows (pandas
index or the carried row-id column; same row count otherwise); with jointDrop := the row positions
missing from the output, every leaf equals `model_matrix(leaf terms, data, drop_rows=set(jointDrop))`,
`result.model_spec[path].get_model_matrix(data, drop_rows=set(jointDrop))` and the leaf at the same
path of `materializer.get_model_matrix(result.model_spec, drop_rows=set(jointDrop))` (names, values, rows).
Regeneration through the attached STRUCTURED spec object (where `ModelSpecs.get_model_matrix` itself
decides between joint and per-spec generation): `result.model_spec.get_model_matrix(data)`,
`model_matrix(result.model_spec, data)` and `model_matrix(result, data)` on the same data (the
caller's set supplied again) must have the formula's shape, row-aligned parts and equal the first
build part by part; on a second frame with a different null pattern (`data2`) they must have the
same shape and row-aligned parts. The model's joint replay is compared with these results too.
"""
from __future__ import annotations

import random
import string
from fractions import Fraction

import numpy
import pandas

PROPERTY = "C07"
ENGINE = "c07"
REQUIRED_THEOREMS = [
    "shape_preserved",
    "parts_row_aligned",
    "parts_columns_fit_rows",
    "part_eq_standalone",
    "part_at_path_eq_standalone",
    "iter_order_any",
    "order_independent",
    "spec_regenerates_part",
    "spec_at_path_regenerates_part",
    "specs_regenerate_jointly",
]
TRUSTED = [
    "modelled, not verified: one factor evaluation (`_lookup` / `stateful_eval` / `literal_eval` + `find_nulls`) is a "
    "parameter of the model: a function of (expression, data, pooled transform state) returning values, null positions "
    "and the transform state it writes; the harness forwards the implementation's results per distinct factor",
    "modelled, not verified: the encoders (`_encode_numerical/_encode_categorical`, contrasts, `drop_rows` inside them) are "
    "a parameter: a function of (expression, evaluated values, sorted drop list); the harness forwards the encoder results "
    "under the joint drop list (C02's format); that they remove exactly the dropped positions is property C06, the model "
    "only checks that every column has one entry per kept row",
    "the term -> scoped terms -> columns pipeline is C02's model (`Model/Materialize.lean`), reused unchanged",
    "not modelled: `encoder_state` bookkeeping of the specs, na_action other than 'drop', non-default pandas indexes, "
    "materializers other than PandasMaterializer, the non-joint branch of `ModelSpecs.get_model_matrix`, whether the "
    "caller's drop set object is updated (C06)",
    "values are compared with relative tolerance 1e-9 when the formula contains center()/scale() (the model multiplies "
    "exact rationals, numpy multiplies floats), exactly otherwise",
]
ASSUMPTIONS = [
    "a factor's evaluation does not depend on transform state written by OTHER factors during the same pass (every stateful "
    "call is keyed by its own source text and is fitted on the same full column); the model therefore evaluates every factor "
    "against the pooled state as it was before the pass. Checked per case: the implementation is run with the case's "
    "iteration order of the factor set and, for the contract check, again with the reversed order",
    "spec_regenerates_part assumes the replay contract of stateful transforms: evaluating a factor with the transform state "
    "recorded by the joint build reproduces the same values and nulls on the same data (property C04 owns that contract)",
    "part_eq_standalone / spec_regenerates_part are stated for formulas (parts that carry no transform state of their own) "
    "and, in general, under the hypothesis that the pooled state agrees with the part's own state on the part's factors",
]
RULE = (
    "parts: frames of 1-8 rows (thorough: up to 30) over numeric y,x,z,w (small integers / dyadics, nulls with p in "
    "{0,.15,.35} per variable), categorical A,B (object or Categorical, 1-3 levels, nulls), row id rid; 2-6 leaves of 0-3 "
    "terms over names, I(), {}, center(), scale(), C(), C(, contr.sum), numeric literal scalings, interactions up to degree 3, "
    "factors shared between leaves on purpose; structure = string `l1 | l2 ~ r1 | r2 | r3`, keyword/tuple/list structure via "
    "Formula(**kw) nested up to depth 3, strings with `~` under keywords, Structured with root key first; x ensure_full_rank "
    "x output pandas/numpy/sparse x cluster_by x caller drop set x random iteration order of the factor set x entry point "
    "(materializer.get_model_matrix / Formula.get_model_matrix / model_matrix; the last two only without a caller set); "
    "every case carries a second frame (same variables and levels, fresh values, different null pattern) for the "
    "regeneration through result.model_spec. "
    "non-trivial = at least two leaves and at least one null in a variable that one leaf uses and another does not; "
    "distinct by canonical JSON"
)

# ----------------------------------------------------------------------------- helpers (formats shared with C02's engine)


def fstr(x) -> str:
    x = float(x)
    if x != x or x in (float("inf"), float("-inf")):
        return "nan"
    fr = Fraction(x)
    return str(fr.numerator) if fr.denominator == 1 else f"{fr.numerator}/{fr.denominator}"


def ffloat(s: str) -> float:
    return float("nan") if s == "nan" else float(Fraction(s))


def col_values(v) -> list[float]:
    if hasattr(v, "toarray"):
        v = v.toarray()
    elif hasattr(v, "to_numpy"):
        v = v.to_numpy()
    a = numpy.asarray(v).astype(float).ravel()
    return [float(x) for x in a]


def parse_fmt(f):
    if not f:
        return None
    out = []
    for lit, name, spec, conv in string.Formatter().parse(f):
        if lit:
            out.append(["lit", lit])
        if name is not None:
            if name not in ("name", "field") or spec or conv:
                raise ValueError("unsupported format template " + repr(f))
            out.append([name])
    return out


def field_json(k):
    return {"t": str(k), "s": isinstance(k, str)}


# ----------------------------------------------------------------------------- data

NUMS = ["y", "x", "z", "w"]
CATS = ["A", "B"]
LEVELS = [["a", "b", "c"], ["u", "v", "w"], ["lo", "hi", "mid"]]


def gen_data(rng, n):
    num, cat = {}, {}
    for v in NUMS:
        p = rng.choice([0.0, 0.0, 0.15, 0.35])
        dy = rng.random() < 0.25
        vals = []
        for _ in range(n):
            if rng.random() < p:
                vals.append(None)
            elif dy:
                vals.append(fstr(Fraction(rng.randint(-12, 12), 4)))
            else:
                vals.append(fstr(rng.randint(-4, 6)))
        num[v] = vals
    for v in CATS:
        pool = rng.choice(LEVELS)
        k = rng.randint(1, 3)
        p = rng.choice([0.0, 0.0, 0.2])
        codes = [None if rng.random() < p else rng.randrange(k) for _ in range(n)]
        cat[v] = {"levels": pool[:k], "codes": codes, "declared": rng.random() < 0.5}
    return {"nrows": n, "num": num, "cat": cat}


def gen_data2(rng, data):
    """a second frame of the same length over the same variables and category levels, with fresh values and a
    DIFFERENT null pattern (nulls again spread over the variables of different parts)"""
    n = data["nrows"]
    num, cat = {}, {}
    for v in NUMS:
        p = rng.choice([0.0, 0.15, 0.35])
        num[v] = [None if rng.random() < p else fstr(rng.randint(-4, 6)) for _ in range(n)]
    for v in CATS:
        ci = data["cat"][v]
        k = len(ci["levels"])
        p = rng.choice([0.0, 0.2])
        cat[v] = {"levels": ci["levels"], "codes": [None if rng.random() < p else rng.randrange(k) for _ in range(n)],
                  "declared": ci["declared"]}
    return {"nrows": n, "num": num, "cat": cat}


def make_frame(data):
    n = data["nrows"]
    cols = {}
    for k, v in data["num"].items():
        cols[k] = numpy.array([numpy.nan if x is None else ffloat(x) for x in v], dtype=float)
    for k, c in data["cat"].items():
        vals = [None if i is None else c["levels"][i] for i in c["codes"]]
        if c["declared"]:
            cols[k] = pandas.Categorical(vals, categories=c["levels"])
        else:
            cols[k] = pandas.Series(vals, dtype=object)
    cols["rid"] = numpy.arange(1, n + 1, dtype=float)
    return pandas.DataFrame(cols, index=pandas.RangeIndex(n))


# ----------------------------------------------------------------------------- formula structures

NUM_ATOMS = ["{v}", "{v}", "{v}", "I({v}+1)", "{{{v}*2}}", "center({v})", "scale({v})", "I({v}*{w})"]
CAT_ATOMS = ["{v}", "{v}", "C({v})", "C({v}, contr.sum)"]


_FULL: list[str] = []  # numeric variables without nulls in the frame being generated for


def gen_atom(rng, pool):
    """pool: the variables this leaf prefers (so that different leaves depend on different variables)"""
    v = rng.choice(pool)
    if v in CATS:
        return rng.choice(CAT_ATOMS).format(v=v)
    w = rng.choice([x for x in NUMS])
    tpl = rng.choice(NUM_ATOMS)
    if ("center" in tpl or "scale" in tpl) and _FULL and rng.random() < 0.8:
        # a stateful transform of a column with a null is null everywhere (every row is dropped): keep that rare
        v = rng.choice(_FULL)
    return tpl.format(v=v, w=w)


def gen_leaf(rng, shared_atoms):
    """a list of term strings (possibly empty) + intercept directive"""
    pool = rng.sample(NUMS + CATS, rng.randint(1, 3))
    nterms = rng.choice([0, 1, 1, 2, 2, 3])
    terms, seen = [], set()
    for _ in range(nterms):
        k = rng.choice([1, 1, 1, 2, 2, 3])
        atoms = []
        for _ in range(k):
            a = rng.choice(shared_atoms) if shared_atoms and rng.random() < 0.35 else gen_atom(rng, pool)
            if a not in atoms:
                atoms.append(a)
        if frozenset(atoms) in seen:
            continue
        seen.add(frozenset(atoms))
        if rng.random() < 0.6:
            shared_atoms.extend(atoms)
        if rng.random() < 0.15:
            atoms.insert(rng.randrange(len(atoms) + 1), rng.choice(["2", "0.5", "3"]))
        terms.append(":".join(atoms))
    return {"leaf": terms, "icpt": rng.choice(["", "", "", "0", "1", "-1"])}


def render_leaf(lf, allow_empty=True):
    parts = list(lf["leaf"])
    if lf["icpt"] == "0":
        parts = ["0"] + parts
    elif lf["icpt"] == "1":
        parts = ["1"] + parts
    elif lf["icpt"] == "-1":
        parts = ["-1"] + parts
    if not parts:
        parts = ["0"]
    s = " + ".join(parts)
    return s.replace("+ -1", "- 1")


def add_rid(lf):
    if "rid" not in lf["leaf"]:
        lf["leaf"].append("rid")


def gen_string(rng, shared, force_rid):
    nl = rng.choice([0, 1, 1, 1, 2])
    nr = rng.choice([1, 1, 2, 2, 3])
    lhs = [gen_leaf(rng, shared) for _ in range(nl)]
    rhs = [gen_leaf(rng, shared) for _ in range(nr)]
    if force_rid:
        add_rid(rng.choice(lhs + rhs))
    return {"str": {"lhs": lhs, "rhs": rhs}}


def render_string(node):
    lhs = " | ".join(render_leaf(l) for l in node["str"]["lhs"])
    rhs = " | ".join(render_leaf(l) for l in node["str"]["rhs"])
    return (lhs + " ~ " + rhs) if node["str"]["lhs"] else ("~ " + rhs if False else rhs)


KEYS = ["a", "b", "lhs", "rhs", "m1", "deps"]


def gen_struct(rng, shared, depth):
    r = rng.random()
    if depth <= 0 or r < 0.3:
        lf = gen_leaf(rng, shared)
        return lf if rng.random() < 0.7 else {"list": lf["leaf"]}
    if r < 0.45:
        return gen_string(rng, shared, False)
    if r < 0.7:
        return {"tup": [gen_struct(rng, shared, depth - 1) for _ in range(rng.choice([0, 1, 2, 2, 3]))]}
    keys = rng.sample(KEYS, rng.randint(1, 3))
    kw = [[k, gen_struct(rng, shared, depth - 1)] for k in keys]
    root = gen_struct(rng, shared, depth - 1) if rng.random() < 0.4 else None
    return {"kw": kw, "root": root, "rootfirst": root is not None and rng.random() < 0.3}


def leaves_of(node):
    if "leaf" in node:
        return [node]
    if "list" in node:
        return [node]
    if "str" in node:
        return node["str"]["lhs"] + node["str"]["rhs"]
    if "tup" in node:
        return [l for s in node["tup"] for l in leaves_of(s)]
    out = [l for _, s in node["kw"] for l in leaves_of(s)]
    if node["root"] is not None:
        out += leaves_of(node["root"])
    return out


def build_pyspec(node):
    """case structure -> the Python object handed to `Formula`"""
    from formulaic.formula import StructuredFormula

    if "leaf" in node:
        return render_leaf(node)
    if "list" in node:
        return list(node["list"])
    if "str" in node:
        return render_string(node)
    if "tup" in node:
        return tuple(build_pyspec(s) for s in node["tup"])
    if node.get("rootfirst"):
        f = StructuredFormula(build_pyspec(node["root"]))
        for k, s in node["kw"]:
            setattr(f, k, build_pyspec(s))
        return f
    d = {k: build_pyspec(s) for k, s in node["kw"]}
    if node["root"] is not None:
        d["root"] = build_pyspec(node["root"])
    return StructuredFormula(**d)


def build_formula(c):
    from formulaic import Formula

    return Formula(build_pyspec(c["fs"]))


def gen_parts_case(rng, tier):
    maxrows = 8 if tier != "thorough" else 30
    n = rng.randint(1, maxrows) if rng.random() < 0.85 else rng.randint(1, 4)
    data = gen_data(rng, n)
    _FULL[:] = [v for v in NUMS if all(x is not None for x in data["num"][v])]
    output = rng.choice(["pandas", "pandas", "pandas", "numpy", "sparse"])
    shared: list[str] = []
    if rng.random() < 0.5:
        fs = gen_string(rng, shared, False)
    else:
        fs = gen_struct(rng, shared, 3)
        if "leaf" in fs or "list" in fs:  # no structure at all: make it a two-part string
            fs = gen_string(rng, shared, False)
    if not leaves_of(fs) and rng.random() < 0.9:  # a structure without any leaf (the joint build refuses it): keep it rare
        fs = gen_string(rng, shared, False)
    lv = leaves_of(fs)
    if lv and (output != "pandas" or rng.random() < 0.3):
        cand = [l for l in lv if "leaf" in l]
        if cand:
            add_rid(rng.choice(cand))
        else:
            lv[0]["list"].append("rid")
    caller = None
    if rng.random() < 0.35:
        caller = sorted(rng.sample(range(n), rng.randint(0, min(n, 2))))
    return dict(
        kind="parts",
        data=data,
        data2=gen_data2(rng, data),
        fs=fs,
        efr=rng.random() < 0.6,
        output=output,
        cluster=rng.random() < 0.2,
        caller=caller,
        order=rng.randrange(1 << 30),
        entry=rng.choice(["materializer", "materializer", "formula", "sugar"]),
    )


def gen_badname_case(rng):
    c = gen_parts_case(rng, "quick")
    while not leaves_of(c["fs"]):  # the rare structure without any leaf has nothing to rename
        c = gen_parts_case(rng, "quick")
    lv = [l for l in leaves_of(c["fs"])]
    tgt = rng.choice(lv)
    (tgt["leaf"] if "leaf" in tgt else tgt["list"]).append(rng.choice(["nosuch", "nosuch:x", "A:nosuch"]))
    c["kind"] = "badname"
    return c


def cases(rng, tier):
    n = {"quick": 320, "thorough": 4000, "search": 120}[tier]
    for _ in range(n):
        yield gen_parts_case(rng, tier)
    for _ in range(max(4, n // 40)):
        yield gen_badname_case(rng)


def _vars_of(lf):
    txt = " ".join(lf.get("leaf", lf.get("list", [])))
    return {v for v in NUMS + CATS if v in txt.replace("scale", "").replace("center", "")}


def nontrivial(c):
    if c["kind"] != "parts":
        return False
    lv = leaves_of(c["fs"])
    if len(lv) < 2:
        return False
    nullvars = {v for v, vals in c["data"]["num"].items() if any(x is None for x in vals)}
    nullvars |= {v for v, ci in c["data"]["cat"].items() if any(x is None for x in ci["codes"])}
    used = [_vars_of(l) for l in lv]
    return any(v in u and any(v not in u2 for u2 in used) for v in nullvars for u in used)


def _kind(node):
    for k in ("leaf", "list", "str", "tup", "kw"):
        if k in node:
            return k
    return "?"


def describe(c):
    lv = leaves_of(c["fs"])
    return f"{c['kind']},{_kind(c['fs'])},leaves={min(len(lv), 6)},{c['output']},caller={int(c['caller'] is not None)}"


# ----------------------------------------------------------------------------- observation of the implementation


def tree_of(obj, leaf):
    """Structured / tuple / leaf -> JSON tree; `leaf(x)` is called in `_flatten` order"""
    from formulaic.utils.structured import Structured

    if isinstance(obj, Structured):
        return {"node": [[k, tree_of(v, leaf)] for k, v in obj._structure.items()]}
    if isinstance(obj, tuple):
        return {"tup": [tree_of(v, leaf) for v in obj]}
    return {"leaf": leaf(obj)}


def shape_unordered(t):
    if "node" in t:
        return ("node", tuple(sorted((k, shape_unordered(v)) for k, v in t["node"])))
    if "tup" in t:
        return ("tup", tuple(shape_unordered(v) for v in t["tup"]))
    return ("leaf",)


def paths_of(t, pre=()):
    if "node" in t:
        out = {}
        for k, v in t["node"]:
            out.update(paths_of(v, pre + (("k", k),)))
        return out
    if "tup" in t:
        out = {}
        for i, v in enumerate(t["tup"]):
            out.update(paths_of(v, pre + (("i", i),)))
        return out
    return {pre: t["leaf"]}


def terms_json(formula):
    return [[f.expr for f in t.factors] for t in formula]


def structure_json(spec):
    if spec.structure is None:
        return None
    return [
        {
            "term": [f.expr for f in s.term.factors],
            "scoped": [
                {"factors": [[sf.factor.expr, bool(sf.reduced)] for sf in st.factors], "scale": fstr(st.scale)}
                for st in s.scoped_terms
            ],
            "columns": [str(x) for x in s.columns],
        }
        for s in spec.structure
    ]


def state_json(spec):
    return [[str(k), repr(v)] for k, v in spec.transform_state.items()]


def matrix_obs(mm, output):
    """one ModelMatrix -> rows / names / values"""
    spec = mm.model_spec
    if output == "pandas":
        names = [str(x) for x in mm.columns]
        arr = numpy.asarray(mm).astype(float).reshape((len(mm), len(names)))
        rows = [int(i) for i in mm.index]
    else:
        names = [str(x) for x in spec.column_names]
        arr = mm.toarray() if hasattr(mm, "toarray") else numpy.asarray(mm)
        arr = numpy.asarray(arr).astype(float)
        rows = None
    out = {"nrows": int(arr.shape[0]), "names": names}
    if arr.ndim != 2 or arr.shape[1] != len(names):
        out["shape_mismatch"] = f"{arr.shape} vs {len(names)} names"
        out["values"] = []
    else:
        out["values"] = [[fstr(x) for x in arr[:, j]] for j in range(arr.shape[1])]
        if rows is None and "rid" in names:
            j = names.index("rid")
            rows = [int(round(x)) - 1 for x in arr[:, j]]
    out["rows"] = rows
    out["structure"] = structure_json(spec)
    out["state"] = state_json(spec)
    out["terms"] = terms_json(spec.formula)
    return out


def _enc_json(m, ef, spec, r, drop):
    """the object `_encode_evaled_factor` holds right before the drop-field step, for reduced_rank=r"""
    m._encode_evaled_factor(ef, spec, drop, reduced_rank=r)  # make sure the cache entry exists
    k = ef.expr
    enc = m.encoded_cache[k] if k in m.encoded_cache else m.encoded_cache[(k, r)]
    md = getattr(enc, "__formulaic_metadata__", ef.metadata)
    if isinstance(enc, dict):
        for v in enc.values():
            if isinstance(v, dict):
                raise ValueError("nested encoded dict (not modelled)")
        cols = [[field_json(f), [fstr(x) for x in col_values(v)]] for f, v in enc.items()]
        isdict = True
    else:
        cols = [[field_json(""), [fstr(x) for x in col_values(enc)]]]
        isdict = False
    return {
        "dict": isdict,
        "cols": cols,
        "spans": bool(md.spans_intercept),
        "drop": None if md.drop_field is None else field_json(md.drop_field),
        "rmeta": bool(md.reduced),
        "fmt": parse_fmt(md.format),
        "fmtr": parse_fmt(md.format_reduced),
    }


def factors_json(m, output, drop, writes):
    from formulaic import ModelSpec
    from formulaic.parser.types import Factor
    from formulaic.utils.null_handling import find_nulls

    scratch = ModelSpec(formula=[], output=output)
    out = []
    for expr, ef in m.factor_cache.items():
        md = ef.metadata
        raw = ef.values.__wrapped__
        fj = {
            "expr": expr,
            "present": raw is not None,
            "kind": md.kind.value,
            "spans": bool(md.spans_intercept),
            "nulls": sorted(int(i) for i in find_nulls(ef.values)),
            "writes": writes.get(expr, []),
        }
        if md.kind is Factor.Kind.CONSTANT:
            fj["value"] = fstr(raw)
            fj["full"] = fj["reduced"] = {"dict": False, "cols": [[field_json(""), []]], "spans": False, "drop": None,
                                          "rmeta": False, "fmt": [], "fmtr": None}
        else:
            fj["full"] = _enc_json(m, ef, scratch, False, drop)
            fj["reduced"] = _enc_json(m, ef, scratch, True, drop)
        out.append(fj)
    return out


def _kwargs(c):
    return dict(
        ensure_full_rank=c["efr"],
        output=c["output"],
        cluster_by="numerical_factors" if c["cluster"] else "none",
    )


_MISSING = object()


class _Instrument:
    """Run-time wrappers (no hooks in the source tree) around three methods of PandasMaterializer for the
    duration of one call: choose the iteration order of the pooled factor SET, record what each cache miss of
    `_evaluate_factor` wrote to the pooled transform state, record the drop list every part is built with."""

    NAMES = ("_prepare_factor_evaluation_model_spec", "_evaluate_factor", "_build_model_matrix")

    def __init__(self, c, reverse=False):
        self.c, self.reverse = c, reverse
        self.rec = {"order": None, "drops": [], "writes": {}, "m": None, "pooled0": []}

    def __enter__(self):
        from formulaic.materializers import PandasMaterializer as PM

        rec, c, reverse = self.rec, self.c, self.reverse
        self.saved = {n: PM.__dict__.get(n, _MISSING) for n in self.NAMES}
        orig_prepare, orig_eval, orig_build = (getattr(PM, n) for n in self.NAMES)

        def prepare(m, model_specs):
            factors, spec = orig_prepare(m, model_specs)
            fl = sorted(factors, key=lambda f: f.expr)
            random.Random(c["order"]).shuffle(fl)
            if reverse:
                fl.reverse()
            rec["m"] = m
            rec["order"] = [f.expr for f in fl]
            rec["pooled0"] = [[str(k), repr(v)] for k, v in spec.transform_state.items()]
            return fl, spec

        def evaluate(m, factor, spec, drop_rows):
            before = set(spec.transform_state)
            miss = factor.expr not in m.factor_cache
            r = orig_eval(m, factor, spec, drop_rows)
            if miss:
                rec["writes"][factor.expr] = [[str(k), repr(v)] for k, v in spec.transform_state.items() if k not in before]
            return r

        def build(m, spec, drop_rows):
            rec["drops"].append([int(i) for i in drop_rows])
            return orig_build(m, spec, drop_rows=drop_rows)

        for n, f in zip(self.NAMES, (prepare, evaluate, build)):
            setattr(PM, n, f)
        return rec

    def __exit__(self, *a):
        from formulaic.materializers import PandasMaterializer as PM

        for n, v in self.saved.items():
            if v is _MISSING:
                delattr(PM, n)
            else:
                setattr(PM, n, v)
        return False


def joint_build(c, df, formula, reverse=False):
    """the real joint materialisation with the case's iteration order of the pooled factor set, through the
    entry point the case names (materializer / Formula.get_model_matrix / model_matrix)"""
    from formulaic import model_matrix
    from formulaic.materializers import PandasMaterializer

    caller = None if c["caller"] is None else set(c["caller"])
    entry = c.get("entry", "materializer") if caller is None else "materializer"
    with _Instrument(c, reverse) as rec:
        if entry == "formula":
            mm = formula.get_model_matrix(df, context={}, **_kwargs(c))
        elif entry == "sugar":
            mm = model_matrix(formula, df, context={}, **_kwargs(c))
        else:
            mm = PandasMaterializer(df).get_model_matrix(formula, drop_rows=caller, **_kwargs(c))
    rec["caller_after"] = None if caller is None else sorted(int(i) for i in caller)
    return rec["m"], mm, rec


def leaf_list(tree, leaves):
    return [leaves[i] for i in paths_of(tree).values()]


def impl(c):
    from formulaic import model_matrix
    from formulaic.model_matrix import ModelMatrix

    df = make_frame(c["data"])
    n = c["data"]["nrows"]
    formula = build_formula(c)
    fleaves = []
    ftree = tree_of(formula, lambda f: (fleaves.append(f), len(fleaves) - 1)[1])
    out = {"n": n, "ftree": ftree, "fterms": [terms_json(f) for f in fleaves]}
    try:
        m, mm, rec = joint_build(c, df, formula)
    except Exception as e:
        out["error"] = type(e).__name__
        out["msg"] = str(e)[:200]
        # do the parts materialise on their own (caller's set only)?
        alone = []
        for f in fleaves:
            try:
                model_matrix(f, df, context={}, drop_rows=None if c["caller"] is None else set(c["caller"]), **_kwargs(c))
                alone.append(None)
            except Exception as e2:
                alone.append(type(e2).__name__)
        out["alone_errors"] = alone
        return out
    out["order"] = rec["order"]
    out["pooled0"] = rec["pooled0"]
    drops = rec["drops"]
    out["drop"] = drops[0] if drops else []
    out["drops_all_equal"] = all(d == drops[0] for d in drops) if drops else True
    mleaves = []
    out["mtree"] = tree_of(mm, lambda x: (mleaves.append(x), len(mleaves) - 1)[1])
    out["is_matrix_leaf"] = [isinstance(x, ModelMatrix) for x in mleaves]
    sleaves = []
    out["stree"] = tree_of(mm.model_spec, lambda s: (sleaves.append(s), len(sleaves) - 1)[1])
    out["leaves"] = [matrix_obs(x, c["output"]) for x in mleaves]
    out["spec_leaves"] = [{"terms": terms_json(s.formula), "structure": structure_json(s), "state": state_json(s)} for s in sleaves]
    out["factors"] = factors_json(m, c["output"], out["drop"], rec["writes"])
    # contract check of the evaluation abstraction: reversed iteration order of the factor set
    try:
        m2, mm2, rec2 = joint_build(c, df, formula, reverse=True)
        l2 = []
        tree_of(mm2, lambda x: (l2.append(x), 0)[1])
        o2 = [matrix_obs(x, c["output"]) for x in l2]
        out["reversed_same"] = _same_leaves(out["leaves"], o2, state="unordered") is None and (rec2["drops"][:1] == drops[:1])
    except Exception as e:
        out["reversed_same"] = False
        out["reversed_error"] = type(e).__name__
    # joint drop set, from the OUTPUT rows
    known = [lf["rows"] for lf in out["leaves"] if lf["rows"] is not None]
    jd = sorted(set(range(n)) - set(known[0])) if known else None
    out["joint_drop_from_rows"] = jd
    # standalone builds of every formula leaf, and replays of every attached spec
    out["standalone"], out["replay"] = [], []
    if jd is not None:
        for f in fleaves:
            try:
                sm = model_matrix(f, df, context={}, drop_rows=set(jd), **_kwargs(c))
                out["standalone"].append(matrix_obs(sm, c["output"]))
            except Exception as e:
                out["standalone"].append({"error": type(e).__name__, "msg": str(e)[:160]})
        for sp in sleaves:  # the ATTACHED specs: leaves of `result.model_spec`
            try:
                rm = sp.get_model_matrix(df, context={}, drop_rows=set(jd))
                out["replay"].append(matrix_obs(rm, c["output"]))
            except Exception as e:
                out["replay"].append({"error": type(e).__name__, "msg": str(e)[:160]})
        # … and all attached specs replayed jointly (`ModelSpecs` through the materializer, drop set supplied)
        try:
            from formulaic.materializers import PandasMaterializer

            with _Instrument(c):
                jm = PandasMaterializer(df).get_model_matrix(mm.model_spec, drop_rows=set(jd))
            jl = []
            out["jtree"] = tree_of(jm, lambda x: (jl.append(x), len(jl) - 1)[1])
            out["jreplay"] = [matrix_obs(x, c["output"]) for x in jl]
        except Exception as e:
            out["jtree"] = None
            out["jreplay"] = {"error": type(e).__name__, "msg": str(e)[:160]}
    # regeneration through the attached STRUCTURED spec object (`ModelSpecs.get_model_matrix` decides by itself
    # whether the parts are generated jointly): on the same data (the caller's set, if any, supplied again) …
    def kw():
        return {} if c["caller"] is None else {"drop_rows": set(c["caller"])}

    routes = [
        ("result.model_spec.get_model_matrix(data)", lambda d, k: mm.model_spec.get_model_matrix(d, context={}, **k)),
        ("model_matrix(result.model_spec, data)", lambda d, k: model_matrix(mm.model_spec, d, context={}, **k)),
        ("model_matrix(result, data)", lambda d, k: model_matrix(mm, d, context={}, **k)),
    ]

    def regen(fn, d, k):
        try:
            r = fn(d, k)
            rl = []
            tree = tree_of(r, lambda x: (rl.append(x), len(rl) - 1)[1])
            return {"tree": tree, "leaves": [matrix_obs(x, c["output"]) for x in rl]}
        except Exception as e:
            return {"error": type(e).__name__, "msg": str(e)[:160]}

    out["regen"] = [[name, regen(fn, df, kw())] for name, fn in routes]
    # … and, last (a replay may add encoder state to the shared spec objects), on a second frame with a different null pattern
    out["regen2"] = []
    if c.get("data2") is not None:
        df2 = make_frame(c["data2"])
        out["regen2"] = [[name, regen(fn, df2, {})] for name, fn in routes[:2]]
    return out


# ----------------------------------------------------------------------------- comparisons


def _val_eq(a: str, b: str, tol: bool) -> bool:
    if a == b:
        return True
    if a == "nan" or b == "nan":
        return False
    if not tol:
        return Fraction(a) == Fraction(b)
    x, y = ffloat(a), ffloat(b)
    return abs(x - y) <= 1e-9 * (1 + abs(y))


def _same_matrix(a, b, tol, what="matrix", structure=False, state=False):
    """a, b: matrix observables. None when equal (names, values, rows)"""
    if "error" in a or "error" in b:
        if a.get("error") == b.get("error"):
            return None
        return f"{what}: {a.get('error', 'no error')} vs {b.get('error', 'no error')} {b.get('msg', a.get('msg', ''))}"
    if a["names"] != b["names"]:
        return f"{what}: column names {a['names']} vs {b['names']}"
    if a["nrows"] != b["nrows"]:
        return f"{what}: {a['nrows']} rows vs {b['nrows']} rows"
    if a["rows"] is not None and b["rows"] is not None and a["rows"] != b["rows"]:
        return f"{what}: kept rows {a['rows']} vs {b['rows']}"
    if len(a["values"]) != len(b["values"]):
        return f"{what}: {len(a['values'])} vs {len(b['values'])} columns"
    for nm, x, y in zip(a["names"], a["values"], b["values"]):
        if len(x) != len(y):
            return f"{what}: column {nm} has length {len(x)} vs {len(y)}"
        for i, (p, q) in enumerate(zip(x, y)):
            if not _val_eq(p, q, tol):
                return f"{what}: column {nm} row {i}: {p} vs {q}"
    if structure and a.get("structure") != b.get("structure"):
        return f"{what}: recorded structure {a.get('structure')} vs {b.get('structure')}"
    if state == "unordered" and sorted(a.get("state") or []) != sorted(b.get("state") or []):
        return f"{what}: transform state {a.get('state')} vs {b.get('state')}"
    if state is True and a.get("state") != b.get("state"):
        return f"{what}: transform state {a.get('state')} vs {b.get('state')}"
    return None


def _same_leaves(a, b, state=False):
    if len(a) != len(b):
        return "different number of leaves"
    for i, (x, y) in enumerate(zip(a, b)):
        w = _same_matrix(x, y, False, f"leaf {i}", structure=True, state=state)
        if w:
            return w
    return None


def _inexact(c):
    txt = str(c["fs"])
    return "center(" in txt or "scale(" in txt


# ----------------------------------------------------------------------------- request / agree


def tree_request(ftree, fterms):
    if "node" in ftree:
        return {"node": [[k, tree_request(v, fterms)] for k, v in ftree["node"]]}
    if "tup" in ftree:
        return {"tup": [tree_request(v, fterms) for v in ftree["tup"]]}
    return {"leaf": {"terms": fterms[ftree["leaf"]], "state": []}}


def request(c, o):
    if "harness_exception" in o:
        return dict(op="noop")
    base = dict(
        op="joint",
        n=o["n"],
        caller=c["caller"] or [],
        efr=c["efr"],
        cluster=c["cluster"],
        asdict=c["output"] == "pandas",
        variant="fast",
        tree=tree_request(o["ftree"], o["fterms"]),
    )
    if "error" in o:
        # the model is given an evaluation table in which every expression that mentions `nosuch` fails
        exprs = sorted({e for ts in o["fterms"] for t in ts for e in t})
        base["order"] = exprs
        base["droplist"] = []
        base["factors"] = [
            {"expr": e, "error": "FactorEvaluationError"} if "nosuch" in e else
            {"expr": e, "present": True, "kind": "numerical", "spans": False, "nulls": [], "writes": [],
             "full": {"dict": False, "cols": [[field_json(""), ["0"] * o["n"]]], "spans": False, "drop": None, "rmeta": False, "fmt": [], "fmtr": None},
             "reduced": {"dict": False, "cols": [[field_json(""), ["0"] * o["n"]]], "spans": False, "drop": None, "rmeta": False, "fmt": [], "fmtr": None}}
            for e in exprs
        ]
        return base
    base["order"] = o["order"]
    base["droplist"] = o["drop"]
    base["factors"] = o["factors"]
    return base


def _model_leaf_obs(ml):
    if "error" in ml:
        return ml
    return {
        "names": [e["name"] for e in ml["columns"]],
        "values": [e["values"] for e in ml["columns"]],
        "nrows": ml["nrows"],
        "rows": ml["rows"],
        "structure": ml["structure"],
        "state": ml["state"],
    }


def agree(c, o, m):
    if "driver_error" in m:
        return "driver: " + m["driver_error"][:300]
    if "harness_exception" in o:
        return None
    if "error" in o or "error" in m:
        if o.get("error") == m.get("error"):
            return None
        return f"impl {o.get('error', 'no error')} ({o.get('msg', '')}) vs model {m.get('error', 'no error')}"
    tol = _inexact(c)
    if not o["reversed_same"]:
        return "contract of the evaluation abstraction violated: reversing the iteration order of the factor set changed the result " + o.get("reversed_error", "")
    if not o["drops_all_equal"]:
        return "the parts were built with different drop lists"
    if m["drop"] != o["drop"]:
        return f"joint drop list: model {m['drop']} vs impl {o['drop']}"
    if m["tree"] != o["mtree"]:
        return f"matrix tree: model {m['tree']} vs impl {o['mtree']}"
    if m["stree"] != o["stree"]:
        return f"spec tree: model {m['stree']} vs impl {o['stree']}"
    if len(m["leaves"]) != len(o["leaves"]):
        return "different number of leaves"
    pandas_out = c["output"] == "pandas"
    for i, (ml, ol) in enumerate(zip(m["leaves"], o["leaves"])):
        mo = _model_leaf_obs(ml)
        if not pandas_out and "error" not in mo:
            mo = dict(mo, rows=mo["rows"] if ol["rows"] is not None else None)
        w = _same_matrix(mo, ol, tol, f"leaf {i} (model vs impl)", structure=True, state=True)
        if w:
            return w
        if ml.get("terms") != ol["terms"]:
            return f"leaf {i}: spec terms {ml.get('terms')} vs {ol['terms']}"
    for i, (ms, os_) in enumerate(zip(m["specs"], o["spec_leaves"])):
        if ms != os_:
            return f"spec leaf {i}: model {ms} vs impl {os_}"
    # the model's own standalone builds / replays against the implementation's
    fl = leaf_list(o["ftree"], list(range(len(o["fterms"]))))
    if o["joint_drop_from_rows"] is not None:
        if o["joint_drop_from_rows"] != m["drop"]:
            return f"rows missing from the output {o['joint_drop_from_rows']} vs model drop list {m['drop']}"
        for j, (ms, fi) in enumerate(zip(m["standalone"], fl)):
            w = _same_matrix(_strip_rows(_model_leaf_obs(ms), o["standalone"][fi]), o["standalone"][fi], tol,
                             f"standalone build of formula leaf {fi} (model vs impl)", structure=True)
            if w:
                return w
        if isinstance(o["jreplay"], dict) or "error" in m["jreplay"]:
            a, b = (o["jreplay"].get("error") if isinstance(o["jreplay"], dict) else None), m["jreplay"].get("error")
            if a != b:
                return f"joint replay: impl {a} vs model {b}"
        else:
            if m["jreplay"]["tree"] != o["jtree"]:
                return f"joint replay tree: model {m['jreplay']['tree']} vs impl {o['jtree']}"
            for j, (ms, ol) in enumerate(zip(m["jreplay"]["leaves"], o["jreplay"])):
                w = _same_matrix(_strip_rows(_model_leaf_obs(ms), ol), ol, tol, f"joint replay leaf {j} (model vs impl)", structure=True, state=True)
                if w:
                    return w
            for name, rg in o.get("regen", []):
                if "error" in rg:
                    return f"{name} raised {rg['error']} ({rg.get('msg', '')}), the model's joint replay did not"
                if m["jreplay"]["tree"] != rg["tree"]:
                    return f"{name}: tree {rg['tree']} vs model's joint replay {m['jreplay']['tree']}"
                for j, (ms, ol) in enumerate(zip(m["jreplay"]["leaves"], rg["leaves"])):
                    w = _same_matrix(_strip_rows(_model_leaf_obs(ms), ol), ol, tol, f"{name} leaf {j} (model's joint replay vs impl)", structure=True)
                    if w:
                        return w
        for j, ms in enumerate(m["replay"]):
            w = _same_matrix(_strip_rows(_model_leaf_obs(ms), o["replay"][j]), o["replay"][j], tol,
                             f"replay of spec {j} (model vs impl)", structure=True)
            if w:
                return w
    return None


def _strip_rows(mo, ol):
    if "error" in mo or "error" in ol:
        return mo
    return dict(mo, rows=mo["rows"] if ol["rows"] is not None else None)


# ----------------------------------------------------------------------------- oracle


def oracle(c, o):
    if "harness_exception" in o:
        return "harness could not run the implementation: " + o["harness_exception"]
    if c["kind"] == "badname":
        return None if "error" in o else "a formula naming a missing column materialised"
    if "error" in o:
        if o["alone_errors"] and all(e is None for e in o["alone_errors"]):
            return f"the joint build raised {o['error']} ({o.get('msg', '')}) although every part materialises on its own"
        return None
    # 1. same nested shape: formula, matrices, specs
    sf, sm, ss = shape_unordered(o["ftree"]), shape_unordered(o["mtree"]), shape_unordered(o["stree"])
    if sm != sf:
        return f"matrices do not have the shape of the formula: {o['mtree']} vs {o['ftree']}"
    if ss != sf:
        return f"specs do not have the shape of the formula: {o['stree']} vs {o['ftree']}"
    if not all(o["is_matrix_leaf"]):
        return "a leaf of the result is not a ModelMatrix"
    fp, mp, sp = paths_of(o["ftree"]), paths_of(o["mtree"]), paths_of(o["stree"])
    for lf in o["leaves"]:
        if "shape_mismatch" in lf:
            return "matrix shape and column names disagree: " + lf["shape_mismatch"]
    # 2. all parts contain the same rows
    counts = {lf["nrows"] for lf in o["leaves"]}
    if len(counts) > 1:
        return f"parts have different numbers of rows: {[lf['nrows'] for lf in o['leaves']]}"
    known = [lf["rows"] for lf in o["leaves"] if lf["rows"] is not None]
    for r in known:
        if r != known[0]:
            return f"parts contain different rows: {known[0]} vs {r}"
    jd = o["joint_drop_from_rows"]
    tol = _inexact(c)
    w = _oracle_regen(c, o, sf, fp, mp, tol)
    if w:
        return w
    if jd is None:
        return None
    for path, fi in fp.items():
        ml = o["leaves"][mp[path]]
        # the leaf holds that part's terms
        if ml["terms"] != o["fterms"][fi]:
            return f"part at {path} was built from terms {ml['terms']}, the formula has {o['fterms'][fi]}"
        # 3. part == standalone build with the jointly dropped rows supplied
        w = _same_matrix(ml, o["standalone"][fi], tol, f"part at {path} vs model_matrix(part terms, data, drop_rows={jd})")
        if w:
            return w
        # 4. the attached spec regenerates the part
        sl = o["spec_leaves"][sp[path]]
        if sl["terms"] != o["fterms"][fi]:
            return f"spec at {path} holds terms {sl['terms']}, the formula has {o['fterms'][fi]}"
        w = _same_matrix(ml, o["replay"][sp[path]], tol, f"part at {path} vs result.model_spec[{path}].get_model_matrix(data, drop_rows={jd})")
        if w:
            return w
    # 4b. the attached specs regenerate their parts when they are replayed together
    if isinstance(o["jreplay"], dict):
        return f"replaying result.model_spec jointly raised {o['jreplay']['error']}: {o['jreplay'].get('msg', '')}"
    if shape_unordered(o["jtree"]) != sf:
        return f"joint replay of result.model_spec has shape {o['jtree']}, the formula {o['ftree']}"
    jp = paths_of(o["jtree"])
    for path in fp:
        w = _same_matrix(o["leaves"][mp[path]], o["jreplay"][jp[path]], tol,
                         f"part at {path} vs the same part of materializer.get_model_matrix(result.model_spec, drop_rows={jd})")
        if w:
            return w
    return None


def _aligned(leaves):
    """all parts contain the same rows: None or a description of the misalignment"""
    counts = [lf["nrows"] for lf in leaves]
    if len(set(counts)) > 1:
        return f"parts have different numbers of rows: {counts}"
    known = [lf["rows"] for lf in leaves if lf["rows"] is not None]
    for r in known:
        if r != known[0]:
            return f"parts contain different rows: {known[0]} vs {r}"
    return None


def _oracle_regen(c, o, sf, fp, mp, tol):
    """5. regenerating from the attached STRUCTURED spec on the same data gives the same shape, row-aligned parts
    and the parts of the first build; 6. on other data (different null pattern) the same shape and row-aligned parts"""
    for name, rg in o.get("regen", []):
        if "error" in rg:
            return f"{name} raised {rg['error']}: {rg.get('msg', '')} (the first build on the same data succeeded)"
        if shape_unordered(rg["tree"]) != sf:
            return f"{name} has shape {rg['tree']}, the formula {o['ftree']}"
        w = _aligned(rg["leaves"])
        if w:
            return f"{name}: {w}"
        rp = paths_of(rg["tree"])
        for path in fp:
            w = _same_matrix(o["leaves"][mp[path]], rg["leaves"][rp[path]], tol, f"part at {path} of the first build vs the same part of {name}")
            if w:
                return w
    for name, rg in o.get("regen2", []):
        if "error" in rg:
            continue  # whether a spec can be replayed on OTHER data at all is C04/C09's question
        if shape_unordered(rg["tree"]) != sf:
            return f"{name} on a second frame has shape {rg['tree']}, the formula {o['ftree']}"
        w = _aligned(rg["leaves"])
        if w:
            return f"{name} on a second frame with another null pattern: {w}"
    return None


def classify(c, o, why):
    return None


LEVEL_TEXT = (
    "Proof: Lean theorems (Props/C07.lean) about the executable model of get_model_matrix steps 0-3 (pooling of factors and "
    "transform state over all parts, one memoised evaluation per distinct factor in an arbitrary iteration order, one shared "
    "drop set, Structured._map building one matrix and one spec per leaf through C02's pipeline) show for ALL structures, "
    "null patterns, caller drop sets and iteration orders: matrices, specs and formula have the same shape; every part has "
    "exactly the rows outside the joint drop set (= caller's set united with the nulls of every factor of every part) and "
    "every column has one entry per such row; each part equals the standalone build of its own terms with the joint drop "
    "set supplied; the result does not depend on the iteration order of the factor set; replaying a part's spec with the "
    "joint drop set regenerates the part. The model is tied to the code by a differential correspondence on every run; an "
    "implementation-only oracle checks the four clauses of the property on the real outputs."
)
LEVEL_NOTE = (
    "Trusted: Lean kernel + propext/Classical.choice/Quot.sound; the hand model of base.py get_model_matrix/_build_model_matrix "
    "(structure reuse, _enforce_structure) validated by correspondence; factor evaluation and the encoders enter as parameters "
    "(results forwarded per case); stateful transforms are assumed order-insensitive and replayable (checked per case)."
)
