"""C07 — Multi-part formulas give row-aligned parts equal to separate builds.

Correspondence stream `c07` (engine `Engines/C07.lean`, model `Model/Parts.lean` on top of
`Model/Structured.lean` and the C02 pipeline `Model/Materialize.lean`):

* `parts`   a structured formula (string with `~` / `|`, keyword / tuple / list structure through
            `Formula(...)`, nesting, a `Structured` whose `root` key is not last) is materialised by
            the REAL code — `PandasMaterializer(data).get_model_matrix(formula, drop_rows=caller, …)`,
            `formula.get_model_matrix(data, …)` or `model_matrix(formula, data, …)` — on a frame
            whose nulls are spread over the variables of different parts, with the iteration order of
            the pooled factor set chosen by the case (the set has no order of its own). The harness
            forwards what the implementation's factor evaluation returned (per distinct factor: null
            positions, transform state written, the encoder results under the joint drop list); the
            model pools, fills its memo table in the same order, accumulates the drop set, maps over
            the structure and returns per leaf: kept rows, column names, exact values, the recorded
            term structure and transform state; plus its own standalone build and spec replay of
            every leaf and the joint replay of `result.model_spec`. All of it must equal the
            implementation's observables.
* `badname` malformed stream: one part names a column that does not exist.
* `hist`    multi-step histories (model `Model/PartsHist.lean`, engine op `hist`): one or two structured builds, then a
            structure COMPOSED from their parts (attached specs or built matrices) and fresh, never materialized parts
            (before / after / between, in place or in a new container), built again through
            `ModelSpecs.get_model_matrix` / `model_matrix` / a materializer with and without a caller drop set. The
            model resolves the references in ITS earlier results, decides joint vs per-spec generation itself, runs the
            encoders lazily behind the materializer's two caches, and predicts trees, rows, values, recorded structure,
            transform AND encoder state, recorded materializer / params / settings of every part, the caller-visible
            drop set and the number of materializer calls. Every evaluation / encoder result the model is given is
            keyed by the arguments the implementation's call was observed with.
* `fault`   one materializer OBJECT: a multi-part call that raises, then a valid multi-part call; reference = new object.
* `edit`    `result.model_spec.subset(formula)` (valid selections and structural mismatches) / `.differentiate(var)`,
            then a build of the derived specs.

Oracle (implementation only, never looks at the model): matrices, specs and formula have the same
nested shape (same keys / tuple lengths at every level); every leaf has the same kept rows (pandas
index or the carried row-id column; same row count otherwise); with jointDrop := the row positions
missing from the output, every leaf equals `model_matrix(leaf terms, data, drop_rows=set(jointDrop))`,
`result.model_spec[path].get_model_matrix(data, drop_rows=set(jointDrop))` and the leaf at the same
path of `materializer.get_model_matrix(result.model_spec, drop_rows=set(jointDrop))` (names, values, rows).
Regeneration through the attached STRUCTURED spec object (where `ModelSpecs.get_model_matrix` itself
decides between joint and per-spec generation): `result.model_spec.get_model_matrix(data)`,
`model_matrix(result.model_spec, data)` and `model_matrix(result, data)` on the same data (the
caller's set supplied again) must have the formula's shape, row-aligned parts and equal the first
build part by part; on a second frame with a different null pattern (`data2`) they must have the
same shape and row-aligned parts. The model's joint replay is compared with these results too.
History streams: the composed / derived structure keeps its shape, ALL parts (materialized before or fresh, in any order,
joint or per-spec generation) contain the same rows, the caller's rows are dropped, and on the same data each part equals
its stand-alone build (`spec.get_model_matrix(data, drop_rows=jointDrop)`); a call after a failed call equals the call on
a new materializer (trees, values, rows, structure, transform and encoder state, spec records); a subset part holds the
parent part's columns of the chosen terms on the common rows; mismatching subset formulas must be refused.
"""
from __future__ import annotations

import random
import string
from fractions import Fraction

import numpy
import pandas

PROPERTY = "C07"
ENGINE = "c07"
REQUIRED_THEOREMS = [
    "shape_preserved",
    "parts_row_aligned",
    "parts_columns_fit_rows",
    "part_eq_standalone",
    "part_at_path_eq_standalone",
    "iter_order_any",
    "order_independent",
    "spec_regenerates_part",
    "spec_at_path_regenerates_part",
    "specs_regenerate_jointly",
    # histories (Model/PartsHist.lean)
    "hist_call_shape_rows",
    "hist_call_columns_fit_rows",
    "fresh_parts_never_block_joint",
    "joint_after_one_materializer",
    "rebuilt_with_fresh_parts_is_joint",
    "specs_parts_row_aligned",
    "materializer_reuse_after_any_history",
    "materializer_reuse_after_calls",
    "specs_differentiate_spec",
    "specs_subset_unstructured",
    "specs_subset_spec",
    "specs_subset_fails_iff",
    "mixed_state_part_eq_standalone",
    "every_user_records_encoder_state",
    "hist_part_eq_standalone",
    "formula_shape_preserved",
]
TRUSTED = [
    "modelled, not verified: one factor evaluation (`_lookup` / `stateful_eval` / `literal_eval` + `find_nulls`) is a "
    "parameter of the model: a function of (expression, data, pooled transform state) returning values, null positions "
    "and the transform state it writes; the harness forwards the implementation's results per distinct factor (history "
    "streams: per (expression, pooled state) of every materializer call)",
    "modelled, not verified: the encoders (`_encode_numerical/_encode_categorical`, contrasts, `drop_rows` inside them) are "
    "a parameter. Stream `parts` (eager model): a function of (expression, evaluated values, sorted drop list), both ranks "
    "forwarded per factor. History streams (lazy model): a function of (expression, values, sorted drop list, rank, the "
    "encoder state handed in) returning the encoded object and the encoder state afterwards; every cache miss of "
    "`_encode_evaled_factor` is forwarded with the arguments it was observed with, the model answers only for those. "
    "That encoders remove exactly the dropped positions is property C06; the model checks that every column has one entry "
    "per kept row",
    "the term -> scoped terms -> columns pipeline is C02's model (`Model/Materialize.lean`), reused unchanged",
    "the nested tree of a formula is built by the MODEL from the user-level specification (`PartsHist.fromSpec`: strings "
    "with ~ / |, tuples, keywords, later edits; `Structured` constructor and `_simplify` from C19's model) and compared with "
    "the implementation's formula object; how a string splits into sides and parts and the terms of every part are the "
    "parser's (C01's subject) and arrive as data",
    "Python aliasing is not modelled: the state dictionaries inside `encoder_state` are shared by reference between specs "
    "and the materializer's `encoder_state_cache`, the model copies values; the two coincide when encoders are idempotent on "
    "their own state (the recorded encoder states are compared on every history case)",
    "generated, not hand-copied: the registry of materializer classes (names, outputs and default output, for which outputs "
    "`_combine_columns` merges equally named columns, fast-path flag, `for_data(DataFrame)`) is `Gen/Materializers.lean`, "
    "probed on the live package by harness/translate.py on every run",
    "not modelled: na_action other than 'drop', non-default pandas indexes, materializers other than PandasMaterializer (the "
    "per-spec branch of `ModelSpecs.get_model_matrix` is reached through differing materializer PARAMS of the pandas class), "
    "`context` layering, the sympy path of `differentiate` (the differentiated terms enter as a parameter: C20's subject), "
    "`ModelSpecs._prepare_item`'s TypeError for non-spec items, repr/pretty-printing of `Structured`",
    "values are compared with relative tolerance 1e-9 when the formula contains center()/scale() (the model multiplies "
    "exact rationals, numpy multiplies floats), exactly otherwise",
]
ASSUMPTIONS = [
    "a factor's evaluation does not depend on transform state written by OTHER factors during the same pass (every stateful "
    "call is keyed by its own source text and is fitted on the same full column); the model therefore evaluates every factor "
    "against the pooled state as it was before the pass. Checked per case: the implementation is run with the case's "
    "iteration order of the factor set and, for the contract check, again with the reversed order",
    "spec_regenerates_part assumes the replay contract of stateful transforms: evaluating a factor with the transform state "
    "recorded by the joint build reproduces the same values and nulls on the same data (property C04 owns that contract)",
    "part_eq_standalone / spec_regenerates_part are stated for formulas (parts that carry no transform state of their own); "
    "mixed_state_part_eq_standalone states the same for parts in ANY state under the hypothesis that the pooled transform state "
    "agrees with the part's own state on the part's factors, in the eager model whose encoders do not read encoder state",
    "the history theorems on row alignment, shape, joint/per-spec generation, object reuse and encoder-state bookkeeping hold for "
    "EVERY encoder (also one that reads the state a spec brings along); hist_part_eq_standalone ('each part equals its stand-alone "
    "build with the joint drop list', parts in any state, the code's lazy encoder caches) additionally assumes EncDet: the encoded "
    "object of a factor depends on (expression, values, drop list) only, not on the encoder state handed in, nor on the rank when "
    "one cache entry serves both ranks (C11's cache transparency). Without it the statement is false: a kernel-checked instance in "
    "Props/C07.lean (a categorical factor shared between a materialized and a fresh part) is known finding C07-F1; the oracle checks "
    "the clause on every history case and classify() excuses exactly that signature",
    "specs_parts_row_aligned assumes all materializer classes see the same number of data rows (one data set)",
]
RULE = (
    "parts: frames of 1-8 rows (thorough: up to 30) over numeric y,x,z,w (small integers / dyadics, nulls with p in "
    "{0,.15,.35} per variable), categorical A,B (object or Categorical, 1-3 levels, nulls), row id rid; 2-6 leaves of 0-3 "
    "terms over names, I(), {}, center(), scale(), C(), C(, contr.sum), numeric literal scalings, interactions up to degree 3, "
    "factors shared between leaves on purpose; structure = string `l1 | l2 ~ r1 | r2 | r3`, keyword/tuple/list structure via "
    "Formula(**kw) nested up to depth 3, strings with `~` under keywords, Structured with root key first; x ensure_full_rank "
    "x output pandas/numpy/sparse x cluster_by x caller drop set x random iteration order of the factor set x entry point "
    "(materializer.get_model_matrix / Formula.get_model_matrix / model_matrix; the last two only without a caller set); "
    "every case carries a second frame (same variables and levels, fresh values, different null pattern) for the "
    "regeneration through result.model_spec; every case also rebuilds a MIXED-STATE structure (attached specs at even leaf "
    "positions, never materialized specs at odd ones) with the joint drop set. "
    "hist: 1-2 earlier structured builds through PandasMaterializer(df, **params) (params none / tag=1 / tag=2, so that parts "
    "recorded by different materializer params meet), then a structure COMPOSED from parts of those results (leaf / top-level "
    "item / whole result, as attached spec or as built matrix) and fresh parts (ModelSpec(formula), formula strings with and "
    "without ~ and |): `result.model_spec.key = ModelSpec(...)` in place (fresh part after the materialized ones, root key "
    "not last), new ModelSpecs / Structured with the fresh part first or last, nested tuples and keywords; built on the same "
    "data (75%) or the second frame through ModelSpecs.get_model_matrix (on the composed object itself or after from_spec), "
    "model_matrix, or a materializer; with/without caller drop set, with/without overrides (without: differing settings of "
    "the parts must be refused). "
    "fault: one materializer object, a multi-part call that raises (an encoder raises in a later part: C(v, contr.treatment('zz')); "
    "or a factor does not evaluate), once or twice, then a valid multi-part call with another drop set; reference = new object. "
    "edit: result.model_spec.subset(formula) with a random selection and order of each part's terms and, malformed sub-stream, "
    "one structural mismatch (extra key, longer tuple, tuple->single, single->tuple, nested structure, foreign term, no "
    "structure); result.model_spec.differentiate(var); the derived specs are built again. "
    "non-trivial = parts: at least two leaves and at least one null in a variable that one leaf uses and another does not; "
    "hist: the composition holds both a materialized and a fresh part; fault/edit: at least two leaves; distinct by canonical JSON"
)

# ----------------------------------------------------------------------------- helpers (formats shared with C02's engine)


def fstr(x) -> str:
    x = float(x)
    if x != x or x in (float("inf"), float("-inf")):
        return "nan"
    fr = Fraction(x)
    return str(fr.numerator) if fr.denominator == 1 else f"{fr.numerator}/{fr.denominator}"


def ffloat(s: str) -> float:
    return float("nan") if s == "nan" else float(Fraction(s))


def col_values(v) -> list[float]:
    if hasattr(v, "toarray"):
        v = v.toarray()
    elif hasattr(v, "to_numpy"):
        v = v.to_numpy()
    a = numpy.asarray(v).astype(float).ravel()
    return [float(x) for x in a]


def parse_fmt(f):
    if not f:
        return None
    out = []
    for lit, name, spec, conv in string.Formatter().parse(f):
        if lit:
            out.append(["lit", lit])
        if name is not None:
            if name not in ("name", "field") or spec or conv:
                raise ValueError("unsupported format template " + repr(f))
            out.append([name])
    return out


def field_json(k):
    return {"t": str(k), "s": isinstance(k, str)}


# ----------------------------------------------------------------------------- data

NUMS = ["y", "x", "z", "w"]
CATS = ["A", "B"]
LEVELS = [["a", "b", "c"], ["u", "v", "w"], ["lo", "hi", "mid"]]


def gen_data(rng, n):
    num, cat = {}, {}
    for v in NUMS:
        p = rng.choice([0.0, 0.0, 0.15, 0.35])
        dy = rng.random() < 0.25
        vals = []
        for _ in range(n):
            if rng.random() < p:
                vals.append(None)
            elif dy:
                vals.append(fstr(Fraction(rng.randint(-12, 12), 4)))
            else:
                vals.append(fstr(rng.randint(-4, 6)))
        num[v] = vals
    for v in CATS:
        pool = rng.choice(LEVELS)
        k = rng.randint(1, 3)
        p = rng.choice([0.0, 0.0, 0.2])
        codes = [None if rng.random() < p else rng.randrange(k) for _ in range(n)]
        cat[v] = {"levels": pool[:k], "codes": codes, "declared": rng.random() < 0.5}
    return {"nrows": n, "num": num, "cat": cat}


def gen_data2(rng, data):
    """a second frame of the same length over the same variables and category levels, with fresh values and a
    DIFFERENT null pattern (nulls again spread over the variables of different parts)"""
    n = data["nrows"]
    num, cat = {}, {}
    for v in NUMS:
        p = rng.choice([0.0, 0.15, 0.35])
        num[v] = [None if rng.random() < p else fstr(rng.randint(-4, 6)) for _ in range(n)]
    for v in CATS:
        ci = data["cat"][v]
        k = len(ci["levels"])
        p = rng.choice([0.0, 0.2])
        cat[v] = {"levels": ci["levels"], "codes": [None if rng.random() < p else rng.randrange(k) for _ in range(n)],
                  "declared": ci["declared"]}
    return {"nrows": n, "num": num, "cat": cat}


def make_frame(data):
    n = data["nrows"]
    cols = {}
    for k, v in data["num"].items():
        cols[k] = numpy.array([numpy.nan if x is None else ffloat(x) for x in v], dtype=float)
    for k, c in data["cat"].items():
        vals = [None if i is None else c["levels"][i] for i in c["codes"]]
        if c["declared"]:
            cols[k] = pandas.Categorical(vals, categories=c["levels"])
        else:
            cols[k] = pandas.Series(vals, dtype=object)
    cols["rid"] = numpy.arange(1, n + 1, dtype=float)
    return pandas.DataFrame(cols, index=pandas.RangeIndex(n))


# ----------------------------------------------------------------------------- formula structures

NUM_ATOMS = ["{v}", "{v}", "{v}", "I({v}+1)", "{{{v}*2}}", "center({v})", "scale({v})", "I({v}*{w})"]
CAT_ATOMS = ["{v}", "{v}", "C({v})", "C({v}, contr.sum)"]


_FULL: list[str] = []  # numeric variables without nulls in the frame being generated for


def gen_atom(rng, pool):
    """pool: the variables this leaf prefers (so that different leaves depend on different variables)"""
    v = rng.choice(pool)
    if v in CATS:
        return rng.choice(CAT_ATOMS).format(v=v)
    w = rng.choice([x for x in NUMS])
    tpl = rng.choice(NUM_ATOMS)
    if ("center" in tpl or "scale" in tpl) and _FULL and rng.random() < 0.8:
        # a stateful transform of a column with a null is null everywhere (every row is dropped): keep that rare
        v = rng.choice(_FULL)
    return tpl.format(v=v, w=w)


def gen_leaf(rng, shared_atoms):
    """a list of term strings (possibly empty) + intercept directive"""
    pool = rng.sample(NUMS + CATS, rng.randint(1, 3))
    nterms = rng.choice([0, 1, 1, 2, 2, 3])
    terms, seen = [], set()
    for _ in range(nterms):
        k = rng.choice([1, 1, 1, 2, 2, 3])
        atoms = []
        for _ in range(k):
            a = rng.choice(shared_atoms) if shared_atoms and rng.random() < 0.35 else gen_atom(rng, pool)
            if a not in atoms:
                atoms.append(a)
        if frozenset(atoms) in seen:
            continue
        seen.add(frozenset(atoms))
        if rng.random() < 0.6:
            shared_atoms.extend(atoms)
        if rng.random() < 0.15:
            atoms.insert(rng.randrange(len(atoms) + 1), rng.choice(["2", "0.5", "3"]))
        terms.append(":".join(atoms))
    return {"leaf": terms, "icpt": rng.choice(["", "", "", "0", "1", "-1"])}


def render_leaf(lf, allow_empty=True):
    parts = list(lf["leaf"])
    if lf["icpt"] == "0":
        parts = ["0"] + parts
    elif lf["icpt"] == "1":
        parts = ["1"] + parts
    elif lf["icpt"] == "-1":
        parts = ["-1"] + parts
    if not parts:
        parts = ["0"]
    s = " + ".join(parts)
    return s.replace("+ -1", "- 1")


def add_rid(lf):
    if "rid" not in lf["leaf"]:
        lf["leaf"].append("rid")


def gen_string(rng, shared, force_rid):
    nl = rng.choice([0, 1, 1, 1, 2])
    nr = rng.choice([1, 1, 2, 2, 3])
    lhs = [gen_leaf(rng, shared) for _ in range(nl)]
    rhs = [gen_leaf(rng, shared) for _ in range(nr)]
    if force_rid:
        add_rid(rng.choice(lhs + rhs))
    return {"str": {"lhs": lhs, "rhs": rhs}}


def render_string(node):
    lhs = " | ".join(render_leaf(l) for l in node["str"]["lhs"])
    rhs = " | ".join(render_leaf(l) for l in node["str"]["rhs"])
    return (lhs + " ~ " + rhs) if node["str"]["lhs"] else ("~ " + rhs if False else rhs)


KEYS = ["a", "b", "lhs", "rhs", "m1", "deps"]


def gen_struct(rng, shared, depth):
    r = rng.random()
    if depth <= 0 or r < 0.3:
        lf = gen_leaf(rng, shared)
        return lf if rng.random() < 0.7 else {"list": lf["leaf"]}
    if r < 0.45:
        return gen_string(rng, shared, False)
    if r < 0.7:
        return {"tup": [gen_struct(rng, shared, depth - 1) for _ in range(rng.choice([0, 1, 2, 2, 3]))]}
    keys = rng.sample(KEYS, rng.randint(1, 3))
    kw = [[k, gen_struct(rng, shared, depth - 1)] for k in keys]
    root = gen_struct(rng, shared, depth - 1) if rng.random() < 0.4 else None
    return {"kw": kw, "root": root, "rootfirst": root is not None and rng.random() < 0.3}


def leaves_of(node):
    if "leaf" in node:
        return [node]
    if "list" in node:
        return [node]
    if "str" in node:
        return node["str"]["lhs"] + node["str"]["rhs"]
    if "tup" in node:
        return [l for s in node["tup"] for l in leaves_of(s)]
    out = [l for _, s in node["kw"] for l in leaves_of(s)]
    if node["root"] is not None:
        out += leaves_of(node["root"])
    return out


def build_pyspec(node):
    """case structure -> the Python object handed to `Formula`"""
    from formulaic.formula import StructuredFormula

    if "leaf" in node:
        return render_leaf(node)
    if "list" in node:
        return list(node["list"])
    if "str" in node:
        return render_string(node)
    if "tup" in node:
        return tuple(build_pyspec(s) for s in node["tup"])
    if node.get("rootfirst"):
        f = StructuredFormula(build_pyspec(node["root"]))
        for k, s in node["kw"]:
            setattr(f, k, build_pyspec(s))
        return f
    d = {k: build_pyspec(s) for k, s in node["kw"]}
    if node["root"] is not None:
        d["root"] = build_pyspec(node["root"])
    return StructuredFormula(**d)


def fspec_json(node, counter=None):
    """the case structure as the model's `FSpec`: leaves numbered in `leaves_of` order"""
    counter = [0] if counter is None else counter

    def nxt():
        counter[0] += 1
        return counter[0] - 1

    if "leaf" in node or "list" in node:
        return {"leaf": nxt()}
    if "str" in node:
        return {"str": {"lhs": [nxt() for _ in node["str"]["lhs"]], "rhs": [nxt() for _ in node["str"]["rhs"]]}}
    if "tup" in node:
        return {"tup": [fspec_json(s, counter) for s in node["tup"]]}
    kw = [[k, fspec_json(s, counter)] for k, s in node["kw"]]
    if node["root"] is None:
        return {"kw": kw}
    root = fspec_json(node["root"], counter)
    if node.get("rootfirst"):
        return {"edited": root, "adds": kw}
    return {"kw": kw + [["root", root]]}


def erase_leaves(t):
    if "node" in t:
        return {"node": [[k, erase_leaves(v)] for k, v in t["node"]]}
    if "tup" in t:
        return {"tup": [erase_leaves(v) for v in t["tup"]]}
    return {"leaf": 0}


def _plain_terms(terms):
    return sorted(sorted(t) for t in terms if t != ["1"])


def build_formula(c):
    from formulaic import Formula

    return Formula(build_pyspec(c["fs"]))


def gen_parts_case(rng, tier):
    maxrows = 8 if tier != "thorough" else 30
    n = rng.randint(1, maxrows) if rng.random() < 0.85 else rng.randint(1, 4)
    data = gen_data(rng, n)
    _FULL[:] = [v for v in NUMS if all(x is not None for x in data["num"][v])]
    output = rng.choice(["pandas", "pandas", "pandas", "numpy", "sparse"])
    shared: list[str] = []
    if rng.random() < 0.5:
        fs = gen_string(rng, shared, False)
    else:
        fs = gen_struct(rng, shared, 3)
        if "leaf" in fs or "list" in fs:  # no structure at all: make it a two-part string
            fs = gen_string(rng, shared, False)
    if not leaves_of(fs) and rng.random() < 0.9:  # a structure without any leaf (the joint build refuses it): keep it rare
        fs = gen_string(rng, shared, False)
    lv = leaves_of(fs)
    if lv and (output != "pandas" or rng.random() < 0.3):
        cand = [l for l in lv if "leaf" in l]
        if cand:
            add_rid(rng.choice(cand))
        else:
            lv[0]["list"].append("rid")
    caller = None
    if rng.random() < 0.35:
        caller = sorted(rng.sample(range(n), rng.randint(0, min(n, 2))))
    return dict(
        kind="parts",
        data=data,
        data2=gen_data2(rng, data),
        fs=fs,
        efr=rng.random() < 0.6,
        output=output,
        cluster=rng.random() < 0.2,
        caller=caller,
        order=rng.randrange(1 << 30),
        entry=rng.choice(["materializer", "materializer", "formula", "sugar"]),
    )


def gen_badname_case(rng):
    c = gen_parts_case(rng, "quick")
    while not leaves_of(c["fs"]):  # the rare structure without any leaf has nothing to rename
        c = gen_parts_case(rng, "quick")
    lv = [l for l in leaves_of(c["fs"])]
    tgt = rng.choice(lv)
    (tgt["leaf"] if "leaf" in tgt else tgt["list"]).append(rng.choice(["nosuch", "nosuch:x", "A:nosuch"]))
    c["kind"] = "badname"
    return c



# ----------------------------------------------------------------------------- histories (streams `hist`, `fault`)
#
# hist:  (1) one or two builds of structured formulas through a materializer (their attached specs now record the
#        materializer and its params), (2) a structured spec COMPOSED from parts of those results (as attached specs or as
#        the built matrices) and from fresh, never materialized parts (`ModelSpec(formula=…)` assigned as a new key of
#        `result.model_spec`, placed before/after materialized parts of a new `ModelSpecs`, or a formula string next to a
#        built `ModelMatrix` in a `Structured`), (3) built again on the same data (or a frame with another null pattern)
#        with and without a caller-supplied drop set through `ModelSpecs.get_model_matrix`, `model_matrix` or a
#        materializer.
# fault: ONE materializer object: a multi-part call that raises (during the encoding of a later part, or during factor
#        evaluation), then a valid multi-part call on the same object; the same call on a new object is the reference.

HKEYS = ["extra", "m2", "aux", "lhs", "rhs", "zz", "root"]
FAULT_ATOMS = {"encode": "C({v}, contr.treatment('zz'))", "eval": "nosuch"}


def _nonempty_structure(rng, shared, depth=2):
    for _ in range(20):
        if rng.random() < 0.6:
            fs = gen_string(rng, shared, False)
        else:
            fs = gen_struct(rng, shared, depth)
            if "leaf" in fs or "list" in fs:
                continue
        if leaves_of(fs) and not ("str" in fs and not fs["str"]["lhs"] and len(fs["str"]["rhs"]) == 1):
            return fs  # at least one part, and a structured result (not a single matrix)
    return {"str": {"lhs": [gen_leaf(rng, shared)], "rhs": [gen_leaf(rng, shared)]}}


def gen_ctree(rng, shared, nbuilds, flavour, depth):
    """a composition tree; flavour 'spec': every leaf is a ModelSpec (containers are ModelSpecs);
    'mixed': built matrices, attached specs, ModelSpec objects and formula strings side by side (containers are Structured)"""
    r = rng.random()
    if depth <= 0 or r < 0.55:
        q = rng.random()
        if q < 0.45:
            kind = rng.choice(["leaf", "leaf", "leaf", "top", "whole"])
            ref = [rng.randrange(nbuilds), kind] + ([rng.randrange(8)] if kind != "whole" else [])
            return {"ref": ref, "as": "spec" if flavour == "spec" else rng.choice(["spec", "matrix", "matrix"])}
        lf = gen_leaf(rng, shared)
        if flavour == "spec":
            return {"fresh": lf, "as": "modelspec"}
        if q < 0.6:
            return {"freshstr": gen_string(rng, shared, False)}
        return {"fresh": lf, "as": rng.choice(["modelspec", "string", "string"])}
    if r < 0.75:
        return {"tup": [gen_ctree(rng, shared, nbuilds, flavour, depth - 1) for _ in range(rng.choice([1, 2, 2, 3]))]}
    keys = rng.sample(HKEYS, rng.randint(1, 3))
    return {"kw": [[k, gen_ctree(rng, shared, nbuilds, flavour, depth - 1)] for k in keys]}


def _ctree_leaves(t):
    if "tup" in t:
        return [l for s in t["tup"] for l in _ctree_leaves(s)]
    if "kw" in t:
        return [l for _, s in t["kw"] for l in _ctree_leaves(s)]
    if "inplace" in t:
        return [{"ref": [t["inplace"], "whole"], "as": "spec"}] + [l for _, s in t["adds"] for l in _ctree_leaves(s)]
    return [t]


def gen_hist_case(rng, tier):
    maxrows = 8 if tier != "thorough" else 24
    n = rng.randint(2, maxrows)
    data = gen_data(rng, n)
    # nulls in variables of different parts are the point: make sure at least two variables have one
    holes = [v for v in NUMS if any(x is None for x in data["num"][v])]
    for v in rng.sample(NUMS, 2):
        if len(holes) >= 2:
            break
        if v not in holes:
            data["num"][v][rng.randrange(n)] = None
            holes.append(v)
    _FULL[:] = [v for v in NUMS if all(x is not None for x in data["num"][v])]
    shared: list[str] = []
    output = rng.choice(["pandas", "pandas", "pandas", "numpy", "sparse"])
    builds = []
    nb = rng.choice([1, 2, 2])
    tags = rng.choice([[None, None], [None, {"tag": "1"}], [{"tag": "1"}, None], [{"tag": "1"}, {"tag": "2"}],
                       [{"tag": "1"}, {"tag": "2"}], [{"tag": "1"}, {"tag": "1"}]])
    for b in range(nb):
        fs = _nonempty_structure(rng, shared)
        lv = leaves_of(fs)
        if output != "pandas" or rng.random() < 0.3:
            cand = [l for l in lv if "leaf" in l]
            if cand:
                add_rid(rng.choice(cand))
            else:
                lv[0]["list"].append("rid")
        builds.append({"fs": fs, "params": tags[b],
                       "caller": sorted(rng.sample(range(n), rng.randint(0, min(n, 2)))) if rng.random() < 0.2 else None})
    flavour = rng.choice(["spec", "spec", "mixed"])
    mode = rng.random()
    if flavour == "spec" and mode < 0.4:
        # `result.model_spec.<new key> = ModelSpec(formula=…)`: the fresh part comes AFTER the materialized ones
        adds = [[k, gen_ctree(rng, shared, nb, "spec", 1)] for k in rng.sample(HKEYS[:5], rng.randint(1, 2))]
        if rng.random() < 0.7:
            adds[0][1] = {"fresh": gen_leaf(rng, shared), "as": "modelspec"}
        compose = {"inplace": rng.randrange(nb), "adds": adds}
    else:
        keys = rng.sample(HKEYS, rng.randint(2, 4))
        kw = [[k, gen_ctree(rng, shared, nb, flavour, 2)] for k in keys]
        # one fresh and one materialized part at the top level, fresh first (control) or last
        fresh = {"fresh": gen_leaf(rng, shared), "as": "modelspec" if flavour == "spec" else rng.choice(["modelspec", "string"])}
        ref = {"ref": [rng.randrange(nb), rng.choice(["leaf", "top", "whole"]), rng.randrange(8)], "as": "spec" if flavour == "spec" else "matrix"}
        if ref["ref"][1] == "whole":
            ref["ref"] = ref["ref"][:2]
        if rng.random() < 0.5:
            kw[0][1], kw[-1][1] = fresh, ref
        else:
            kw[0][1], kw[-1][1] = ref, fresh
        if nb == 2 and len(kw) >= 3:  # parts of BOTH earlier builds (possibly written by different materializers)
            kw[1][1] = {"ref": [1 - ref["ref"][0], rng.choice(["leaf", "top"]), rng.randrange(8)], "as": ref["as"]}
        compose = {"kw": kw}
    if output != "pandas":  # the row identities of fresh parts are visible through the carried row-id column only
        for l in _ctree_leaves(compose):
            if "fresh" in l and rng.random() < 0.8:
                add_rid(l["fresh"])
    route = rng.choice(["specs", "specs", "sugar", "materializer"] + (["direct", "direct"] if flavour == "spec" else []))
    s2 = {
        "route": route,
        "caller": sorted(rng.sample(range(n), rng.randint(0, min(n, 2)))) if rng.random() < 0.4 else None,
        "ov": rng.random() < (0.85 if output != "pandas" else 0.5),
        "data": "same" if rng.random() < 0.75 else "other",
        "params": rng.choice([None, None, {"tag": "1"}]) if route == "materializer" else None,
    }
    return dict(kind="hist", data=data, data2=gen_data2(rng, data), builds=builds, compose=compose, s2=s2, flavour=flavour,
                efr=rng.random() < 0.7, output=output, cluster=rng.random() < 0.15, order=rng.randrange(1 << 30))


EDIT_MUTS = [None, None, None, None, "addkey", "longer", "flatten", "deepen", "unstructured", "foreign", "nest"]


def gen_edit_case(rng, tier):
    """`result.model_spec.subset(formula)` / `.differentiate(var)` of a structured build, then built again"""
    maxrows = 8 if tier != "thorough" else 24
    n = rng.randint(2, maxrows)
    data = gen_data(rng, n)
    _FULL[:] = [v for v in NUMS if all(x is not None for x in data["num"][v])]
    shared: list[str] = []
    fs = _nonempty_structure(rng, shared, depth=3)
    output = rng.choice(["pandas", "pandas", "pandas", "numpy", "sparse"])
    if output != "pandas":
        for l in leaves_of(fs):
            if "leaf" in l and rng.random() < 0.7:
                add_rid(l)
    op = rng.choice(["subset", "subset", "diff"])
    return dict(kind="edit", data=data, fs=fs, efr=rng.random() < 0.7, output=output, cluster=rng.random() < 0.15,
                order=rng.randrange(1 << 30), op=op, seed=rng.randrange(1 << 30),
                mut=rng.choice(EDIT_MUTS) if op == "subset" else None, wrt=rng.choice(NUMS),
                caller1=sorted(rng.sample(range(n), rng.randint(0, min(n, 2)))) if rng.random() < 0.2 else None,
                caller=sorted(rng.sample(range(n), rng.randint(0, min(n, 2)))) if rng.random() < 0.35 else None)


def gen_fault_case(rng, tier):
    maxrows = 8 if tier != "thorough" else 24
    n = rng.randint(2, maxrows)
    data = gen_data(rng, n)
    _FULL[:] = [v for v in NUMS if all(x is not None for x in data["num"][v])]
    shared: list[str] = []
    good = _nonempty_structure(rng, shared)
    bad = _nonempty_structure(rng, shared)
    lv = leaves_of(bad)
    kind = rng.choice(["encode", "encode", "eval"])
    atom = FAULT_ATOMS[kind].format(v=rng.choice(CATS))
    tgt = lv[-1] if rng.random() < 0.7 else rng.choice(lv)   # mostly a LATER part
    tl = tgt["leaf"] if "leaf" in tgt else tgt["list"]
    tl.append(atom if rng.random() < 0.6 or not tl else atom + ":" + rng.choice(tl).split(":")[0])
    output = rng.choice(["pandas", "pandas", "numpy", "sparse"])
    if output != "pandas":
        for fs in (good,):
            cand = [l for l in leaves_of(fs) if "leaf" in l]
            if cand:
                add_rid(rng.choice(cand))
    return dict(kind="fault", data=data, bad=bad, fs=good, fault=kind, efr=rng.random() < 0.7, output=output,
                cluster=rng.random() < 0.15, order=rng.randrange(1 << 30),
                caller_bad=sorted(rng.sample(range(n), rng.randint(0, min(n, 2)))) if rng.random() < 0.3 else None,
                caller=sorted(rng.sample(range(n), rng.randint(0, min(n, 2)))) if rng.random() < 0.3 else None,
                twice=rng.random() < 0.3)


def cases(rng, tier):
    n = {"quick": 320, "thorough": 2500, "search": 120}[tier]
    for _ in range(n):
        yield gen_parts_case(rng, tier)
    for _ in range(max(4, n // 40)):
        yield gen_badname_case(rng)
    nh = {"quick": 110, "thorough": 700, "search": 120}[tier]
    for _ in range(nh):
        yield gen_hist_case(rng, tier)
    for _ in range(max(10, nh // 3)):
        yield gen_fault_case(rng, tier)
    for _ in range(max(10, nh // 2)):
        yield gen_edit_case(rng, tier)


def _vars_of(lf):
    txt = " ".join(lf.get("leaf", lf.get("list", [])))
    return {v for v in NUMS + CATS if v in txt.replace("scale", "").replace("center", "")}


def nontrivial(c):
    if c["kind"] == "hist":
        lv = _ctree_leaves(c["compose"])
        return any("ref" in l for l in lv) and any("ref" not in l for l in lv)
    if c["kind"] == "fault":
        return len(leaves_of(c["fs"])) >= 2
    if c["kind"] == "edit":
        return len(leaves_of(c["fs"])) >= 2
    if c["kind"] != "parts":
        return False
    lv = leaves_of(c["fs"])
    if len(lv) < 2:
        return False
    nullvars = {v for v, vals in c["data"]["num"].items() if any(x is None for x in vals)}
    nullvars |= {v for v, ci in c["data"]["cat"].items() if any(x is None for x in ci["codes"])}
    used = [_vars_of(l) for l in lv]
    return any(v in u and any(v not in u2 for u2 in used) for v in nullvars for u in used)


def _kind(node):
    for k in ("leaf", "list", "str", "tup", "kw"):
        if k in node:
            return k
    return "?"


def describe(c):
    if c["kind"] == "hist":
        return (f"hist,{c['flavour']},{'inplace' if 'inplace' in c['compose'] else 'new'},{c['s2']['route']},"
                f"caller={int(c['s2']['caller'] is not None)},ov={int(c['s2']['ov'])},{c['s2']['data']}")
    if c["kind"] == "fault":
        return f"fault,{c['fault']},{c['output']}"
    if c["kind"] == "edit":
        return f"edit,{c['op']},{c['mut']},{c['output']},caller={int(c['caller'] is not None)}"
    lv = leaves_of(c["fs"])
    return f"{c['kind']},{_kind(c['fs'])},leaves={min(len(lv), 6)},{c['output']},caller={int(c['caller'] is not None)}"


# ----------------------------------------------------------------------------- observation of the implementation


def tree_of(obj, leaf):
    """Structured / tuple / leaf -> JSON tree; `leaf(x)` is called in `_flatten` order"""
    from formulaic.utils.structured import Structured

    if isinstance(obj, Structured):
        return {"node": [[k, tree_of(v, leaf)] for k, v in obj._structure.items()]}
    if isinstance(obj, tuple):
        return {"tup": [tree_of(v, leaf) for v in obj]}
    return {"leaf": leaf(obj)}


def shape_unordered(t):
    if "node" in t:
        return ("node", tuple(sorted((k, shape_unordered(v)) for k, v in t["node"])))
    if "tup" in t:
        return ("tup", tuple(shape_unordered(v) for v in t["tup"]))
    return ("leaf",)


def paths_of(t, pre=()):
    if "node" in t:
        out = {}
        for k, v in t["node"]:
            out.update(paths_of(v, pre + (("k", k),)))
        return out
    if "tup" in t:
        out = {}
        for i, v in enumerate(t["tup"]):
            out.update(paths_of(v, pre + (("i", i),)))
        return out
    return {pre: t["leaf"]}


def terms_json(formula):
    return [[f.expr for f in t.factors] for t in formula]


def structure_json(spec):
    if spec.structure is None:
        return None
    return [
        {
            "term": [f.expr for f in s.term.factors],
            "scoped": [
                {"factors": [[sf.factor.expr, bool(sf.reduced)] for sf in st.factors], "scale": fstr(st.scale)}
                for st in s.scoped_terms
            ],
            "columns": [str(x) for x in s.columns],
        }
        for s in spec.structure
    ]


def state_json(spec):
    return [[str(k), repr(v)] for k, v in spec.transform_state.items()]


def matrix_obs(mm, output):
    """one ModelMatrix -> rows / names / values"""
    spec = mm.model_spec
    if output == "pandas":
        names = [str(x) for x in mm.columns]
        arr = numpy.asarray(mm).astype(float).reshape((len(mm), len(names)))
        rows = [int(i) for i in mm.index]
    else:
        names = [str(x) for x in spec.column_names]
        arr = mm.toarray() if hasattr(mm, "toarray") else numpy.asarray(mm)
        arr = numpy.asarray(arr).astype(float)
        rows = None
    out = {"nrows": int(arr.shape[0]), "names": names}
    if arr.ndim != 2 or arr.shape[1] != len(names):
        out["shape_mismatch"] = f"{arr.shape} vs {len(names)} names"
        out["values"] = []
    else:
        out["values"] = [[fstr(x) for x in arr[:, j]] for j in range(arr.shape[1])]
        if rows is None and "rid" in names:
            j = names.index("rid")
            rows = [int(round(x)) - 1 for x in arr[:, j]]
    out["rows"] = rows
    out["structure"] = structure_json(spec)
    out["state"] = state_json(spec)
    out["terms"] = terms_json(spec.formula)
    return out


def _enc_json(m, ef, spec, r, drop):
    """the object `_encode_evaled_factor` holds right before the drop-field step, for reduced_rank=r"""
    m._encode_evaled_factor(ef, spec, drop, reduced_rank=r)  # make sure the cache entry exists
    k = ef.expr
    enc = m.encoded_cache[k] if k in m.encoded_cache else m.encoded_cache[(k, r)]
    md = getattr(enc, "__formulaic_metadata__", ef.metadata)
    if isinstance(enc, dict):
        for v in enc.values():
            if isinstance(v, dict):
                raise ValueError("nested encoded dict (not modelled)")
        cols = [[field_json(f), [fstr(x) for x in col_values(v)]] for f, v in enc.items()]
        isdict = True
    else:
        cols = [[field_json(""), [fstr(x) for x in col_values(enc)]]]
        isdict = False
    return {
        "dict": isdict,
        "cols": cols,
        "spans": bool(md.spans_intercept),
        "drop": None if md.drop_field is None else field_json(md.drop_field),
        "rmeta": bool(md.reduced),
        "fmt": parse_fmt(md.format),
        "fmtr": parse_fmt(md.format_reduced),
    }


def factors_json(m, output, drop, writes):
    from formulaic import ModelSpec
    from formulaic.parser.types import Factor
    from formulaic.utils.null_handling import find_nulls

    scratch = ModelSpec(formula=[], output=output)
    out = []
    for expr, ef in m.factor_cache.items():
        md = ef.metadata
        raw = ef.values.__wrapped__
        fj = {
            "expr": expr,
            "present": raw is not None,
            "kind": md.kind.value,
            "spans": bool(md.spans_intercept),
            "nulls": sorted(int(i) for i in find_nulls(ef.values)),
            "writes": writes.get(expr, []),
        }
        if md.kind is Factor.Kind.CONSTANT:
            fj["value"] = fstr(raw)
            fj["full"] = fj["reduced"] = {"dict": False, "cols": [[field_json(""), []]], "spans": False, "drop": None,
                                          "rmeta": False, "fmt": [], "fmtr": None}
        else:
            fj["full"] = _enc_json(m, ef, scratch, False, drop)
            fj["reduced"] = _enc_json(m, ef, scratch, True, drop)
        out.append(fj)
    return out


def _kwargs(c):
    return dict(
        ensure_full_rank=c["efr"],
        output=c["output"],
        cluster_by="numerical_factors" if c["cluster"] else "none",
    )


_MISSING = object()


class _NoStructure(Exception):
    pass


class _Instrument:
    """Run-time wrappers (no hooks in the source tree) around three methods of PandasMaterializer for the
    duration of one call: choose the iteration order of the pooled factor SET, record what each cache miss of
    `_evaluate_factor` wrote to the pooled transform state, record the drop list every part is built with."""

    NAMES = ("_prepare_factor_evaluation_model_spec", "_evaluate_factor", "_build_model_matrix")

    def __init__(self, c, reverse=False):
        self.c, self.reverse = c, reverse
        self.rec = {"order": None, "drops": [], "writes": {}, "m": None, "pooled0": []}

    def __enter__(self):
        from formulaic.materializers import PandasMaterializer as PM

        rec, c, reverse = self.rec, self.c, self.reverse
        self.saved = {n: PM.__dict__.get(n, _MISSING) for n in self.NAMES}
        orig_prepare, orig_eval, orig_build = (getattr(PM, n) for n in self.NAMES)

        def prepare(m, model_specs):
            factors, spec = orig_prepare(m, model_specs)
            fl = sorted(factors, key=lambda f: f.expr)
            random.Random(c["order"]).shuffle(fl)
            if reverse:
                fl.reverse()
            rec["m"] = m
            rec["order"] = [f.expr for f in fl]
            rec["pooled0"] = [[str(k), repr(v)] for k, v in spec.transform_state.items()]
            return fl, spec

        def evaluate(m, factor, spec, drop_rows):
            before = set(spec.transform_state)
            miss = factor.expr not in m.factor_cache
            r = orig_eval(m, factor, spec, drop_rows)
            if miss:
                rec["writes"][factor.expr] = [[str(k), repr(v)] for k, v in spec.transform_state.items() if k not in before]
            return r

        def build(m, spec, drop_rows):
            rec["drops"].append([int(i) for i in drop_rows])
            return orig_build(m, spec, drop_rows=drop_rows)

        for n, f in zip(self.NAMES, (prepare, evaluate, build)):
            setattr(PM, n, f)
        return rec

    def __exit__(self, *a):
        from formulaic.materializers import PandasMaterializer as PM

        for n, v in self.saved.items():
            if v is _MISSING:
                delattr(PM, n)
            else:
                setattr(PM, n, v)
        return False


def joint_build(c, df, formula, reverse=False):
    """the real joint materialisation with the case's iteration order of the pooled factor set, through the
    entry point the case names (materializer / Formula.get_model_matrix / model_matrix)"""
    from formulaic import model_matrix
    from formulaic.materializers import PandasMaterializer

    caller = None if c["caller"] is None else set(c["caller"])
    entry = c.get("entry", "materializer") if caller is None else "materializer"
    with _Instrument(c, reverse) as rec:
        if entry == "formula":
            mm = formula.get_model_matrix(df, context={}, **_kwargs(c))
        elif entry == "sugar":
            mm = model_matrix(formula, df, context={}, **_kwargs(c))
        else:
            mm = PandasMaterializer(df).get_model_matrix(formula, drop_rows=caller, **_kwargs(c))
    rec["caller_after"] = None if caller is None else sorted(int(i) for i in caller)
    return rec["m"], mm, rec


def leaf_list(tree, leaves):
    return [leaves[i] for i in paths_of(tree).values()]


def impl(c):
    from formulaic import model_matrix
    from formulaic.model_matrix import ModelMatrix

    if c["kind"] == "hist":
        return impl_hist(c)
    if c["kind"] == "fault":
        return impl_fault(c)
    if c["kind"] == "edit":
        return impl_edit(c)
    df = make_frame(c["data"])
    n = c["data"]["nrows"]
    formula = build_formula(c)
    fleaves = []
    ftree = tree_of(formula, lambda f: (fleaves.append(f), len(fleaves) - 1)[1])
    out = {"n": n, "ftree": ftree, "fterms": [terms_json(f) for f in fleaves]}
    from formulaic import Formula as _F

    out["leaf_terms"] = [terms_json(_F(render_leaf(lf) if "leaf" in lf else list(lf["list"]))) for lf in leaves_of(c["fs"])]
    try:
        m, mm, rec = joint_build(c, df, formula)
    except Exception as e:
        out["error"] = type(e).__name__
        out["msg"] = str(e)[:200]
        # do the parts materialise on their own (caller's set only)?
        alone = []
        for f in fleaves:
            try:
                model_matrix(f, df, context={}, drop_rows=None if c["caller"] is None else set(c["caller"]), **_kwargs(c))
                alone.append(None)
            except Exception as e2:
                alone.append(type(e2).__name__)
        out["alone_errors"] = alone
        return out
    out["order"] = rec["order"]
    out["pooled0"] = rec["pooled0"]
    drops = rec["drops"]
    out["drop"] = drops[0] if drops else []
    out["drops_all_equal"] = all(d == drops[0] for d in drops) if drops else True
    mleaves = []
    out["mtree"] = tree_of(mm, lambda x: (mleaves.append(x), len(mleaves) - 1)[1])
    out["is_matrix_leaf"] = [isinstance(x, ModelMatrix) for x in mleaves]
    sleaves = []
    out["stree"] = tree_of(mm.model_spec, lambda s: (sleaves.append(s), len(sleaves) - 1)[1])
    out["leaves"] = [matrix_obs(x, c["output"]) for x in mleaves]
    out["spec_leaves"] = [{"terms": terms_json(s.formula), "structure": structure_json(s), "state": state_json(s)} for s in sleaves]
    out["spec_enc"] = [{"structure": structure_json(s), "enc": enc_state_json(s)} for s in sleaves]
    out["factors"] = factors_json(m, c["output"], out["drop"], rec["writes"])
    # contract check of the evaluation abstraction: reversed iteration order of the factor set
    try:
        m2, mm2, rec2 = joint_build(c, df, formula, reverse=True)
        l2 = []
        tree_of(mm2, lambda x: (l2.append(x), 0)[1])
        o2 = [matrix_obs(x, c["output"]) for x in l2]
        out["reversed_same"] = _same_leaves(out["leaves"], o2, state="unordered") is None and (rec2["drops"][:1] == drops[:1])
    except Exception as e:
        out["reversed_same"] = False
        out["reversed_error"] = type(e).__name__
    # joint drop set, from the OUTPUT rows
    known = [lf["rows"] for lf in out["leaves"] if lf["rows"] is not None]
    jd = sorted(set(range(n)) - set(known[0])) if known else None
    out["joint_drop_from_rows"] = jd
    # standalone builds of every formula leaf, and replays of every attached spec
    out["standalone"], out["replay"] = [], []
    if jd is not None:
        for f in fleaves:
            try:
                sm = model_matrix(f, df, context={}, drop_rows=set(jd), **_kwargs(c))
                out["standalone"].append(matrix_obs(sm, c["output"]))
            except Exception as e:
                out["standalone"].append({"error": type(e).__name__, "msg": str(e)[:160]})
        for sp in sleaves:  # the ATTACHED specs: leaves of `result.model_spec`
            try:
                rm = sp.get_model_matrix(df, context={}, drop_rows=set(jd))
                out["replay"].append(matrix_obs(rm, c["output"]))
            except Exception as e:
                out["replay"].append({"error": type(e).__name__, "msg": str(e)[:160]})
        # … and all attached specs replayed jointly (`ModelSpecs` through the materializer, drop set supplied)
        try:
            from formulaic.materializers import PandasMaterializer

            with _Instrument(c):
                jm = PandasMaterializer(df).get_model_matrix(mm.model_spec, drop_rows=set(jd))
            jl = []
            out["jtree"] = tree_of(jm, lambda x: (jl.append(x), len(jl) - 1)[1])
            out["jreplay"] = [matrix_obs(x, c["output"]) for x in jl]
        except Exception as e:
            out["jtree"] = None
            out["jreplay"] = {"error": type(e).__name__, "msg": str(e)[:160]}
    # a MIXED-STATE structure: attached specs at the even leaf positions, never materialized specs over the same
        # terms at the odd ones, built jointly with the joint drop set supplied
        try:
            from formulaic import ModelSpec
            from formulaic.materializers import PandasMaterializer
            from formulaic.utils.structured import Structured

            if not isinstance(mm.model_spec, Structured):
                raise _NoStructure()
            cnt = [0]

            def mix(sp):
                i = cnt[0]
                cnt[0] += 1
                return sp if i % 2 == 0 else ModelSpec(formula=sp.formula, ensure_full_rank=sp.ensure_full_rank, output=sp.output,
                                                       cluster_by=sp.cluster_by)

            mixed = mm.model_spec._map(mix, as_type=type(mm.model_spec))
            with _Instrument(c):
                xm = PandasMaterializer(df).get_model_matrix(mixed, drop_rows=set(jd))
            xl = []
            out["xtree"] = tree_of(xm, lambda x: (xl.append(x), len(xl) - 1)[1])
            out["mreplay"] = [matrix_obs(x, c["output"]) for x in xl]
        except _NoStructure:
            pass  # a single matrix: nothing to mix
        except Exception as e:
            out["xtree"] = None
            out["mreplay"] = {"error": type(e).__name__, "msg": str(e)[:160]}
    # regeneration through the attached STRUCTURED spec object (`ModelSpecs.get_model_matrix` decides by itself
    # whether the parts are generated jointly): on the same data (the caller's set, if any, supplied again) …
    def kw():
        return {} if c["caller"] is None else {"drop_rows": set(c["caller"])}

    routes = [
        ("result.model_spec.get_model_matrix(data)", lambda d, k: mm.model_spec.get_model_matrix(d, context={}, **k)),
        ("model_matrix(result.model_spec, data)", lambda d, k: model_matrix(mm.model_spec, d, context={}, **k)),
        ("model_matrix(result, data)", lambda d, k: model_matrix(mm, d, context={}, **k)),
    ]

    def regen(fn, d, k):
        try:
            r = fn(d, k)
            rl = []
            tree = tree_of(r, lambda x: (rl.append(x), len(rl) - 1)[1])
            return {"tree": tree, "leaves": [matrix_obs(x, c["output"]) for x in rl]}
        except Exception as e:
            return {"error": type(e).__name__, "msg": str(e)[:160]}

    out["regen"] = [[name, regen(fn, df, kw())] for name, fn in routes]
    # … and, last (a replay may add encoder state to the shared spec objects), on a second frame with a different null pattern
    out["regen2"] = []
    if c.get("data2") is not None:
        df2 = make_frame(c["data2"])
        out["regen2"] = [[name, regen(fn, df2, {})] for name, fn in routes[:2]]
    return out


# ----------------------------------------------------------------------------- histories: observation


def _hkey(seed, expr):
    import hashlib

    return hashlib.sha256(f"{seed}:{expr}".encode()).hexdigest()


def enc_state_json(spec):
    return [[str(k), v[0].value, repr(v[1])] for k, v in spec.encoder_state.items()]


def spec_obs(s):
    return {
        "terms": terms_json(s.formula),
        "structure": structure_json(s),
        "state": state_json(s),
        "enc": enc_state_json(s),
        "materializer": s.materializer,
        "params": None if s.materializer_params is None else [[str(k), str(v)] for k, v in s.materializer_params.items()],
        "output": s.output,
        "efr": bool(s.ensure_full_rank),
        "cluster": s.cluster_by.value != "none",
        "na": s.na_action.value,
    }


class _Recorder:
    """Run-time wrappers (no hooks in the source tree) around four methods of PandasMaterializer for the duration of one
    history: every `get_model_matrix` call on every materializer object is one record — the iteration order chosen for
    the pooled factor SET (a fixed total order on expressions derived from the case's seed), the pooled transform state
    before the pass, what each cache miss of `_evaluate_factor` wrote, the drop list every part was built with, the
    exception class if the call raised, and (taken when the call ends, on a copy of the caches) what the factor cache
    and the encoders hold."""

    NAMES = ("get_model_matrix", "_prepare_factor_evaluation_model_spec", "_evaluate_factor", "_build_model_matrix",
             "_encode_evaled_factor")

    def __init__(self, seed, snapshot=True):
        self.seed, self.calls, self.snapshot, self.stack = seed, [], snapshot, {}

    def __enter__(self):
        from formulaic.materializers import PandasMaterializer as PM

        me = self
        self.saved = {n: PM.__dict__.get(n, _MISSING) for n in self.NAMES}
        orig_gmm, orig_prepare, orig_eval, orig_build, orig_encode = (getattr(PM, n) for n in self.NAMES)

        def cur(m):
            return me.stack[id(m)][-1]

        def encode(m, factor, spec, drop_rows, reduced_rank=False):
            expr, r = factor.expr, bool(reduced_rank)
            miss = (not factor.metadata.encoded) and expr not in m.encoded_cache and (expr, reduced_rank) not in m.encoded_cache
            if not miss:
                return orig_encode(m, factor, spec, drop_rows, reduced_rank=reduced_rank)
            own = spec.encoder_state.get(expr)
            if own is None and expr in m.encoder_state_cache:
                own = m.encoder_state_cache[expr]
            e = {"expr": expr, "drop": [int(i) for i in drop_rows], "r": r, "prior": None if own is None else repr(own[1])}
            cur(m)["encs"].append(e)
            try:
                out = orig_encode(m, factor, spec, drop_rows, reduced_rank=reduced_rank)
            except Exception as ex:
                e["error"] = type(ex).__name__
                raise
            enc = m.encoded_cache[expr] if expr in m.encoded_cache else m.encoded_cache[(expr, reduced_rank)]
            e["post"] = repr(spec.encoder_state[expr][1])
            e["enc"] = _enc_dump(enc, factor)
            return out

        def gmm(m, spec, drop_rows=None, **ov):
            rec = {"order": None, "pooled0": [], "drops": [], "writes": {}, "evalerr": None, "error": None, "output": None, "encs": [],
                   "caller": None if drop_rows is None else sorted(int(i) for i in drop_rows),
                   "params": [[str(k), str(v)] for k, v in m.params.items()], "factors": [], "mid": id(m)}
            me.calls.append(rec)
            me.stack.setdefault(id(m), []).append(rec)
            try:
                return orig_gmm(m, spec, drop_rows=drop_rows, **ov)
            except Exception as e:
                rec["error"] = type(e).__name__
                raise
            finally:
                try:
                    if me.snapshot:
                        rec["factors"] = me.snap(m, rec)
                finally:
                    me.stack[id(m)].pop()

        def prepare(m, model_specs):
            factors, spec = orig_prepare(m, model_specs)
            fl = sorted(factors, key=lambda f: _hkey(me.seed, f.expr))
            rec = cur(m)
            rec["order"] = [f.expr for f in fl]
            rec["pooled0"] = [[str(k), repr(v)] for k, v in spec.transform_state.items()]
            rec["output"] = spec.output
            return fl, spec

        def evaluate(m, factor, spec, drop_rows):
            before = set(spec.transform_state)
            miss = factor.expr not in m.factor_cache
            try:
                r = orig_eval(m, factor, spec, drop_rows)
            except Exception as e:
                cur(m)["evalerr"] = [factor.expr, type(e).__name__]
                raise
            if miss:
                cur(m)["writes"][factor.expr] = [[str(k), repr(v)] for k, v in spec.transform_state.items() if k not in before]
            return r

        def build(m, spec, drop_rows):
            cur(m)["drops"].append([int(i) for i in drop_rows])
            return orig_build(m, spec, drop_rows=drop_rows)

        for n, f in zip(self.NAMES, (gmm, prepare, evaluate, build, encode)):
            setattr(PM, n, f)
        return self

    def __exit__(self, *a):
        from formulaic.materializers import PandasMaterializer as PM

        for n, v in self.saved.items():
            if v is _MISSING:
                delattr(PM, n)
            else:
                setattr(PM, n, v)
        return False

    def snap(self, m, rec):
        """the factor table of one call: what every cache miss of `_evaluate_factor` returned"""
        from formulaic.parser.types import Factor
        from formulaic.utils.null_handling import find_nulls

        out = []
        for expr, ef in m.factor_cache.items():
            md = ef.metadata
            raw = ef.values.__wrapped__
            fj = {"expr": expr, "present": raw is not None, "kind": md.kind.value, "spans": bool(md.spans_intercept),
                  "nulls": sorted(int(i) for i in find_nulls(ef.values)), "writes": rec["writes"].get(expr, []),
                  "st": rec["pooled0"], "share": expr in m.encoded_cache}
            if md.kind is Factor.Kind.CONSTANT:
                fj["value"] = fstr(raw)
            out.append(fj)
        if rec["evalerr"] is not None:
            out.append({"expr": rec["evalerr"][0], "error": rec["evalerr"][1], "st": rec["pooled0"]})
        return out


def _enc_dump(enc, ef):
    """the object `_encode_evaled_factor` holds right before the drop-field step (C02's format)"""
    md = getattr(enc, "__formulaic_metadata__", ef.metadata)
    if isinstance(enc, dict):
        for v in enc.values():
            if isinstance(v, dict):
                raise ValueError("nested encoded dict (not modelled)")
        cols = [[field_json(f), [fstr(x) for x in col_values(v)]] for f, v in enc.items()]
        isdict = True
    else:
        cols = [[field_json(""), [fstr(x) for x in col_values(enc)]]]
        isdict = False
    return {"dict": isdict, "cols": cols, "spans": bool(md.spans_intercept),
            "drop": None if md.drop_field is None else field_json(md.drop_field), "rmeta": bool(md.reduced),
            "fmt": parse_fmt(md.format), "fmtr": parse_fmt(md.format_reduced)}


def _spec_of(obj):
    """built matrices -> their attached specs, keeping tuples and nesting"""
    from formulaic.utils.structured import Structured

    if isinstance(obj, Structured):
        return obj.model_spec
    if isinstance(obj, tuple):
        return tuple(_spec_of(o) for o in obj)
    return obj.model_spec


def resolve_ref(t, results):
    b, kind = t["ref"][0] % len(results), t["ref"][1]
    res = results[b]
    if kind == "whole":
        obj = res
    elif kind == "top":
        items = list(res._structure.values())
        obj = items[t["ref"][2] % len(items)]
    else:
        lv = list(res._flatten())
        obj = lv[t["ref"][2] % len(lv)]
    return _spec_of(obj) if t["as"] == "spec" else obj


def build_cobj(t, results, flavour):
    from formulaic import ModelSpec, ModelSpecs
    from formulaic.utils.structured import Structured

    if "ref" in t:
        return resolve_ref(t, results)
    if "fresh" in t:
        txt = render_leaf(t["fresh"])
        return ModelSpec(formula=txt) if t["as"] == "modelspec" else txt
    if "freshstr" in t:
        return render_string(t["freshstr"])
    if "tup" in t:
        return tuple(build_cobj(s, results, flavour) for s in t["tup"])
    if "inplace" in t:
        S = results[t["inplace"] % len(results)].model_spec
        for i, (k, sub) in enumerate(t["adds"]):
            if i % 2 == 0:
                setattr(S, k, build_cobj(sub, results, flavour))  # `result.model_spec.key = …`
            else:
                S[k] = build_cobj(sub, results, flavour)  # `result.model_spec["key"] = …` (same storage path)
        return S
    cls = ModelSpecs if flavour == "spec" else Structured
    return cls(**{k: build_cobj(sub, results, flavour) for k, sub in t["kw"]})


def expected_tree(t, results):
    """the nested shape the composition denotes (leaves erased), from the shapes of the earlier results"""
    from formulaic import Formula

    unit = lambda x: 0
    if "ref" in t:
        return tree_of(resolve_ref(dict(t, **{"as": "matrix"}), results), unit)
    if "fresh" in t:
        return {"leaf": 0}
    if "freshstr" in t:
        return tree_of(Formula(render_string(t["freshstr"])), unit)
    if "tup" in t:
        return {"tup": [expected_tree(s, results) for s in t["tup"]]}
    if "inplace" in t:
        d = dict(tree_of(results[t["inplace"] % len(results)], unit)["node"])
        for k, sub in t["adds"]:
            d[k] = expected_tree(sub, results)
        return {"node": [[k, v] for k, v in d.items()]}
    return {"node": [[k, expected_tree(sub, results)] for k, sub in t["kw"]]}


def request_ctree(t):
    """the composition as the model receives it: references stay symbolic (the model resolves them in ITS earlier
    results), fresh parts arrive as parsed term lists in the nested shape the formula parser gives them"""
    from formulaic import Formula

    def fresh(txt):
        fl = []
        ft = tree_of(Formula(txt), lambda f: (fl.append(f), len(fl) - 1)[1])
        return {"fresh": tree_request(ft, [terms_json(f) for f in fl])}

    if "ref" in t:
        return {"ref": t["ref"]}
    if "fresh" in t:
        return fresh(render_leaf(t["fresh"]))
    if "freshstr" in t:
        return fresh(render_string(t["freshstr"]))
    if "tup" in t:
        return {"tup": [request_ctree(x) for x in t["tup"]]}
    if "inplace" in t:
        return {"inplace": t["inplace"], "adds": [[k, request_ctree(x)] for k, x in t["adds"]]}
    return {"kw": [[k, request_ctree(x)] for k, x in t["kw"]]}


def _obs_result(r):
    from formulaic.model_matrix import ModelMatrix

    lv = []
    tree = tree_of(r, lambda x: (lv.append(x), len(lv) - 1)[1])
    return {"tree": tree, "is_matrix_leaf": [isinstance(x, ModelMatrix) for x in lv],
            "leaves": [matrix_obs(x, x.model_spec.output) for x in lv], "specs": [spec_obs(x.model_spec) for x in lv]}


def impl_hist(c):
    from formulaic import ModelSpec, ModelSpecs, model_matrix
    from formulaic.materializers import PandasMaterializer

    df = make_frame(c["data"])
    n = c["data"]["nrows"]
    out = {"n": n, "builds": []}
    results = []
    with _Recorder(c["order"]) as rec:
        # (1) the earlier builds
        for b in c["builds"]:
            from formulaic import Formula

            formula = Formula(build_pyspec(b["fs"]))
            fl = []
            ftree = tree_of(formula, lambda f: (fl.append(f), len(fl) - 1)[1])
            k0 = len(rec.calls)
            caller = None if b["caller"] is None else set(b["caller"])
            mm = PandasMaterializer(df, **(b["params"] or {})).get_model_matrix(formula, drop_rows=caller, **_kwargs(c))
            results.append(mm)
            o = _obs_result(mm)
            o.update(ftree=ftree, fterms=[terms_json(f) for f in fl], calls=_calls_json(rec.calls[k0:]))
            out["builds"].append(o)
        # (2) the composed structured spec
        out["expected_tree"] = expected_tree(c["compose"], results)
        out["rtree"] = request_ctree(c["compose"])
        S = build_cobj(c["compose"], results, c["flavour"])
        s2 = c["s2"]
        df2 = df if s2["data"] == "same" else make_frame(c["data2"])
        ov = _kwargs(c) if s2["ov"] else {}
        # what the composition holds, leaf by leaf (through the library's own normalisation of the container)
        origin = ModelSpec.from_spec(S)
        ol = []
        out["otree"] = tree_of(origin, lambda x: (ol.append(x), len(ol) - 1)[1])
        out["origin"] = [spec_obs(x) for x in ol]
        # (3) build it
        caller = None if s2["caller"] is None else set(s2["caller"])
        k0 = len(rec.calls)
        try:
            if s2["route"] == "direct":  # the composed object itself, `root` keys wherever the edits left them
                r = S.get_model_matrix(df2, context={}, drop_rows=caller, **ov)
            elif s2["route"] == "specs":
                r = origin.get_model_matrix(df2, context={}, drop_rows=caller, **ov)
            elif s2["route"] == "sugar":
                r = model_matrix(S, df2, context={}, drop_rows=caller, **ov)
            else:
                r = PandasMaterializer(df2, **(s2["params"] or {})).get_model_matrix(S, drop_rows=caller, **ov)
            out["s2"] = _obs_result(r)
        except Exception as e:
            out["s2"] = {"error": type(e).__name__, "msg": str(e)[:200]}
        out["s2"]["calls"] = _calls_json(rec.calls[k0:])
        out["s2"]["caller_after"] = None if caller is None else sorted(int(i) for i in caller)
    # references for the oracle: every part of the composition on its own
    res = out["s2"]
    if "error" in res:
        alone = []
        for sp in ol:
            try:
                sp.get_model_matrix(df2, context={}, drop_rows=None if s2["caller"] is None else set(s2["caller"]), **ov)
                alone.append(None)
            except Exception as e2:
                alone.append(type(e2).__name__)
        out["alone_errors"] = alone
        return out
    known = [lf["rows"] for lf in res["leaves"] if lf["rows"] is not None]
    jd = sorted(set(range(n)) - set(known[0])) if known else None
    out["joint_drop_from_rows"] = jd
    out["standalone"] = []
    if jd is not None:
        for sp in ol:
            try:
                sm = sp.get_model_matrix(df2, context={}, drop_rows=set(jd), **ov)
                out["standalone"].append(matrix_obs(sm, sm.model_spec.output))
            except Exception as e:
                out["standalone"].append({"error": type(e).__name__, "msg": str(e)[:160]})
    return out


def _calls_json(calls):
    return [{k: v for k, v in r.items() if k != "mid"} for r in calls]


def _subset_spec(c, formula):
    """the `terms_spec` handed to `ModelSpecs.subset`: the structure of the built formula with a random selection of
    each part's terms, then (for the malformed sub-stream) one structural mismatch"""
    from formulaic import Formula
    from formulaic.parser.types import Factor, Term
    from formulaic.utils.structured import Structured

    rng = random.Random(c["seed"])

    def pick(f):
        ts = [t for t in f if rng.random() < 0.6]
        rng.shuffle(ts)
        return ts

    sub = formula._map(pick)
    st, mut = sub._structure, c["mut"]
    keys = list(st)
    k = rng.choice(keys)
    if mut == "addkey":
        st["nokey"] = [Term([Factor("x")])] if rng.random() < 0.5 else []
    elif mut == "longer":
        tk = [q for q in keys if isinstance(st[q], tuple)]
        if tk:
            q = rng.choice(tk)
            st[q] = st[q] + ([],)
        else:
            st[k] = (st[k], [])
    elif mut == "flatten":
        tk = [q for q in keys if isinstance(st[q], tuple)]
        if tk:
            st[rng.choice(tk)] = []
        else:
            st[k] = (st[k],)
    elif mut == "deepen":
        st[k] = (st[k], st[k]) if not isinstance(st[k], tuple) else (st[k],) + st[k]
    elif mut == "nest":
        st[k] = Structured(inner=[])
    elif mut == "foreign":
        lists = []
        sub._map(lambda l: lists.append(l))
        rng.choice(lists).append(Term([Factor("nosuch")]))
    elif mut == "unstructured":
        return [Term([Factor("x")])] if rng.random() < 0.5 else "x"
    return sub


def impl_edit(c):
    from formulaic import Formula
    from formulaic.materializers import PandasMaterializer
    from formulaic.utils.structured import Structured

    df = make_frame(c["data"])
    n = c["data"]["nrows"]
    formula = Formula(build_pyspec(c["fs"]))
    fl = []
    out = {"n": n, "ftree": tree_of(formula, lambda f: (fl.append(f), len(fl) - 1)[1]), "fterms": [terms_json(f) for f in fl]}
    with _Recorder(c["order"]) as rec:
        caller1 = None if c["caller1"] is None else set(c["caller1"])
        mm = PandasMaterializer(df).get_model_matrix(formula, drop_rows=caller1, **_kwargs(c))
        out["build"] = dict(_obs_result(mm), calls=_calls_json(rec.calls))
        ms = mm.model_spec
        k0 = len(rec.calls)
        try:
            if c["op"] == "subset":
                spec = _subset_spec(c, formula)
                sf = Formula.from_spec(spec)
                if isinstance(sf, Structured):
                    sl = []
                    out["fm"] = tree_request(tree_of(sf, lambda f: (sl.append(f), len(sl) - 1)[1]), [terms_json(f) for f in sl])
                else:
                    out["fm"] = None
                d = ms.subset(spec)
            else:
                d = ms.differentiate(c["wrt"])
        except Exception as e:
            out["derive"] = {"error": type(e).__name__, "msg": str(e)[:200]}
            return out
        dl = []
        out["derive"] = {"tree": tree_of(d, lambda x: (dl.append(x), len(dl) - 1)[1]), "specs": [spec_obs(x) for x in dl]}
        if c["op"] == "diff":
            out["dterms"] = [[a, b["terms"]] for a, b in zip([terms_json(s.formula) for s in ms._flatten()], out["derive"]["specs"])]
        caller = None if c["caller"] is None else set(c["caller"])
        try:
            out["s2"] = _obs_result(d.get_model_matrix(df, context={}, drop_rows=caller))
        except Exception as e:
            out["s2"] = {"error": type(e).__name__, "msg": str(e)[:200]}
        out["s2"]["calls"] = _calls_json(rec.calls[k0:])
        out["s2"]["caller_after"] = None if caller is None else sorted(int(i) for i in caller)
    res = out["s2"]
    if "error" in res:
        alone = []
        for sp in dl:
            try:
                sp.get_model_matrix(df, context={}, drop_rows=None if c["caller"] is None else set(c["caller"]))
                alone.append(None)
            except Exception as e2:
                alone.append(type(e2).__name__)
        out["alone_errors"] = alone
        return out
    known = [lf["rows"] for lf in res["leaves"] if lf["rows"] is not None]
    jd = sorted(set(range(n)) - set(known[0])) if known else None
    out["joint_drop_from_rows"] = jd
    out["standalone"] = []
    if jd is not None:
        for sp in dl:
            try:
                sm = sp.get_model_matrix(df, context={}, drop_rows=set(jd))
                out["standalone"].append(matrix_obs(sm, sm.model_spec.output))
            except Exception as e:
                out["standalone"].append({"error": type(e).__name__, "msg": str(e)[:160]})
    return out


def impl_fault(c):
    from formulaic import Formula
    from formulaic.materializers import PandasMaterializer

    df = make_frame(c["data"])
    n = c["data"]["nrows"]
    bad = Formula(build_pyspec(c["bad"]))
    good = Formula(build_pyspec(c["fs"]))
    fl = []
    out = {"n": n, "ftree": tree_of(good, lambda f: (fl.append(f), len(fl) - 1)[1]), "fterms": [terms_json(f) for f in fl]}
    bl = []
    out["btree"] = tree_of(bad, lambda f: (bl.append(f), len(bl) - 1)[1])
    out["bterms"] = [terms_json(f) for f in bl]
    m = PandasMaterializer(df)
    with _Recorder(c["order"]) as rec:
        out["first"] = []
        for _ in range(2 if c.get("twice") else 1):
            try:
                m.get_model_matrix(bad, drop_rows=None if c["caller_bad"] is None else set(c["caller_bad"]), **_kwargs(c))
                out["first"].append(None)
            except Exception as e:
                out["first"].append(type(e).__name__)
        try:
            out["second"] = _obs_result(m.get_model_matrix(good, drop_rows=None if c["caller"] is None else set(c["caller"]), **_kwargs(c)))
        except Exception as e:
            out["second"] = {"error": type(e).__name__, "msg": str(e)[:200]}
        out["calls"] = _calls_json(rec.calls)
    # the reference: the same call on a NEW materializer (same iteration order of the factor set)
    with _Recorder(c["order"], snapshot=False):
        try:
            out["fresh"] = _obs_result(PandasMaterializer(df).get_model_matrix(good, drop_rows=None if c["caller"] is None else set(c["caller"]), **_kwargs(c)))
        except Exception as e:
            out["fresh"] = {"error": type(e).__name__, "msg": str(e)[:200]}
    return out


# ----------------------------------------------------------------------------- comparisons


def _val_eq(a: str, b: str, tol: bool) -> bool:
    if a == b:
        return True
    if a == "nan" or b == "nan":
        return False
    if not tol:
        return Fraction(a) == Fraction(b)
    x, y = ffloat(a), ffloat(b)
    return abs(x - y) <= 1e-9 * (1 + abs(y))


def _same_matrix(a, b, tol, what="matrix", structure=False, state=False):
    """a, b: matrix observables. None when equal (names, values, rows)"""
    if "error" in a or "error" in b:
        if a.get("error") == b.get("error"):
            return None
        return f"{what}: {a.get('error', 'no error')} vs {b.get('error', 'no error')} {b.get('msg', a.get('msg', ''))}"
    if a["names"] != b["names"]:
        return f"{what}: column names {a['names']} vs {b['names']}"
    if a["nrows"] != b["nrows"]:
        return f"{what}: {a['nrows']} rows vs {b['nrows']} rows"
    if a["rows"] is not None and b["rows"] is not None and a["rows"] != b["rows"]:
        return f"{what}: kept rows {a['rows']} vs {b['rows']}"
    if len(a["values"]) != len(b["values"]):
        return f"{what}: {len(a['values'])} vs {len(b['values'])} columns"
    for nm, x, y in zip(a["names"], a["values"], b["values"]):
        if len(x) != len(y):
            return f"{what}: column {nm} has length {len(x)} vs {len(y)}"
        for i, (p, q) in enumerate(zip(x, y)):
            if not _val_eq(p, q, tol):
                if "(model vs impl)" in what and q == "nan" and Fraction(p) == 0 and ("scale(" in nm or "standardize(" in nm):
                    # a rescaled column fitted on a CONSTANT vector: the code computes 0/0 = NaN, the model's exact field
                    # has x/0 = 0 (the degenerate fit is C13's subject, which models it as non-finite)
                    continue
                return f"{what}: column {nm} row {i}: {p} vs {q}"
    if structure and a.get("structure") != b.get("structure"):
        return f"{what}: recorded structure {a.get('structure')} vs {b.get('structure')}"
    if state == "unordered" and sorted(a.get("state") or []) != sorted(b.get("state") or []):
        return f"{what}: transform state {a.get('state')} vs {b.get('state')}"
    if state is True and a.get("state") != b.get("state"):
        return f"{what}: transform state {a.get('state')} vs {b.get('state')}"
    return None


def _same_leaves(a, b, state=False):
    if len(a) != len(b):
        return "different number of leaves"
    for i, (x, y) in enumerate(zip(a, b)):
        w = _same_matrix(x, y, False, f"leaf {i}", structure=True, state=state)
        if w:
            return w
    return None


def _inexact(c):
    txt = str(c["fs"])
    return "center(" in txt or "scale(" in txt


# ----------------------------------------------------------------------------- request / agree


def tree_request(ftree, fterms):
    if "node" in ftree:
        return {"node": [[k, tree_request(v, fterms)] for k, v in ftree["node"]]}
    if "tup" in ftree:
        return {"tup": [tree_request(v, fterms) for v in ftree["tup"]]}
    return {"leaf": {"terms": fterms[ftree["leaf"]], "state": []}}


def request(c, o):
    if "harness_exception" in o:
        return dict(op="noop")
    if c["kind"] == "hist":
        return request_hist(c, o)
    if c["kind"] == "fault":
        return request_fault(c, o)
    if c["kind"] == "edit":
        return request_edit(c, o)
    base = dict(
        op="joint",
        n=o["n"],
        caller=c["caller"] or [],
        efr=c["efr"],
        cluster=c["cluster"],
        output=c["output"],
        variant="fast",
        tree=tree_request(o["ftree"], o["fterms"]),
        fspec=fspec_json(c["fs"]),
        fterms=o["fterms"],
    )
    if "error" in o:
        # the model is given an evaluation table in which every expression that mentions `nosuch` fails
        exprs = sorted({e for ts in o["fterms"] for t in ts for e in t})
        base["order"] = exprs
        base["droplist"] = []
        base["factors"] = [
            {"expr": e, "error": "FactorEvaluationError"} if "nosuch" in e else
            {"expr": e, "present": True, "kind": "numerical", "spans": False, "nulls": [], "writes": [],
             "full": {"dict": False, "cols": [[field_json(""), ["0"] * o["n"]]], "spans": False, "drop": None, "rmeta": False, "fmt": [], "fmtr": None},
             "reduced": {"dict": False, "cols": [[field_json(""), ["0"] * o["n"]]], "spans": False, "drop": None, "rmeta": False, "fmt": [], "fmtr": None}}
            for e in exprs
        ]
        return base
    base["order"] = o["order"]
    base["droplist"] = o["drop"]
    base["factors"] = o["factors"]
    return base


def _ovj(c):
    return {"efr": c["efr"], "cluster": c["cluster"], "output": c["output"]}


def _pj(p):
    return [[str(k), str(v)] for k, v in (p or {}).items()]


def _tables(calls):
    return {"table": [f for r in calls for f in r["factors"]], "encs": [e for r in calls for e in r["encs"]]}


def _perm(seed, stages):
    ex = {f["expr"] for st in stages for f in st["table"]}
    return sorted(ex, key=lambda e: _hkey(seed, e))


def request_hist(c, o):
    stages = []
    for b, ob in zip(c["builds"], o["builds"]):
        stages.append(dict(do="build", tree=tree_request(ob["ftree"], ob["fterms"]), fspec=fspec_json(b["fs"]), fterms=ob["fterms"],
                           cls="pandas", params=_pj(b["params"]),
                           ov=_ovj(c), caller=b["caller"], **_tables(ob["calls"])))
    s2 = c["s2"]
    stages.append(dict(do="compose", ctree=o["rtree"], route="materializer" if s2["route"] == "materializer" else "specs",
                       norm=s2["route"] in ("specs", "sugar"), cls="pandas", params=_pj(s2["params"]), ov=_ovj(c) if s2["ov"] else None, caller=s2["caller"],
                       **_tables(o["s2"]["calls"])))
    return dict(op="hist", n=o["n"], perm=_perm(c["order"], stages), stages=stages)


def request_fault(c, o):
    calls = [dict(tree=tree_request(o["btree"], o["bterms"]), fspec=fspec_json(c["bad"]), fterms=o["bterms"], ov=_ovj(c),
                  caller=c["caller_bad"]) for _ in o["first"]]
    calls.append(dict(tree=tree_request(o["ftree"], o["fterms"]), fspec=fspec_json(c["fs"]), fterms=o["fterms"], ov=_ovj(c),
                      caller=c["caller"]))
    st = dict(do="calls", calls=calls, cls="pandas", params=[], **_tables(o["calls"]))
    return dict(op="hist", n=o["n"], perm=_perm(c["order"], [st]), stages=[st])


def request_edit(c, o):
    st1 = dict(do="build", tree=tree_request(o["ftree"], o["fterms"]), fspec=fspec_json(c["fs"]), fterms=o["fterms"], cls="pandas",
               params=[], ov=_ovj(c), caller=c["caller1"],
               **_tables(o["build"]["calls"]))
    calls2 = o.get("s2", {}).get("calls", [])
    st2 = dict(do="derive", op=c["op"], fm=o.get("fm"), dterms=o.get("dterms", []), caller=c["caller"], **_tables(calls2))
    st2["from"] = 0
    return dict(op="hist", n=o["n"], perm=_perm(c["order"], [st1, st2]), stages=[st1, st2])


def agree_edit(c, o, m):
    tol = "center(" in str(c) or "scale(" in str(c)
    if "error" in m:
        return "model: " + str(m["error"])
    w = _agree_result(m["stages"][0], o["build"], tol, "first build")
    if w:
        return w
    ms = m["stages"][1]
    md, od = ms["derive"], o["derive"]
    if "error" in md or "error" in od:
        if md.get("error") != od.get("error"):
            return f"{c['op']}: impl {od.get('error', 'no error')} ({od.get('msg', '')}) vs model {md.get('error', 'no error')}"
        return None
    if md["tree"] != od["tree"]:
        return f"{c['op']}: derived spec tree: model {md['tree']} vs impl {od['tree']}"
    for i, (a, b) in enumerate(zip(md["leaves"], od["specs"])):
        for k in SPEC_FIELDS:
            if a[k] != b[k]:
                return f"{c['op']}: derived spec {i}, field {k}: model {a[k]} vs impl {b[k]}"
    w = _agree_result(ms, o["s2"], tol, f"build of the {c['op']} specs")
    if w:
        return w
    if "error" not in ms and o["s2"]["caller_after"] is not None and o["s2"]["caller_after"] != ms["dropset"]:
        return f"caller's drop set after the call: model {ms['dropset']} vs impl {o['s2']['caller_after']}"
    return None


def oracle_edit(c, o):
    """subset / differentiate of the attached structured spec: same shape as the formula handed in (resp. as the
    spec), row-aligned parts, each part equal to its stand-alone build with the jointly dropped rows; a subset part
    holds the parent part's columns of the chosen terms"""
    b = o["build"]
    w = _aligned(b["leaves"])
    if w:
        return "first build: " + w
    d = o["derive"]
    if "error" in d:
        if c["op"] == "diff":
            return f"differentiate raised {d['error']}: {d.get('msg', '')}"
        if c["mut"] is None:
            return f"subset with a formula of the spec's own structure and terms raised {d['error']}: {d.get('msg', '')}"
        return None
    if c["op"] == "subset" and c["mut"] is not None:
        bp = set(paths_of(b["tree"]))
        outside = [p for p in (paths_of(o["fm"]) if o.get("fm") else {})  if p not in bp]
        if c["mut"] == "foreign" or o.get("fm") is None or outside:
            return (f"subset accepted a formula that does not match the spec ({c['mut']}; formula parts at {outside} have no "
                    f"counterpart): {d['tree']}")
    want = shape_unordered(o["fm"]) if c["op"] == "subset" else shape_unordered(b["tree"])
    if shape_unordered(d["tree"]) != want:
        return f"{c['op']}: derived specs have shape {d['tree']}, expected {o.get('fm') if c['op'] == 'subset' else b['tree']}"
    for i, sp in enumerate(d["specs"]):
        if c["op"] == "subset":
            if sp["structure"] is None or [sorted(r["term"]) for r in sp["structure"]] != [sorted(t) for t in sp["terms"]]:
                return f"subset spec {i}: structure rows {sp['structure'] and [r['term'] for r in sp['structure']]} do not follow its terms {sp['terms']}"
        elif sp["structure"] is not None:
            return f"differentiated spec {i} still carries the structure recorded for the original terms"
    s2 = o["s2"]
    if "error" in s2:
        if o.get("alone_errors") is not None and all(e is None for e in o["alone_errors"]) and o["alone_errors"]:
            return f"building the {c['op']} specs raised {s2['error']} ({s2.get('msg', '')}) although every part materialises on its own"
        return None
    if shape_unordered(s2["tree"]) != want:
        return f"{c['op']}: result has shape {s2['tree']}, the derived specs {d['tree']}"
    w = _enc_check(s2["specs"], f"build of the {c['op']} specs")
    if w:
        return w
    w = _aligned(s2["leaves"])
    if w:
        return f"build of the {c['op']} specs: {w}"
    jd = o.get("joint_drop_from_rows")
    if jd is None:
        return None
    tol = "center(" in str(c) or "scale(" in str(c)
    dp, rp = paths_of(d["tree"]), paths_of(s2["tree"])
    for path, di in dp.items():
        w = _same_matrix(s2["leaves"][rp[path]], o["standalone"][di], tol, f"{c['op']} part at {path} vs its stand-alone build with drop_rows={jd}")
        if w:
            return w
    if c["op"] == "subset":
        bp = paths_of(b["tree"])
        for path in dp:
            if path not in bp:
                continue
            par, ch = b["leaves"][bp[path]], s2["leaves"][rp[path]]
            if par["rows"] is None or ch["rows"] is None:
                continue
            for nm, col in zip(ch["names"], ch["values"]):
                if ch["names"].count(nm) > 1 or par["names"].count(nm) != 1:
                    continue
                pc = dict(zip(par["rows"], par["values"][par["names"].index(nm)]))
                for r, v in zip(ch["rows"], col):
                    if r in pc and not _val_eq(v, pc[r], tol):
                        return f"subset part at {path}: column {nm} row {r}: {v} vs {pc[r]} in the parent part"
            missing = [nm for nm in ch["names"] if nm not in par["names"]]
            if missing:
                return f"subset part at {path} has columns {missing} that the parent part does not have"
    return None


def _model_part_obs(ml):
    sp = ml["spec"]
    return {"names": [e["name"] for e in ml["columns"]], "values": [e["values"] for e in ml["columns"]], "nrows": ml["nrows"],
            "rows": ml["rows"], "structure": sp["structure"], "state": sp["state"]}


SPEC_FIELDS = ("terms", "structure", "state", "enc", "materializer", "params", "output", "efr", "cluster")


def _agree_result(mo, io, tol, what):
    """one result of the model against one observed result (trees, parts, attached specs)"""
    if "error" in mo or "error" in io:
        if mo.get("error") == io.get("error"):
            return None
        return f"{what}: impl {io.get('error', 'no error')} ({io.get('msg', '')}) vs model {mo.get('error', 'no error')}"
    if mo["tree"] != io["tree"]:
        return f"{what}: result tree: model {mo['tree']} vs impl {io['tree']}"
    for i, (ml, il) in enumerate(zip(mo["leaves"], io["leaves"])):
        w = _same_matrix(_strip_rows(_model_part_obs(ml), il), il, tol, f"{what} part {i} (model vs impl)", structure=True, state=True)
        if w:
            return w
        for k in SPEC_FIELDS:
            if ml["spec"][k] != io["specs"][i][k]:
                return f"{what} part {i}: attached spec field {k}: model {ml['spec'][k]} vs impl {io['specs'][i][k]}"
    return None


def agree_hist(c, o, m):
    tol = "center(" in str(c) or "scale(" in str(c)
    if "error" in m:
        return "model: " + str(m["error"])
    st = m["stages"]
    for i, ob in enumerate(o["builds"]):
        w = _agree_result(st[i], ob, tol, f"earlier build {i}")
        if w:
            return w
        drops = [d for r in ob["calls"] for d in r["drops"]]
        if drops and drops[0] != st[i]["drop"]:
            return f"earlier build {i}: drop list: model {st[i]['drop']} vs impl {drops[0]}"
    ms, os_ = st[len(o["builds"])], o["s2"]
    if "origin" in ms:
        if ms["origin"]["tree"] != o["otree"]:
            return f"composed spec tree: model {ms['origin']['tree']} vs impl {o['otree']}"
        for i, (a, b) in enumerate(zip(ms["origin"]["leaves"], o["origin"])):
            for k in SPEC_FIELDS:
                if a[k] != b[k]:
                    return f"composed spec, part {i}, field {k}: model {a[k]} vs impl {b[k]}"
    w = _agree_result(ms, os_, tol, "composed build")
    if w:
        return w
    if "error" in ms:
        return None
    ncalls, nleaves = len(os_["calls"]), len(os_["leaves"])
    if c["s2"]["route"] != "materializer":
        expect = 1 if ms["jointly"] else ms["passes"] * nleaves
        if ncalls != expect:
            return (f"generation strategy: the model generates {'jointly' if ms['jointly'] else 'per spec, passes=' + str(ms['passes'])} "
                    f"({expect} materializer calls), the implementation made {ncalls}")
    if os_["caller_after"] is not None and os_["caller_after"] != ms["dropset"]:
        return f"caller's drop set after the call: model {ms['dropset']} vs impl {os_['caller_after']}"
    return None


def agree_fault(c, o, m):
    if "error" in m:
        return "model: " + str(m["error"])
    calls = m["stages"][0]["calls"]
    for i, e in enumerate(o["first"]):
        me = calls[i].get("error")
        if me != e:
            return f"call {i} (expected to raise): impl {e} vs model {me}"
    return _agree_result(calls[-1], o["second"], "center(" in str(c) or "scale(" in str(c), "call after the failed one")


def _model_leaf_obs(ml):
    if "error" in ml:
        return ml
    return {
        "names": [e["name"] for e in ml["columns"]],
        "values": [e["values"] for e in ml["columns"]],
        "nrows": ml["nrows"],
        "rows": ml["rows"],
        "structure": ml["structure"],
        "state": ml["state"],
    }


def agree(c, o, m):
    if "driver_error" in m:
        return "driver: " + m["driver_error"][:300]
    if "harness_exception" in o:
        return None
    if c["kind"] == "hist":
        return agree_hist(c, o, m)
    if c["kind"] == "fault":
        return agree_fault(c, o, m)
    if c["kind"] == "edit":
        return agree_edit(c, o, m)
    w = _agree_ftree(c, o, m)
    if w:
        return w
    if "error" in o or "error" in m:
        if o.get("error") == m.get("error"):
            return None
        return f"impl {o.get('error', 'no error')} ({o.get('msg', '')}) vs model {m.get('error', 'no error')}"
    tol = _inexact(c)
    if not o["reversed_same"]:
        return "contract of the evaluation abstraction violated: reversing the iteration order of the factor set changed the result " + o.get("reversed_error", "")
    if not o["drops_all_equal"]:
        return "the parts were built with different drop lists"
    if m["drop"] != o["drop"]:
        return f"joint drop list: model {m['drop']} vs impl {o['drop']}"
    if m["tree"] != o["mtree"]:
        return f"matrix tree: model {m['tree']} vs impl {o['mtree']}"
    if m["stree"] != o["stree"]:
        return f"spec tree: model {m['stree']} vs impl {o['stree']}"
    if len(m["leaves"]) != len(o["leaves"]):
        return "different number of leaves"
    pandas_out = c["output"] == "pandas"
    for i, (ml, ol) in enumerate(zip(m["leaves"], o["leaves"])):
        mo = _model_leaf_obs(ml)
        if not pandas_out and "error" not in mo:
            mo = dict(mo, rows=mo["rows"] if ol["rows"] is not None else None)
        w = _same_matrix(mo, ol, tol, f"leaf {i} (model vs impl)", structure=True, state=True)
        if w:
            return w
        if ml.get("terms") != ol["terms"]:
            return f"leaf {i}: spec terms {ml.get('terms')} vs {ol['terms']}"
    for i, (ms, os_) in enumerate(zip(m["specs"], o["spec_leaves"])):
        if ms != os_:
            return f"spec leaf {i}: model {ms} vs impl {os_}"
    # the model's own standalone builds / replays against the implementation's
    fl = leaf_list(o["ftree"], list(range(len(o["fterms"]))))
    if o["joint_drop_from_rows"] is not None:
        if o["joint_drop_from_rows"] != m["drop"]:
            return f"rows missing from the output {o['joint_drop_from_rows']} vs model drop list {m['drop']}"
        for j, (ms, fi) in enumerate(zip(m["standalone"], fl)):
            w = _same_matrix(_strip_rows(_model_leaf_obs(ms), o["standalone"][fi]), o["standalone"][fi], tol,
                             f"standalone build of formula leaf {fi} (model vs impl)", structure=True)
            if w:
                return w
        if isinstance(o["jreplay"], dict) or "error" in m["jreplay"]:
            a, b = (o["jreplay"].get("error") if isinstance(o["jreplay"], dict) else None), m["jreplay"].get("error")
            if a != b:
                return f"joint replay: impl {a} vs model {b}"
        else:
            if m["jreplay"]["tree"] != o["jtree"]:
                return f"joint replay tree: model {m['jreplay']['tree']} vs impl {o['jtree']}"
            for j, (ms, ol) in enumerate(zip(m["jreplay"]["leaves"], o["jreplay"])):
                w = _same_matrix(_strip_rows(_model_leaf_obs(ms), ol), ol, tol, f"joint replay leaf {j} (model vs impl)", structure=True, state=True)
                if w:
                    return w
            if "mreplay" in o and "mreplay" in m:
                if isinstance(o["mreplay"], dict) or "error" in m["mreplay"]:
                    a, b = (o["mreplay"].get("error") if isinstance(o["mreplay"], dict) else None), m["mreplay"].get("error")
                    if a != b:
                        return f"mixed-state replay: impl {a} vs model {b}"
                else:
                    if m["mreplay"]["tree"] != o["xtree"]:
                        return f"mixed-state replay tree: model {m['mreplay']['tree']} vs impl {o['xtree']}"
                    for j, (ms, ol) in enumerate(zip(m["mreplay"]["leaves"], o["mreplay"])):
                        w = _same_matrix(_strip_rows(_model_leaf_obs(ms), ol), ol, tol, f"mixed-state replay leaf {j} (model vs impl)", structure=True, state=True)
                        if w:
                            return w
            for name, rg in o.get("regen", []):
                if "error" in rg:
                    return f"{name} raised {rg['error']} ({rg.get('msg', '')}), the model's joint replay did not"
                if m["jreplay"]["tree"] != rg["tree"]:
                    return f"{name}: tree {rg['tree']} vs model's joint replay {m['jreplay']['tree']}"
                for j, (ms, ol) in enumerate(zip(m["jreplay"]["leaves"], rg["leaves"])):
                    w = _same_matrix(_strip_rows(_model_leaf_obs(ms), ol), ol, tol, f"{name} leaf {j} (model's joint replay vs impl)", structure=True)
                    if w:
                        return w
        for j, ms in enumerate(m["replay"]):
            w = _same_matrix(_strip_rows(_model_leaf_obs(ms), o["replay"][j]), o["replay"][j], tol,
                             f"replay of spec {j} (model vs impl)", structure=True)
            if w:
                return w
    return None


def _agree_ftree(c, o, m):
    """the formula tree the MODEL builds from the specification against the implementation's formula object"""
    if m.get("ftree_error"):
        return f"formula tree: the model's constructor raised {m.get('error')}, the implementation built {o['ftree']}"
    mt = m.get("ftree")
    if mt is None:
        return None
    if erase_leaves(mt) != erase_leaves(o["ftree"]):
        return f"formula tree: model {mt} vs impl {o['ftree']}"
    mp, ip = paths_of(mt), paths_of(o["ftree"])
    for path, lid in mp.items():
        if _plain_terms(o["leaf_terms"][lid]) != _plain_terms(o["fterms"][ip[path]]):
            return (f"formula tree: the model puts part {lid} ({o['leaf_terms'][lid]}) at {path}, the implementation has "
                    f"{o['fterms'][ip[path]]} there")
    return None


def _strip_rows(mo, ol):
    if "error" in mo or "error" in ol:
        return mo
    return dict(mo, rows=mo["rows"] if ol["rows"] is not None else None)


# ----------------------------------------------------------------------------- oracle


def oracle(c, o):
    if "harness_exception" in o:
        return "harness could not run the implementation: " + o["harness_exception"]
    if c["kind"] == "hist":
        return oracle_hist(c, o)
    if c["kind"] == "fault":
        return oracle_fault(c, o)
    if c["kind"] == "edit":
        return oracle_edit(c, o)
    if c["kind"] == "badname":
        return None if "error" in o else "a formula naming a missing column materialised"
    if "error" in o:
        if o["alone_errors"] and all(e is None for e in o["alone_errors"]):
            return f"the joint build raised {o['error']} ({o.get('msg', '')}) although every part materialises on its own"
        return None
    # 1. same nested shape: formula, matrices, specs
    sf, sm, ss = shape_unordered(o["ftree"]), shape_unordered(o["mtree"]), shape_unordered(o["stree"])
    if sm != sf:
        return f"matrices do not have the shape of the formula: {o['mtree']} vs {o['ftree']}"
    if ss != sf:
        return f"specs do not have the shape of the formula: {o['stree']} vs {o['ftree']}"
    if not all(o["is_matrix_leaf"]):
        return "a leaf of the result is not a ModelMatrix"
    fp, mp, sp = paths_of(o["ftree"]), paths_of(o["mtree"]), paths_of(o["stree"])
    for lf in o["leaves"]:
        if "shape_mismatch" in lf:
            return "matrix shape and column names disagree: " + lf["shape_mismatch"]
    w = _enc_check(o.get("spec_enc", []), "first build")
    if w:
        return w
    # 2. all parts contain the same rows
    counts = {lf["nrows"] for lf in o["leaves"]}
    if len(counts) > 1:
        return f"parts have different numbers of rows: {[lf['nrows'] for lf in o['leaves']]}"
    known = [lf["rows"] for lf in o["leaves"] if lf["rows"] is not None]
    for r in known:
        if r != known[0]:
            return f"parts contain different rows: {known[0]} vs {r}"
    jd = o["joint_drop_from_rows"]
    tol = _inexact(c)
    w = _oracle_regen(c, o, sf, fp, mp, tol)
    if w:
        return w
    if jd is None:
        return None
    for path, fi in fp.items():
        ml = o["leaves"][mp[path]]
        # the leaf holds that part's terms
        if ml["terms"] != o["fterms"][fi]:
            return f"part at {path} was built from terms {ml['terms']}, the formula has {o['fterms'][fi]}"
        # 3. part == standalone build with the jointly dropped rows supplied
        w = _same_matrix(ml, o["standalone"][fi], tol, f"part at {path} vs model_matrix(part terms, data, drop_rows={jd})")
        if w:
            return w
        # 4. the attached spec regenerates the part
        sl = o["spec_leaves"][sp[path]]
        if sl["terms"] != o["fterms"][fi]:
            return f"spec at {path} holds terms {sl['terms']}, the formula has {o['fterms'][fi]}"
        w = _same_matrix(ml, o["replay"][sp[path]], tol, f"part at {path} vs result.model_spec[{path}].get_model_matrix(data, drop_rows={jd})")
        if w:
            return w
    # 4c. … and when every second one is replaced by a never materialized spec over the same terms (mixed states)
    if "mreplay" in o:
        if isinstance(o["mreplay"], dict):
            return f"building attached and fresh specs together raised {o['mreplay']['error']}: {o['mreplay'].get('msg', '')}"
        if shape_unordered(o["xtree"]) != sf:
            return f"the mixed-state build has shape {o['xtree']}, the formula {o['ftree']}"
        xp = paths_of(o["xtree"])
        for path in fp:
            w = _same_matrix(o["leaves"][mp[path]], o["mreplay"][xp[path]], tol,
                             f"part at {path} vs the same part of a joint build of attached specs (even positions) and fresh specs (odd positions) with drop_rows={jd}")
            if w:
                return w
    # 4b. the attached specs regenerate their parts when they are replayed together
    if isinstance(o["jreplay"], dict):
        return f"replaying result.model_spec jointly raised {o['jreplay']['error']}: {o['jreplay'].get('msg', '')}"
    if shape_unordered(o["jtree"]) != sf:
        return f"joint replay of result.model_spec has shape {o['jtree']}, the formula {o['ftree']}"
    jp = paths_of(o["jtree"])
    for path in fp:
        w = _same_matrix(o["leaves"][mp[path]], o["jreplay"][jp[path]], tol,
                         f"part at {path} vs the same part of materializer.get_model_matrix(result.model_spec, drop_rows={jd})")
        if w:
            return w
    return None


def _aligned(leaves):
    """all parts contain the same rows: None or a description of the misalignment"""
    counts = [lf["nrows"] for lf in leaves]
    if len(set(counts)) > 1:
        return f"parts have different numbers of rows: {counts}"
    known = [lf["rows"] for lf in leaves if lf["rows"] is not None]
    for r in known:
        if r != known[0]:
            return f"parts contain different rows: {known[0]} vs {r}"
    return None


def _oracle_regen(c, o, sf, fp, mp, tol):
    """5. regenerating from the attached STRUCTURED spec on the same data gives the same shape, row-aligned parts
    and the parts of the first build; 6. on other data (different null pattern) the same shape and row-aligned parts"""
    for name, rg in o.get("regen", []):
        if "error" in rg:
            return f"{name} raised {rg['error']}: {rg.get('msg', '')} (the first build on the same data succeeded)"
        if shape_unordered(rg["tree"]) != sf:
            return f"{name} has shape {rg['tree']}, the formula {o['ftree']}"
        w = _aligned(rg["leaves"])
        if w:
            return f"{name}: {w}"
        rp = paths_of(rg["tree"])
        for path in fp:
            w = _same_matrix(o["leaves"][mp[path]], rg["leaves"][rp[path]], tol, f"part at {path} of the first build vs the same part of {name}")
            if w:
                return w
    for name, rg in o.get("regen2", []):
        if "error" in rg:
            continue  # whether a spec can be replayed on OTHER data at all is C04/C09's question
        if shape_unordered(rg["tree"]) != sf:
            return f"{name} on a second frame has shape {rg['tree']}, the formula {o['ftree']}"
        w = _aligned(rg["leaves"])
        if w:
            return f"{name} on a second frame with another null pattern: {w}"
    return None


def _enc_missing(sp):
    """scoped factors of the recorded structure for which the spec records no encoder state"""
    if sp.get("structure") is None or "enc" not in sp:
        return []
    have = {k for k, _, _ in sp["enc"]}
    need = [f for row in sp["structure"] for st in row["scoped"] for f, _ in st["factors"]]
    return sorted({f for f in need if f not in have})


def _enc_check(specs, what):
    for i, sp in enumerate(specs):
        miss = _enc_missing(sp)
        if miss:
            return f"{what}: the spec attached to part {i} records no encoder state for {miss} although the part encodes them"
    return None


def _settings(sp):
    return (sp["output"] or "pandas", sp["efr"], sp["na"])


def _shared_cat_exprs(o):
    """categorical factor expressions used by two parts of the composition that bring DIFFERENT encoder state for them:
    a part materialized before (its spec records the levels) and a fresh part (no state), or two parts recorded by
    different earlier builds with different recorded levels"""
    states, cats = {}, set()
    for sp in o.get("origin", []):
        rec = {k: (kind, st) for k, kind, st in sp["enc"]}
        cats |= {k for k, (kind, _) in rec.items() if kind == "categorical"}
        for e in {e for t in sp["terms"] for e in t}:
            states.setdefault(e, set()).add(rec[e][1] if e in rec else None)
    return {e for e, ss in states.items() if e in cats and len(ss) > 1}


def _without(a, exclude):
    """a matrix observable without the columns of the terms that involve one of the expressions in `exclude`"""
    if not exclude or "error" in a or not a.get("structure"):
        return a
    drop = {col for row in a["structure"] if set(row["term"]) & exclude for col in row["columns"]}
    keep = [i for i, nm in enumerate(a["names"]) if nm not in drop]
    return dict(a, names=[a["names"][i] for i in keep], values=[a["values"][i] for i in keep] if a["values"] else [])


def oracle_hist(c, o, exclude=None):
    """the property on a multi-step history: the composed structure keeps its shape, all parts (materialized before or
    fresh, in any order) contain the same rows, and each equals its stand-alone build with the jointly dropped rows"""
    for i, b in enumerate(o["builds"]):
        if shape_unordered(b["tree"]) != shape_unordered(b["ftree"]):
            return f"earlier build {i}: matrices do not have the shape of the formula: {b['tree']} vs {b['ftree']}"
        w = _aligned(b["leaves"]) or _enc_check(b["specs"], f"earlier build {i}")
        if w:
            return f"earlier build {i}: {w}"
    s2 = o["s2"]
    how = f"{c['s2']['route']} route, caller drop set {c['s2']['caller']}, {'with' if c['s2']['ov'] else 'without'} overrides"
    if "error" in s2:
        if not c["s2"]["ov"] and len({_settings(sp) for sp in o["origin"]}) > 1 and s2["error"] == "RuntimeError":
            return None  # parts with different output / rank / null settings cannot be generated together: refused
        if not o["origin"]:
            return None
        if exclude and s2["error"] == "FactorEncodingError":
            return None
        if o.get("alone_errors") is not None and all(e is None for e in o["alone_errors"]):
            return f"building the composed spec raised {s2['error']} ({s2.get('msg', '')}) although every part materialises on its own [{how}]"
        return None
    se = shape_unordered(o["expected_tree"])
    if shape_unordered(s2["tree"]) != se:
        return f"the result does not have the shape of the composed spec: {s2['tree']} vs {o['expected_tree']} [{how}]"
    if shape_unordered(o["otree"]) != se:
        return f"the normalised spec does not have the shape of the composition: {o['otree']} vs {o['expected_tree']}"
    if not all(s2["is_matrix_leaf"]):
        return "a leaf of the result is not a ModelMatrix"
    for lf in s2["leaves"]:
        if "shape_mismatch" in lf:
            return "matrix shape and column names disagree: " + lf["shape_mismatch"]
    w = _enc_check(s2["specs"], "composed build")
    if w:
        return w
    w = _aligned(s2["leaves"])
    if w:
        states = ["built" if sp["structure"] is not None else "fresh" for sp in o["origin"]]
        return f"{w} [parts in _flatten order: {states}; {how}]"
    op, rp = paths_of(o["otree"]), paths_of(s2["tree"])
    for path, oi in op.items():
        if s2["specs"][rp[path]]["terms"] != o["origin"][oi]["terms"]:
            return f"part at {path} was built from terms {s2['specs'][rp[path]]['terms']}, the composition holds {o['origin'][oi]['terms']}"
    jd = o.get("joint_drop_from_rows")
    if jd is None or c["s2"]["data"] != "same":
        return None
    if c["s2"]["caller"] is not None and not set(c["s2"]["caller"]) <= set(jd):
        return f"rows {sorted(set(c['s2']['caller']) - set(jd))} of the caller's drop set are in the output [{how}]"
    tol = "center(" in str(c) or "scale(" in str(c)
    for path, oi in op.items():
        st = "built" if o["origin"][oi]["structure"] is not None else "fresh"
        w = _same_matrix(_without(s2["leaves"][rp[path]], exclude), _without(o["standalone"][oi], exclude), tol,
                         f"{st} part at {path} vs its stand-alone build with drop_rows={jd} [{how}]")
        if w:
            return w
    return None


def oracle_fault(c, o):
    """a call that raised leaves nothing behind: the next call on the same materializer equals the call on a new one"""
    if not o["first"] or any(e is None for e in o["first"]):
        return None  # the first call did not raise: nothing to check here
    a, b = o["second"], o["fresh"]
    if "error" in a or "error" in b:
        if a.get("error") != b.get("error"):
            return (f"after a call that raised {o['first'][0]}, the same materializer answers {a.get('error', 'a result')} "
                    f"where a new materializer answers {b.get('error', 'a result')} {a.get('msg', '')}")
        return None
    if a["tree"] != b["tree"]:
        return f"after a failed call: result tree {a['tree']} vs {b['tree']} on a new materializer"
    for i, (x, y) in enumerate(zip(a["leaves"], b["leaves"])):
        w = _same_matrix(x, y, False, f"after a call that raised {o['first'][0]}: part {i} on the reused materializer vs a new one",
                         structure=True, state=True)
        if w:
            return w
    for i, (x, y) in enumerate(zip(a["specs"], b["specs"])):
        if x != y:
            return f"after a call that raised {o['first'][0]}: spec of part {i} on the reused materializer {x} vs a new one {y}"
    w = _aligned(a["leaves"])
    if w:
        return "after a failed call: " + w
    return None


def classify(c, o, why):
    """C07-F1: a categorical factor shared between parts that bring different encoder state for it — a part that was
    materialized before (its spec records the levels) and a fresh part (levels taken from the data at hand), or two
    parts recorded by different builds with different levels: the materializer's encoded-factor cache is keyed by the
    expression only, so whichever part is built first decides the encoding of all. Signature: such a factor exists,
    the property oracle fires, and it no longer fires when the columns of the terms that involve such a factor are
    left out of the part-vs-stand-alone comparison (or the joint build raised FactorEncodingError from
    `_enforce_structure` while every part builds alone)."""
    if c.get("kind") != "hist" or "harness_exception" in o or "s2" not in o:
        return None
    shared = _shared_cat_exprs(o)
    if shared and oracle_hist(c, o) is not None and oracle_hist(c, o, exclude=shared) is None:
        return "C07-F1"
    return None


LEVEL_TEXT = (
    "Proof: Lean theorems (Props/C07.lean) about two executable models. (1) Model/Parts.lean — get_model_matrix steps 0-3 for "
    "structured specs (pooling of factors and transform state over all parts, one memoised evaluation per distinct factor in an "
    "arbitrary iteration order, one shared drop set, Structured._map building one matrix and one spec per leaf through C02's "
    "pipeline): for ALL structures, null patterns, caller drop sets and iteration orders matrices, specs and formula have the "
    "same shape; every part has exactly the rows outside the joint drop set (= caller's set united with the nulls of every "
    "factor of every part), one entry per such row in every column; each part equals the standalone build of its own terms "
    "with the joint drop set supplied — for formulas and (mixed_state_part_eq_standalone) for parts in ANY state under the "
    "stated agreement of transform state; the result does not depend on the iteration order; replaying a part's spec, or all "
    "specs together, regenerates the parts. (2) Model/PartsHist.lean — multi-step HISTORIES: specs with recorded structure, "
    "transform/encoder state, materializer record and settings; from_spec overrides, _prepare_model_specs, the consistency "
    "check, the kind guard, the encoders behind encoded_cache/encoder_state_cache AS WRITTEN (lazy, part by part), the "
    "materializer object with its caches, ModelSpecs.get_model_matrix (joint/per-spec scan with its quirks, joint branch, "
    "per-spec branch with the shared drop set and the second pass), ModelSpecs.subset/differentiate with the exception "
    "classes Structured.__getitem__ really raises, composition of new structures from earlier results and fresh parts: "
    "for every call on specs in any state shape, one sorted drop list containing the caller's rows, rows of every part, "
    "recorded materializer; fresh parts never block joint generation and specs written by one materializer plus fresh parts "
    "in any order are generated jointly; ModelSpecs.get_model_matrix, joint or per-spec, yields row-aligned parts and a "
    "caller-visible drop set that is exactly the set of dropped rows; a call on a materializer object after ANY history of "
    "calls (failed ones included) equals the call on a new object; every part records encoder state for exactly the factors "
    "it encodes; under EncDet (encoders that do not read the encoder state handed in) each part of a call on specs in any state "
    "equals its stand-alone build on a new materializer with the joint drop list; subset/differentiate keep the documented shape "
    "and fail exactly when a leaf operation fails. Both models "
    "are tied to the code by a differential correspondence on every run (streams parts, badname, hist, fault, edit); an "
    "implementation-only oracle checks the clauses of the property on the real outputs of every case."
)
LEVEL_NOTE = (
    "Trusted: Lean kernel + propext/Classical.choice/Quot.sound; the hand models of base.py get_model_matrix/_build_model_matrix/"
    "_encode_evaled_factor, model_spec.py ModelSpecs.get_model_matrix/subset/differentiate and structured.py _map/__getitem__ "
    "validated by correspondence; factor evaluation and the encoders enter as parameters (results forwarded per case); "
    "stateful transforms are assumed order-insensitive and replayable (checked per case); 'part = stand-alone build' for "
    "mixed-state structures is a theorem only for encoders that ignore recorded encoder state (EncDet); for the real categorical "
    "encoder it is false (finding C07-F1, kernel-checked witness) and observed by the oracle."
)
