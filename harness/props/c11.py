"""C11 — Built-in contrast codings are valid and standard for every level count.

Correspondence stream `c11` (two request kinds):

* op "matrices": for a level list and one option combination, the real
  `ContrastsState.get_coding_matrix / get_coefficient_matrix` (dense and sparse, reduced and full),
  `get_coding_column_names`, `get_drop_field`, `get_spans_intercept`, `get_factor_format`
  against `Model.Contrasts.getCodingMatrix …` and the closed-form inverse `Spec.Contrasts.coef`.
* op "encode": `encode_contrasts(...)`, the `C(...)` encoder closure and `model_matrix("… C(x, …)")`
  on a data vector with absent levels / nulls / values outside the levels against
  `Model.Contrasts.encodeContrasts`.

Numbers: the model answers in exact rationals ("p/q"). Implementation floats are compared after
`Fraction(x).limit_denominator(10**6)` plus an absolute check (1e-12 for codings, 1e-9 for inverses).
Polynomial columns are irrational: the model sends the unnormalised monic column `P` and `norms2`;
the implementation's entry `v` must satisfy `|v - sign(P)·sqrt(P²/norms2)| <= tol(n)` (sign included),
`tol(n) = 1e-11·2^(max(0,n-8)/1.5)` (1e-11·2^(n-6) for arbitrary scores, n <= 12) because the float three-term recurrence loses digits as n grows
(IEEE rounding is not modelled).

Oracle (implementation only, numpy): shapes, rank of [1|C], coefficient @ [1|C] ≈ I, column sums,
dense == sparse, equality with independent R-style constructions, encode == indicator @ coding with
the reference level / explicit level list honoured.
"""
from __future__ import annotations

import math
import warnings
from fractions import Fraction

import numpy
import pandas

PROPERTY = "C11"
ENGINE = "c11"
REQUIRED_THEOREMS = [
    "model_rows_are_entries",
    "coding_eq_textbook",
    "poly_eq_textbook",
    "kind_valid",
    "reference_level_honoured",
    "shape",
    "full_is_identity",
    "coefficient_is_inverse",
    "augmented_invertible",
    "columns_sum_zero",
    "poly_orthogonal",
    "apply_is_product",
    "matMul_entry",
    "dense_sparse_agree",
]
TRUSTED = [
    "numpy.linalg.inv / scipy.sparse.linalg.inv are not modelled: the implementation's coefficient matrix is "
    "compared numerically (1e-9) with the closed form that Props.C11.coefficient_is_inverse proves to be the inverse of [1 | coding]",
    "pandas.Categorical / get_dummies / categorical_encode_series_to_sparse_csc_matrix are modelled by "
    "Model.Contrasts.indicator (one-hot rows; nulls and values outside the levels give zero rows; inferred categories = "
    "sorted distinct values, numbers before strings) and validated by the correspondence only",
    "polynomial contrasts: sqrt and the float three-term recurrence are not modelled; columns are compared as "
    "sign(P)*sqrt(P^2/norms2) with tolerance 1e-11*2^(max(0,n-8)/1.5) (arbitrary scores only for n <= 12, affine scores beyond) (1e-7-level float error at n=40 is rounding, not a finding)",
]
ASSUMPTIONS = [
    "levels are pairwise distinct (pandas rejects duplicate categories); polynomial scores are pairwise distinct",
    "level labels are str or int, with pairwise distinct str() forms (9 and '9' as two levels of one factor collide in model-matrix column names; not generated)",
]
RULE = (
    "n = 1..12 (thorough 1..40) x {treatment(unset/base), SAS(unset/base), sum, helmert(reverse x scale), diff(backward), "
    "poly(none/scores)} x label type {str,int,mixed} in shuffled order: one 'matrices' case each, plus 'encode' cases with random "
    "data (absent levels, nulls, values outside the levels), reduced/full, output pandas/numpy/sparse, via encode_contrasts / C() "
    "encoder / model_matrix, levels explicit / from state / inferred; plus a malformed stream (base not among levels, wrong number "
    "of scores, duplicate levels, unknown output, empty level list); plus a falsy-reference stream: level lists containing the int 0 / "
    "the empty string at a non-first position with base= that label, for treatment and SAS, as matrices and through "
    "encode_contrasts / C() / model_matrix. non-trivial = n >= 3; distinct by canonical JSON"
)

STR_POOL = ["a", "b", "c", "d", "e", "f", "g", "h", "B", "Z", "aa", "ab", "10", "9", "x y", "é", "T.a", "[q]"]


# ----------------------------------------------------------------------------- generation


def _labels(rng, n, ltype):
    if ltype == "str":
        pool = list(STR_POOL) + [f"L{i}" for i in range(max(0, n - len(STR_POOL) + 3))]
        ls = rng.sample(pool, n)
        return [dict(s=x) for x in ls]
    if ltype == "int":
        # 9 and 10 are left out: the string pool has "9" and "10", and str(9) == "9" would give two levels the same
        # column name in a model matrix (a naming collision that is outside this property)
        ls = rng.sample([v for v in range(-30, 62) if v not in (9, 10)], n)
        return [dict(i=x) for x in ls]
    out = _labels(rng, (n + 1) // 2, "str") + _labels(rng, n // 2, "int")
    rng.shuffle(out)
    return out


def _options(rng, n, levels):
    """every option combination once (bases / scores drawn at random)"""
    opts = [dict(k="treatment", base=None), dict(k="treatment", base=rng.choice(levels)),
            dict(k="SAS", base=None), dict(k="SAS", base=rng.choice(levels)), dict(k="sum")]
    for r in (True, False):
        for s in (True, False):
            opts.append(dict(k="helmert", reverse=r, scale=s))
    for b in (True, False):
        opts.append(dict(k="diff", backward=b))
    opts.append(dict(k="poly", scores=None))
    opts.append(dict(k="poly", scores=_scores(rng, n)))
    return opts


def _scores(rng, n):
    if n > 12:
        # arbitrary scores make the float recurrence lose all digits (1e-5 at n=30): beyond 12 levels only affine scores
        a, b = rng.randint(-20, 20), rng.choice([1, 2, 3, -1, -2])
        return [f"{a + b * i}/2" for i in range(n)]
    kind = rng.choice(["int", "half", "sorted"])
    if kind == "half":
        vals = rng.sample(range(-2 * n - 4, 2 * n + 5), n)
        return [f"{v}/2" for v in vals]
    vals = rng.sample(range(-n - 3, n + 6), n)
    if kind == "sorted":
        vals.sort()
    return [f"{v}/1" for v in vals]


def _data(rng, levels, nrows):
    pool = list(levels)
    out = []
    # some levels are deliberately never used
    used = [l for l in pool if rng.random() < 0.7] or pool[:1]
    for _ in range(nrows):
        r = rng.random()
        if r < 0.15:
            out.append(None)
        elif r < 0.22:
            out.append(dict(s="OUTSIDE") if rng.random() < 0.5 else dict(i=999))
        else:
            out.append(rng.choice(used))
    return out


def _falsy_cases(rng, tier):
    """Reference levels whose label is falsy in Python (the int 0, the empty string) and that are NOT the first level:
    `base=0` / `base=""` must be honoured exactly like any other label (a truthiness test on `base` would silently fall
    back to the first level). Treatment and SAS, directly (matrices), through encode_contrasts, the C() encoder and
    model_matrix, with explicit / state / inferred level lists."""
    sizes = {"quick": [2, 3, 4, 6], "thorough": [2, 3, 4, 5, 7, 12, 25], "search": [2, 3, 5]}[tier]
    for n in sizes:
        for ltype in ("int", "str", "mixed"):
            if ltype == "int":
                falsy = dict(i=0)
                others = [dict(i=v) for v in rng.sample([v for v in range(-30, 62) if v not in (0, 9, 10)], n - 1)]
                if all(o["i"] > 0 for o in others):
                    others[0] = dict(i=-others[0]["i"])  # a negative level: 0 is not first in sorted order either
            elif ltype == "str":
                falsy = dict(s="")
                others = _labels(rng, n - 1, "str")
            else:
                falsy = rng.choice([dict(i=0), dict(s="")])
                others = [l for l in _labels(rng, n + 1, "mixed") if l != dict(i=0)][: n - 1]
                if "s" in falsy and not any("i" in o for o in others):
                    others[0] = dict(i=rng.randint(1, 8))  # numbers sort before strings: "" is not first when inferred
                if "i" in falsy and not any("i" in o and o["i"] < 0 for o in others):
                    others[0] = dict(i=-rng.randint(1, 8))
            pos = rng.randint(1, n - 1)  # never the first position
            levels = others[:pos] + [falsy] + others[pos:]
            for k in ("treatment", "SAS"):
                opt = dict(k=k, base=falsy)
                yield dict(op="matrices", contrast=opt, levels=levels, ltype=ltype, falsy=True)
                for how, via in (("arg", "encode"), ("state", "C"), ("arg", "mm"), ("infer", "encode"), ("arg", "C")):
                    data = list(levels) + _data(rng, levels, rng.randint(2, 5))
                    rng.shuffle(data)
                    yield dict(op="encode", contrast=opt, data=data, reduced=rng.random() < 0.75,
                               output=rng.choice(["pandas", "numpy", "sparse"]), via=via, levels_via=how,
                               levels=None if how == "infer" else levels, ltype=ltype, falsy=True)


def cases(rng, tier):
    yield from _falsy_cases(rng, tier)
    nmax = {"quick": 12, "thorough": 40, "search": 9}[tier]
    enc_per = {"quick": 2, "thorough": 3, "search": 1}[tier]
    ns = list(range(1, nmax + 1))
    if tier == "search":
        ns = [1, 2, 3] + rng.sample(range(4, 13), 3)
    for n in ns:
        for ltype in ("str", "int", "mixed"):
            levels = _labels(rng, n, ltype)
            for opt in _options(rng, n, levels):
                yield dict(op="matrices", contrast=opt, levels=levels, ltype=ltype)
        # encode cases
        for opt_i in range(13):
            for _ in range(enc_per):
                ltype = rng.choice(["str", "int", "mixed"])
                levels = _labels(rng, n, ltype)
                opt = _options(rng, n, levels)[opt_i]
                data = _data(rng, levels, rng.randint(0, 7) if rng.random() < 0.1 else rng.randint(3, 9))
                how = rng.choice(["arg", "arg", "state", "infer"])
                via = rng.choice(["encode", "encode", "C", "mm"])
                c = dict(op="encode", contrast=opt, data=data, reduced=rng.random() < 0.6,
                         output=rng.choice(["pandas", "numpy", "sparse"]), via=via, levels_via=how, ltype=ltype)
                if how == "infer":
                    # the levels are whatever occurs in the data; re-draw base / scores against them
                    present = _infer([d for d in data])
                    if not present:
                        continue
                    c["levels"] = None
                    if opt.get("base") is not None:
                        opt = dict(opt, base=rng.choice(present))
                    if opt.get("scores") is not None:
                        opt = dict(opt, scores=_scores(rng, len(present)))
                    c["contrast"] = opt
                else:
                    c["levels"] = levels
                if via == "mm" and how == "state":
                    c["levels_via"] = "arg"
                yield c
    # malformed / edge stream
    for _ in range({"quick": 40, "thorough": 200, "search": 10}[tier]):
        n = rng.randint(1, 6)
        ltype = rng.choice(["str", "int", "mixed"])
        levels = _labels(rng, n, ltype)
        kind = rng.choice(["badbase", "badscores", "duplevels", "badoutput", "emptylevels", "emptyscores"])
        if kind == "badbase":
            opt = dict(k=rng.choice(["treatment", "SAS"]), base=dict(s="not-a-level"))
            yield dict(op="matrices", contrast=opt, levels=levels, ltype=ltype, malformed=kind)
            yield dict(op="encode", contrast=opt, data=_data(rng, levels, 5), reduced=rng.random() < 0.5,
                       output=rng.choice(["pandas", "numpy", "sparse"]), via="encode", levels_via="arg", levels=levels,
                       ltype=ltype, malformed=kind)
        elif kind == "badscores":
            opt = dict(k="poly", scores=_scores(rng, n + rng.choice([1, 2])))
            yield dict(op="matrices", contrast=opt, levels=levels, ltype=ltype, malformed=kind)
            yield dict(op="encode", contrast=opt, data=_data(rng, levels, 5), reduced=rng.random() < 0.5,
                       output="numpy", via="encode", levels_via="arg", levels=levels, ltype=ltype, malformed=kind)
        elif kind == "emptyscores":
            yield dict(op="matrices", contrast=dict(k="poly", scores=[]), levels=levels, ltype=ltype)
        elif kind == "duplevels":
            lv = levels + [rng.choice(levels)]
            yield dict(op="encode", contrast=dict(k="sum"), data=_data(rng, levels, 5), reduced=True,
                       output="numpy", via="encode", levels_via="arg", levels=lv, ltype=ltype, malformed=kind)
        elif kind == "badoutput":
            yield dict(op="encode", contrast=dict(k="sum"), data=_data(rng, levels, 5), reduced=True,
                       output="invalid", via="encode", levels_via="arg", levels=levels, ltype=ltype, malformed=kind)
        else:
            opt = rng.choice(_options(rng, n, levels))
            yield dict(op="encode", contrast=opt, data=_data(rng, levels, 4), reduced=rng.random() < 0.5,
                       output=rng.choice(["pandas", "numpy", "sparse"]), via="encode", levels_via="arg", levels=[],
                       ltype=ltype, malformed=kind)


def describe(c):
    o = c["contrast"]
    name = o["k"]
    if name in ("treatment", "SAS"):
        name += "(base)" if o.get("base") is not None else ""
    if name == "poly" and o.get("scores"):
        name += "(scores)"
    n = len(c["levels"]) if c.get("levels") is not None else len(_infer(c["data"]))
    bucket = "1" if n == 1 else "2" if n == 2 else "3-6" if n <= 6 else "7-12" if n <= 12 else "13+"
    return f"{c['op']}:{name}:n={bucket}" + (":malformed" if c.get("malformed") else "") + (":falsy-base" if c.get("falsy") else "")


def nontrivial(c):
    n = len(c["levels"]) if c.get("levels") is not None else len(_infer(c["data"]))
    return n >= 3


# ----------------------------------------------------------------------------- implementation side


def _py(l):
    if l is None:
        return None
    return l["s"] if "s" in l else l["i"]


def _lab(x):
    if x is None:
        return None
    if isinstance(x, str):
        return dict(s=x)
    if isinstance(x, (bool, numpy.bool_)):
        return dict(other=repr(x))
    if isinstance(x, (int, numpy.integer)):
        return dict(i=int(x))
    return dict(other=repr(x))


def _contrast(o):
    from formulaic.transforms.contrasts import ContrastsRegistry as contr

    k = o["k"]
    if k == "treatment":
        return contr.treatment() if o.get("base") is None else contr.treatment(base=_py(o["base"]))
    if k == "SAS":
        return contr.SAS() if o.get("base") is None else contr.SAS(base=_py(o["base"]))
    if k == "sum":
        return contr.sum()
    if k == "helmert":
        return contr.helmert(reverse=o["reverse"], scale=o["scale"])
    if k == "diff":
        return contr.diff(backward=o["backward"])
    sc = o.get("scores")
    return contr.poly() if sc is None else contr.poly(scores=[float(Fraction(s)) for s in sc])


def _arr(m):
    import scipy.sparse as sp

    kind = type(m).__name__
    if sp.issparse(m):
        a = m.toarray()
    elif isinstance(m, pandas.DataFrame):
        a = m.values
    else:
        a = numpy.asarray(m)
    a = numpy.asarray(a, dtype=float)
    return dict(type=kind, shape=list(a.shape), rows=[[float(v) for v in r] for r in a.tolist()] if a.ndim == 2 else None,
                flat=[float(v) for v in a.ravel().tolist()] if a.ndim != 2 else None)


def _try(f):
    try:
        return f()
    except Exception as e:  # the class name is the observable
        return dict(error=type(e).__name__)


def impl(c):
    warnings.simplefilter("ignore")
    from formulaic.transforms.contrasts import ContrastsState

    if c["op"] == "matrices":
        levels = [_py(l) for l in c["levels"]]
        out = {}
        for key, rr in (("reduced", True), ("full", False)):
            ct = _contrast(c["contrast"])
            st = ContrastsState(ct, levels)
            out[key] = dict(
                coding_dense=_try(lambda: _arr(st.get_coding_matrix(reduced_rank=rr, sparse=False))),
                coding_sparse=_try(lambda: _arr(st.get_coding_matrix(reduced_rank=rr, sparse=True))),
                coef_dense=_try(lambda: _arr(st.get_coefficient_matrix(reduced_rank=rr, sparse=False))),
                coef_sparse=_try(lambda: _arr(st.get_coefficient_matrix(reduced_rank=rr, sparse=True))),
                names=_try(lambda: [_lab(x) for x in ct.get_coding_column_names(levels, reduced_rank=rr)]),
                drop_field=_try(lambda: dict(v=_lab(ct.get_drop_field(levels, reduced_rank=rr)))),
                spans_intercept=_try(lambda: bool(ct.get_spans_intercept(levels, reduced_rank=rr))),
                format=_try(lambda: ct.get_factor_format(levels, reduced_rank=rr)),
            )
        return out
    return _impl_encode(c)


def _impl_encode(c):
    from formulaic import model_matrix
    from formulaic.model_spec import ModelSpec
    from formulaic.transforms.contrasts import C, encode_contrasts

    ct = _contrast(c["contrast"])
    data = pandas.Series([_py(d) for d in c["data"]], dtype=object)
    levels = None if c.get("levels") is None else [_py(l) for l in c["levels"]]
    how, via = c["levels_via"], c["via"]
    state = {}
    kw = {}
    if levels is not None:
        if how == "state":
            state["categories"] = levels
        else:
            kw["levels"] = levels

    def fv_out(fv):
        md = fv.__formulaic_metadata__
        a = _arr(fv.__wrapped__)
        return dict(values=a, names=[_lab(x) for x in md.column_names], spans_intercept=bool(md.spans_intercept),
                    drop_field=_lab(md.drop_field), format=md.format, format_reduced=md.format_reduced,
                    categories=[_lab(x) for x in state.get("categories", [])])

    if via == "encode":
        return _try(lambda: fv_out(encode_contrasts(data, ct, reduced_rank=c["reduced"], output=c["output"], _state=state, **kw)))
    if via == "C":
        def run():
            fv = C(data, ct, **kw)
            spec = ModelSpec(formula=[], output=c["output"])
            return fv_out(fv.__formulaic_metadata__.encoder(data, c["reduced"], [], state, spec))
        return _try(run)

    def run_mm():
        df = pandas.DataFrame({"x": data})
        f = ("1 + " if c["reduced"] else "0 + ") + ("C(x, ct, levels=L)" if levels is not None else "C(x, ct)")
        mm = model_matrix(f, df, na_action="ignore", output=c["output"], context={"ct": ct, "L": levels})
        cols = list(mm.model_spec.column_names)
        a = _arr(mm)
        if c["reduced"]:
            if cols[:1] != ["Intercept"]:
                return dict(error="NoIntercept")
            cols = cols[1:]
            a["rows"] = [r[1:] for r in a["rows"]]
            a["shape"] = [a["shape"][0], a["shape"][1] - 1]
        return dict(values=a, mm_names=cols, mm=True)

    return _try(run_mm)


# ----------------------------------------------------------------------------- model side


def request(c, o):
    if c["op"] == "matrices":
        return dict(op="matrices", contrast=c["contrast"], levels=c["levels"])
    return dict(op="encode", contrast=c["contrast"], levels=c.get("levels"), data=c["data"], reduced=c["reduced"],
                output=c["output"])


def _n_of(c):
    return len(c["levels"]) if c.get("levels") is not None else len(_infer(c["data"]))


def polytol(n, scores=None):
    """absolute tolerance for the (irrational, float-recurrence) polynomial entries; measured float error of the
    implementation against exact arithmetic is 10-60x below this envelope"""
    if scores and n <= 12:
        return 1e-11 * 2.0 ** max(0, n - 6)
    return 1e-11 * 2.0 ** (max(0, n - 8) / 1.5)


def _cmp_exact(x, f, tol):
    """impl float x against the model's rational f"""
    f = Fraction(f)
    if not math.isfinite(x):
        return f"non-finite {x}"
    if abs(x - float(f)) > tol:
        return f"{x} vs {f}"
    if f.denominator <= 10**5 and Fraction(x).limit_denominator(10**6) != f:
        return f"{x} rounds to {Fraction(x).limit_denominator(10**6)} not {f}"
    return None


def _cmp_poly(x, p, n2, tol):
    """impl float x against sign(p) * sqrt(p^2 / n2)"""
    p, n2 = Fraction(p), Fraction(n2)
    if n2 <= 0:
        return f"model norms2 {n2} not positive"
    want = math.copysign(math.sqrt(float(p * p / n2)), float(p)) if p != 0 else 0.0
    if not math.isfinite(x) or abs(x - want) > tol:
        return f"{x} vs sign*sqrt({p}^2/{n2}) = {want}"
    return None


def _cmp_matrix(a, rows, tol, poly=None, polyrows=False, what=""):
    """a = impl _arr dict; rows = model rows of 'p/q'. poly = norms2 list (per column, or per row if polyrows)."""
    if "error" in a or isinstance(rows, dict):
        ea = a.get("error") if isinstance(a, dict) else None
        em = rows.get("error") if isinstance(rows, dict) else None
        return None if ea == em and ea is not None else f"{what}: impl {ea or 'ok'} vs model {em or 'ok'}"
    if a["rows"] is None:
        return f"{what}: impl returned a {len(a['shape'])}-d {a['type']} of shape {a['shape']}, model a matrix"
    nr = len(rows)
    nc = len(rows[0]) if rows else (a["shape"][1] if len(a["shape"]) == 2 else 0)
    if a["shape"] != [nr, nc] and not (nr == 0 and a["shape"][0] == 0):
        return f"{what}: shape {a['shape']} vs model {[nr, nc]}"
    for i, (ra, rm) in enumerate(zip(a["rows"], rows)):
        for j, (x, f) in enumerate(zip(ra, rm)):
            if poly is not None and (not polyrows or i >= 1):
                w = _cmp_poly(x, f, 1 / Fraction(poly[i - 1]) if polyrows else poly[j], tol)
            elif poly is not None:
                # intercept row of the inverse of a polynomial coding: rational, but computed through the float columns
                w = None if abs(x - float(Fraction(f))) <= tol else f"{x} vs {f}"
            else:
                w = _cmp_exact(x, f, tol)
            if w:
                return f"{what}[{i},{j}]: {w}"
    return None


def agree(c, o, m):
    if "driver_error" in m:
        return "driver: " + str(m["driver_error"])[:300]
    if "harness_exception" in o:
        return "harness: " + o["harness_exception"]
    if c["op"] == "matrices":
        n = len(c["levels"])
        is_poly = c["contrast"]["k"] == "poly"
        for key in ("reduced", "full"):
            io, mo = o[key], m[key]
            norms = mo.get("norms2") if (is_poly and key == "reduced" and isinstance(mo.get("norms2"), list)) else None
            ptol = polytol(n, c["contrast"].get("scores"))
            for which in ("coding_dense", "coding_sparse"):
                w = _cmp_matrix(io[which], mo[which], ptol if norms is not None else 1e-12, poly=norms, what=f"{key}.{which}")
                if w:
                    return w
            for which in ("coef_dense", "coef_sparse"):
                # the model has one closed form; the dense call also evaluates the column names (error path)
                mrows = mo["coef"]
                if which == "coef_sparse" and isinstance(mo["coding_sparse"], list) and isinstance(mrows, dict):
                    # sparse path skips the column-name evaluation: the inverse of the identity is the identity
                    mrows = mo["coding_sparse"]
                w = _cmp_matrix(io[which], mrows, 1e3 * ptol if norms is not None else 1e-9, poly=norms, polyrows=True,
                                what=f"{key}.{which}")
                if w:
                    return w
            for fld in ("names",):
                a, b = io[fld], mo[fld]
                if a != b:
                    return f"{key}.{fld}: impl {a} vs model {b}"
            a = io["drop_field"]
            b = mo["drop_field"]
            a = a if "error" in a else a["v"]
            if a != b:
                return f"{key}.drop_field: impl {a} vs model {b}"
            if io["spans_intercept"] != mo["spans_intercept"] or io["format"] != mo["format"]:
                return f"{key}: spans_intercept/format differ"
        return None
    # encode
    me = m["enc"]
    if "error" in o or "error" in me:
        return None if o.get("error") == me.get("error") else f"impl {o.get('error', 'ok')} vs model {me.get('error', 'ok')}"
    n = len(me["categories"])
    norms = m.get("norms2") if (c["contrast"]["k"] == "poly" and c["reduced"] and n > 1 and isinstance(m.get("norms2"), list)) else None
    w = _cmp_matrix(o["values"], me["values"], polytol(n, c["contrast"].get("scores")) if norms is not None else 1e-12, poly=norms, what="values")
    if w:
        return w
    if o.get("mm"):
        want = _mm_names(c, me["names"], me["format"])
        return None if o["mm_names"] == want else f"model_matrix column names {o['mm_names']} vs {want}"
    for fld in ("names", "spans_intercept", "drop_field", "format", "format_reduced", "categories"):
        if o[fld] != me[fld]:
            return f"{fld}: impl {o[fld]} vs model {me[fld]}"
    return None


def _mm_names(c, names, fmt):
    base = "C(x, ct, levels=L)" if c.get("levels") is not None else "C(x, ct)"
    return [fmt.replace("{name}", base).replace("{field}", str(_py(x))) for x in names]


# ----------------------------------------------------------------------------- oracle (implementation only)


def _infer(data):
    ints = sorted({d["i"] for d in data if d is not None and "i" in d})
    strs = sorted({d["s"] for d in data if d is not None and "s" in d})
    return [dict(i=x) for x in ints] + [dict(s=x) for x in strs]


def _ref_coding(o, n, base_idx):
    """R-style reference constructions, written independently of the implementation"""
    k = o["k"]
    if k in ("treatment", "SAS"):
        return numpy.delete(numpy.diag(numpy.ones(n)), base_idx, axis=1)  # contr.treatment: diag(n)[, -base]
    if k == "sum":
        return numpy.vstack([numpy.diag(numpy.ones(n - 1)), -numpy.ones((1, n - 1))])  # contr.sum
    if k == "helmert":
        m = numpy.zeros((n, n - 1))
        for j in range(n - 1):
            if o["reverse"]:  # contr.helmert: column j compares level j+1 with the mean of levels 0..j
                m[: j + 1, j] = -1
                m[j + 1, j] = j + 1
                if o["scale"]:
                    m[:, j] /= j + 2
            else:  # forward Helmert: level j against the mean of the later levels
                m[j, j] = n - 1 - j
                m[j + 1 :, j] = -1
                if o["scale"]:
                    m[:, j] /= n - j
        return m
    if k == "diff":
        m = numpy.zeros((n, n - 1))
        for j in range(n - 1):  # MASS::contr.sdif
            m[: j + 1, j] = -(n - 1 - j) / n
            m[j + 1 :, j] = (j + 1) / n
        return m if o["backward"] else -m
    return None


def _ref_poly(scores, n):
    """contr.poly: QR of the centred Vandermonde matrix, columns scaled to unit length, leading coefficient positive"""
    x = numpy.array(scores, dtype=float)
    x = x - x.mean()
    v = numpy.vander(x, n, increasing=True)
    q, r = numpy.linalg.qr(v)
    z = q * numpy.sign(numpy.diag(r))
    return z[:, 1:]


def _valid(c):
    """options for which the property speaks: distinct levels, base among them, right number of distinct scores"""
    levels = c["levels"] if c.get("levels") is not None else _infer(c["data"])
    if c.get("output", "pandas") not in ("pandas", "numpy", "sparse"):
        return None
    if len(levels) == 0 or len({canon_label(l) for l in levels}) != len(levels):
        return None
    o = c["contrast"]
    if o.get("base") is not None and o["base"] not in levels:
        return None
    if o["k"] == "poly" and o.get("scores"):
        if len(o["scores"]) != len(levels) or len(set(o["scores"])) != len(levels):
            return None
    return levels


def canon_label(l):
    return ("s", l["s"]) if "s" in l else ("i", l["i"])


def _base_idx(o, levels):
    if o["k"] not in ("treatment", "SAS"):
        return None
    if o.get("base") is not None:
        return levels.index(o["base"])
    return 0 if o["k"] == "treatment" else len(levels) - 1


def _mat(a, what):
    if "error" in a:
        raise _Fail(f"{what} raised {a['error']}")
    if a["rows"] is None:
        raise _Fail(f"{what} is not a matrix: {a['type']} of shape {a['shape']}")
    m = numpy.array(a["rows"], dtype=float).reshape(a["shape"])
    if not numpy.isfinite(m).all():
        raise _Fail(f"{what} has non-finite entries")
    return m


class _Fail(Exception):
    pass


def oracle(c, o):
    if "harness_exception" in o:
        return "harness could not run the implementation: " + o["harness_exception"]
    levels = _valid(c)
    if levels is None:
        return None
    try:
        return _oracle_matrices(c, o, levels) if c["op"] == "matrices" else _oracle_encode(c, o, levels)
    except _Fail as e:
        return str(e)


def _oracle_matrices(c, o, levels):
    n = len(levels)
    opt = c["contrast"]
    k = opt["k"]
    is_poly = k == "poly"
    tol = 1e3 * polytol(n, opt.get("scores")) if is_poly else 1e-9
    red, full = o["reduced"], o["full"]
    C = _mat(red["coding_dense"], "reduced coding matrix")
    if C.shape != (n, n - 1):
        return f"reduced coding matrix has shape {C.shape}, expected {(n, n - 1)}"
    F = _mat(full["coding_dense"], "full coding matrix")
    if F.shape != (n, n) or not numpy.array_equal(F, numpy.eye(n)):
        return "full coding matrix is not the identity"
    aug = numpy.hstack([numpy.ones((n, 1)), C])
    if numpy.linalg.matrix_rank(aug) != n:
        return "[1 | coding] is singular"
    K = _mat(red["coef_dense"], "coefficient matrix")
    if K.shape != (n, n) or not numpy.allclose(K @ aug, numpy.eye(n), atol=tol):
        return "reported coefficient matrix is not the inverse of [1 | coding]"
    KF = _mat(full["coef_dense"], "full-rank coefficient matrix")
    if KF.shape != (n, n) or not numpy.allclose(KF, numpy.eye(n), atol=1e-12):
        return "full-rank coefficient matrix is not the identity"
    if k in ("sum", "helmert", "diff", "poly") and n > 1:
        if numpy.abs(C.sum(axis=0)).max() > tol:
            return f"columns of the {k} coding do not sum to zero: {C.sum(axis=0).tolist()}"
    # dense and sparse forms agree
    for key, part, dense in (("reduced", "coding", C), ("full", "coding", F), ("reduced", "coef", K), ("full", "coef", KF)):
        S = _mat(o[key][part + "_sparse"], f"sparse {key} {part} matrix")
        if S.shape != dense.shape or not numpy.allclose(S, dense, atol=tol):
            return f"dense and sparse {key} {part} matrices differ (shapes {dense.shape} / {S.shape})"
    # textbook / R definitions
    if is_poly:
        if n <= 10:
            scores = [float(Fraction(s)) for s in opt["scores"]] if opt.get("scores") else list(range(n))
            R = _ref_poly(scores, n)
            if not numpy.allclose(C, R, atol=1e-7):
                return "polynomial coding differs from the QR construction of contr.poly"
        if n > 1 and not numpy.allclose(C.T @ C, numpy.eye(n - 1), atol=tol):
            return "polynomial columns are not orthonormal"
    else:
        R = _ref_coding(opt, n, _base_idx(opt, levels))
        if not numpy.allclose(C, R, atol=1e-12):
            return f"{k} coding differs from the textbook/R matrix: {C.tolist()} vs {R.tolist()}"
    # names honour the reference level
    names = red["names"]
    if isinstance(names, dict):
        return f"get_coding_column_names raised {names['error']}"
    if len(names) != n - 1:
        return f"{len(names)} reduced column names for {n} levels"
    bi = _base_idx(opt, levels)
    if bi is not None and names != [l for i, l in enumerate(levels) if i != bi]:
        return "treatment column names do not omit exactly the reference level"
    return None


def _oracle_encode(c, o, levels):
    if "error" in o:
        return f"encoding raised {o['error']}"
    from formulaic.transforms.contrasts import ContrastsState

    n = len(levels)
    opt = c["contrast"]
    V = _mat(o["values"], "encoded values")
    data = c["data"]
    ind = numpy.array([[1.0 if d == l else 0.0 for l in levels] for d in data]).reshape(len(data), n)
    # the coding matrix the implementation itself reports for these levels
    warnings.simplefilter("ignore")
    st = ContrastsState(_contrast(opt), [_py(l) for l in levels])
    Cm = numpy.asarray(st.get_coding_matrix(reduced_rank=c["reduced"]).values, dtype=float).reshape(n, n - 1 if c["reduced"] else n)
    want = ind @ Cm
    if V.shape != want.shape:
        return f"encoded shape {V.shape}, indicator @ coding has shape {want.shape}"
    if not numpy.allclose(V, want, atol=1e-12):
        return "encoding differs from indicator matrix times coding matrix"
    if not o.get("mm"):
        if o["categories"] != levels:
            return f"level list not honoured: categories {o['categories']} vs {levels}"
        bi = _base_idx(opt, levels)
        if bi is not None and c["reduced"] and o["names"] != [l for i, l in enumerate(levels) if i != bi]:
            return "reference level not honoured in the encoded column names"
        if bi is not None and not c["reduced"] and n >= 1 and o["drop_field"] != levels[bi]:
            return "drop_field is not the reference level"
    return None


def classify(c, o, why):
    return None


LEVEL_TEXT = (
    "Proof: Lean theorems (Props/C11.lean) show for EVERY level count n and every option that the model's coding matrix "
    "(written from the code's index arithmetic) equals the textbook/R matrix, is n x (n-1), that the closed-form coefficient "
    "matrix is a two-sided inverse of [1 | coding] (hence the determinant is a unit), that sum/Helmert/difference/polynomial "
    "columns sum to zero, that polynomial columns are mutually orthogonal, that the full coding is the identity, and that "
    "encoding equals indicator x coding including the treatment fast path. The model is tied to the real code by a differential "
    "correspondence on every run (all option combinations, n = 1..12 / 1..40, str/int/mixed labels, nulls, absent levels)."
)
LEVEL_NOTE = (
    "Trusted: Lean kernel + propext/Classical.choice/Quot.sound; the hand model of contrasts.py / poly.py validated by "
    "correspondence; numpy/scipy inverses compared with the proved closed form (1e-9); pandas categorical encoding modelled; "
    "float rounding and sqrt in the polynomial coding not modelled (tolerance stated in the evidence)."
)
