"""C11 — Built-in contrast codings are valid and standard for every level count.

Correspondence stream `c11` (five request kinds):

* op "matrices": for a level list and one option combination, the real
  `ContrastsState.get_coding_matrix / get_coefficient_matrix` (dense and sparse, reduced and full),
  `get_coding_column_names`, `get_coefficient_row_names`, the row / column labels of the two DataFrames, `get_drop_field`,
  `get_spans_intercept`, `get_factor_format` against `Model.Contrasts.getCodingMatrix …`, `Model.ContrastsExt.coefRowNames /
  codingFrameLabels / coefFrameLabels` and the closed-form inverse `Spec.Contrasts.coef`.
* op "encode": `encode_contrasts(...)`, the `C(...)` encoder closure, `model_matrix("… C(x, …)")` (pandas or narwhals
  materializer) and reuse of a fitted spec, on a data vector with absent levels / nulls / values outside the levels, the column
  of object dtype or ALREADY categorical (declared categories in another order than / a subset of / a superset of the explicit
  level list), the `contrasts=` argument in every form (instance of a built-in coding, the class itself, nothing, a custom coding
  as `contr.custom(...)` or as a bare dict / list of rows / ndarray) against `Model.ContrastsExt.xEncodeContrasts` (which for an
  instance of a built-in coding IS `Model.Contrasts.encodeContrasts`).
* op "custom": `CustomContrasts(...)` construction (dict, rows, ndarray, flat, empty; names absent / aligned / misaligned) and
  all of its matrices, names and metadata against `Model.ContrastsExt.mkCustom / customCodingMatrix / customCoefMatrix …`; the
  coefficient matrix is the model's exact rational inverse (certified inside the model) compared with numpy / scipy.
* op "apply": `contrasts.apply(dummies, levels, reduced_rank=…, output=…)` called directly on a DataFrame / ndarray / sparse
  matrix / other object, `output` omitted (inferred), spelled out, 'narwhals', or unknown, against `Model.ContrastsExt.applyDirect`.
* op "formula": ONE `model_matrix` call whose formula needs the same `C(x, …)` factor several times (main effect,
  interactions with numerical / categorical partners, several parts of `lhs ~ … | …`, with / without intercept, a second
  contrast factor on the same column), so that it is encoded in full and in reduced rank in either order. The sequence of
  uses (factor, rank, new part) is read off `model_spec.structure`; every use is recovered from the matrix by dividing by
  the exactly known partner columns and compared with `Model.ContrastsCache.materialize` (the model of
  `FormulaMaterializer._encode_evaled_factor`: encoded cache + per-part encoder state) on that history; the second argument of
  `C()` in every form (built-in instance, class, absent, custom coding).

Numbers: the model answers in exact rationals ("p/q"). Implementation floats are compared after
`Fraction(x).limit_denominator(10**6)` plus an absolute check (1e-12 for codings, 1e-9 for inverses; 1e-10·max(1,|K|)² for the
inverse of a custom coding). Polynomial columns are irrational: the model sends the unnormalised monic column `P` and `norms2`;
the implementation's entry `v` in column j must satisfy `|v - sign(P)·sqrt(P²/norms2)| <= tol_j` (sign included),
`tol_j = 16·eps·cond(Vandermonde of the scores scaled to [-1,1], degrees 0..j) + 1e-13` (see `poly_tols`; capped by
`1e-11·2^(max(0,n-8)/1.5)` for equally spaced scores) because constructing orthogonal polynomials is ill-conditioned in the degree
and the spread of the scores (IEEE rounding is not modelled).

Oracle (implementation only, numpy): shapes, rank of [1|C], coefficient @ [1|C] ≈ I, column sums,
dense == sparse, equality with independent R-style constructions, coefficient row names and DataFrame labels against an
independent construction, encode == indicator @ coding with the reference level / explicit level list honoured (whatever the
dtype of the column); custom codings: coding == the given matrix, names as given or 1..k, misaligned names rejected, coefficient
@ [1|C] ≈ I when exactly non-singular, never spans the intercept; apply: result == dummies @ coding in the container of the
inferred output type, unknown output names rejected; for op "formula": every block of columns a contrast factor contributes to
a term (n-1 columns: reduced coding, n columns: full coding, k columns: custom coding) == indicator @ that coding, times the partner columns.
"""
from __future__ import annotations

import json
import math
import random
import warnings
from fractions import Fraction

import numpy
import pandas

PROPERTY = "C11"
ENGINE = "c11"
REQUIRED_THEOREMS = [
    "model_rows_are_entries",
    "coding_eq_textbook",
    "poly_eq_textbook",
    "kind_valid",
    "reference_level_honoured",
    "shape",
    "full_is_identity",
    "coefficient_is_inverse",
    "augmented_invertible",
    "columns_sum_zero",
    "poly_orthogonal",
    "apply_is_product",
    "matMul_entry",
    "dense_sparse_agree",
    "cache_transparent",
    "materialized_is_product",
    "materialized_custom_is_product",
    "class_defaults",
    "live_tables_match",
    "encode_argument_forms",
    "custom_init",
    "custom_names",
    "custom_encode_is_product",
    "apply_output_inferred",
    "apply_direct_is_product",
    "custom_coefficient_is_inverse",
    "coef_input_entries",
    "names_align",
    "names_are_levels",
    "frame_labels_align",
    "encoded_rows",
    "encode_levels_distinct",
    "treatment_rows",
    "c_encoder_drops_rows",
    "poly_normalised_orthonormal",
    "poly_normalised_coefficient_is_inverse",
]
TRUSTED = [
    "numpy.linalg.inv / scipy.sparse.linalg.inv: for the built-in codings the implementation's coefficient matrix is "
    "compared numerically (1e-9) with the closed form that Props.C11.coefficient_is_inverse proves to be the inverse of [1 | coding] "
    "(over the reals for the polynomial coding: poly_normalised_coefficient_is_inverse); for a custom coding with the model's exact "
    "rational inverse, which the model certifies by multiplying back (custom_coefficient_is_inverse). Which exception class the two "
    "libraries raise (LinAlgError / ValueError for non-square, LinAlgError / RuntimeError for singular, scipy's NaN answer for a "
    "singular 1x1 system) is copied from observation; singular cases are generated only in forms both libraries flag exactly "
    "(a zero column, a constant column next to the ones column)",
    "the model's Gauss-Jordan elimination is not proved complete: an answer it cannot certify would surface as 'model-uncertified' "
    "(a correspondence disagreement), never as a wrong inverse",
    "pandas.Categorical / get_dummies / categorical_encode_series_to_sparse_csc_matrix are modelled by "
    "Model.Contrasts.indicator (one-hot rows; nulls and values outside the levels give zero rows; inferred categories = "
    "sorted distinct values, numbers before strings; a categorical column without an explicit level list: its declared categories "
    "in their declared order, handed to the model as the level list) and validated by the correspondence only",
    "numpy.array(...) shape rules for what is given to CustomContrasts ([] and flat sequences are 1-d, rows of one length 2-d, "
    "anything else the inhomogeneous-shape ValueError; csc_matrix promotes 1-d to 1 x m) and pandas.DataFrame(values, columns=, index=) "
    "shape checking are modelled as observed",
    "op 'formula': which rank each use of the factor needs (patsy's rank rules, properties C02/C03) and the row-wise product "
    "of a term's factors are not modelled here: the history is read off the implementation's model_spec.structure and the "
    "partner columns (z, w = +-2^k or 0; g = 0/1 indicators of its sorted levels, first dropped when reduced) are divided out",
    "polynomial contrasts: the float three-term recurrence is not modelled; columns are compared as "
    "sign(P)*sqrt(P^2/norms2) with a per-column tolerance 16*eps*cond(Vandermonde of the scaled scores up to that degree) + 1e-13, capped for equally "
    "spaced scores by 1e-11*2^(max(0,n-8)/1.5) (arbitrary scores only for n <= 12, affine scores beyond) (1e-8-level float error in the last column for 12 "
    "spread-out scores, 1e-6-level at n=40, is conditioning, not a finding); "
    "the sqrt normalisation itself is a theorem over the reals (poly_normalised_orthonormal)",
    "Gen/ContrastsTable.lean (contr registry, factor formats, dataclass defaults, NAME_ALIASES) is regenerated from the live package by "
    "harness/translate.py on every run; live_tables_match / class_defaults are re-decided against it",
]
ASSUMPTIONS = [
    "polynomial coding: the implementation's unit-norm columns are compared with the exact values within an absolute tolerance that is "
    "relative to the column's scale and grows with the conditioning of the problem: column j (degree j) within 16*eps*kappa_j + 1e-13, "
    "kappa_j = cond_2 of the n x (j+1) Vandermonde matrix of the scores mapped onto [-1, 1] (measured error <= 2.1*eps*kappa_j over 3000 "
    "random score vectors, n <= 12); for equally spaced scores additionally capped by the measured envelope 1e-11*2^(max(0,n-8)/1.5); the "
    "inverse (all columns mix) within 16x and the numpy invariants (orthonormality, zero sums, K @ [1|C] = I) within 64x the largest column "
    "tolerance. Treatment / sum / Helmert / difference codings are exact rationals and are compared exactly (1e-12 and rounding to the rational).",
    "levels are pairwise distinct (pandas rejects duplicate categories; encode_levels_distinct); polynomial scores are pairwise distinct",
    "level labels are str or int, with pairwise distinct str() forms (9 and '9' as two levels of one factor collide in model-matrix column names; not generated)",
    "Contrasts.apply called directly: `dummies` has one column per level; an explicit `output` is the one that goes with the type of `dummies`, 'narwhals' "
    "(DataFrame / ndarray only) or an unknown name (other mixtures, e.g. output='sparse' with a DataFrame, are not generated)",
    "custom codings have small dyadic entries; square [1 | C] / C are drawn exactly non-singular, or singular through a zero / constant column",
    "a custom coding with a single level in reduced rank is encoded to NO columns (the empty short-circuit of Contrasts.apply ignores that a custom "
    "coding has k columns whatever the rank): modelled as written, not judged by the oracle",
    "CustomContrasts.get_coefficient_row_names(reduced_rank=False) returns n-1 names for the n x n matrix, so the dense full-rank coefficient "
    "DataFrame of a custom coding always raises ValueError: modelled as written (outside the property text, reported as an observation)",
]
RULE = (
    "n = 1..12 (thorough 1..40) x {treatment(unset/base), SAS(unset/base), sum, helmert(reverse x scale), diff(backward), "
    "poly(none/scores)} x label type {str,int,mixed} in shuffled order: one 'matrices' case each, plus 'encode' cases with random "
    "data (absent levels, nulls, values outside the levels), reduced/full, output pandas/numpy/sparse, via encode_contrasts / C() "
    "encoder / model_matrix, levels explicit / from state / inferred; plus a malformed stream (base not among levels, wrong number "
    "of scores, duplicate levels, unknown output, empty level list); plus a falsy-reference stream: level lists containing the int 0 / "
    "the empty string at a non-first position with base= that label, for treatment and SAS, as matrices and through "
    "encode_contrasts / C() / model_matrix; plus a formula stream: n in {1,2,3,4,5,7} (thorough up to 20) x the 13 option "
    "combinations x {one of 8 canonical shapes in which the factor is needed full-then-reduced / reduced-then-full / in two parts, "
    "one random shape}: terms drawn from A, A:z, A:w, A:g, A:z:w, A:g:z, z, w, g (+ B, B:z, B:g for a second contrast factor on the "
    "same column), intercept 0/1 per part, 1-2 parts, optional lhs, levels explicit / inferred, data with nulls / absent / outside "
    "values, output pandas/numpy/sparse, at least two uses of A per formula (a third of the explicit-level cases on a categorical column "
    "declaring another order); plus a categorical-dtype stream: n in {2,3,4,6} (thorough to 16) x 13 options x {explicit list = permutation "
    "of the declared categories (x2), strict subset, strict superset, same, none (declared order)} via encode_contrasts(levels=) / state / "
    "C() / model_matrix (pandas and narwhals materializer) / reuse of a fitted spec, each with its object-dtype twin; plus a custom stream: "
    "n = 1..6 (thorough 1..10) x {[1|C] square, C square, other widths, misaligned names, wrong row count, singular by a zero / constant "
    "column} x {dict, rows, ndarray} and malformed constructions (ragged, [], {}, flat, no columns); custom / class / absent arguments "
    "through encode_contrasts / C() / model_matrix (bare and as contr.custom(...)); an apply stream: n in {1,2,3,5,8} (thorough to 25) x "
    "14 codings x dummies {DataFrame, ndarray, sparse matrix, list, sparse array} x output {omitted, matching, 'narwhals', unknown}, "
    "one-hot or arbitrary integer dummies; and a formula stream with custom / class / absent arguments. non-trivial = n >= 3; distinct by canonical JSON"
)

STR_POOL = ["a", "b", "c", "d", "e", "f", "g", "h", "B", "Z", "aa", "ab", "10", "9", "x y", "é", "T.a", "[q]"]


# ----------------------------------------------------------------------------- generation


def _labels(rng, n, ltype):
    if ltype == "str":
        pool = list(STR_POOL) + [f"L{i}" for i in range(max(0, n - len(STR_POOL) + 3))]
        ls = rng.sample(pool, n)
        return [dict(s=x) for x in ls]
    if ltype == "int":
        # 9 and 10 are left out: the string pool has "9" and "10", and str(9) == "9" would give two levels the same
        # column name in a model matrix (a naming collision that is outside this property)
        ls = rng.sample([v for v in range(-30, 62) if v not in (9, 10)], n)
        return [dict(i=x) for x in ls]
    out = _labels(rng, (n + 1) // 2, "str") + _labels(rng, n // 2, "int")
    rng.shuffle(out)
    return out


def _options(rng, n, levels):
    """every option combination once (bases / scores drawn at random)"""
    opts = [dict(k="treatment", base=None), dict(k="treatment", base=rng.choice(levels)),
            dict(k="SAS", base=None), dict(k="SAS", base=rng.choice(levels)), dict(k="sum")]
    for r in (True, False):
        for s in (True, False):
            opts.append(dict(k="helmert", reverse=r, scale=s))
    for b in (True, False):
        opts.append(dict(k="diff", backward=b))
    opts.append(dict(k="poly", scores=None))
    opts.append(dict(k="poly", scores=_scores(rng, n)))
    return opts


def _scores(rng, n):
    if n > 12:
        # arbitrary scores make the float recurrence lose all digits (1e-5 at n=30): beyond 12 levels only affine scores
        a, b = rng.randint(-20, 20), rng.choice([1, 2, 3, -1, -2])
        return [f"{a + b * i}/2" for i in range(n)]
    kind = rng.choice(["int", "half", "sorted"])
    if kind == "half":
        vals = rng.sample(range(-2 * n - 4, 2 * n + 5), n)
        return [f"{v}/2" for v in vals]
    vals = rng.sample(range(-n - 3, n + 6), n)
    if kind == "sorted":
        vals.sort()
    return [f"{v}/1" for v in vals]


def _data(rng, levels, nrows):
    pool = list(levels)
    out = []
    # some levels are deliberately never used
    used = [l for l in pool if rng.random() < 0.7] or pool[:1]
    for _ in range(nrows):
        r = rng.random()
        if r < 0.15:
            out.append(None)
        elif r < 0.22:
            out.append(dict(s="OUTSIDE") if rng.random() < 0.5 else dict(i=999))
        else:
            out.append(rng.choice(used))
    return out


def _falsy_cases(rng, tier):
    """Reference levels whose label is falsy in Python (the int 0, the empty string) and that are NOT the first level:
    `base=0` / `base=""` must be honoured exactly like any other label (a truthiness test on `base` would silently fall
    back to the first level). Treatment and SAS, directly (matrices), through encode_contrasts, the C() encoder and
    model_matrix, with explicit / state / inferred level lists."""
    sizes = {"quick": [2, 3, 4, 6], "thorough": [2, 3, 4, 5, 7, 12, 25], "search": [2, 3, 5]}[tier]
    for n in sizes:
        for ltype in ("int", "str", "mixed"):
            if ltype == "int":
                falsy = dict(i=0)
                others = [dict(i=v) for v in rng.sample([v for v in range(-30, 62) if v not in (0, 9, 10)], n - 1)]
                if all(o["i"] > 0 for o in others):
                    others[0] = dict(i=-others[0]["i"])  # a negative level: 0 is not first in sorted order either
            elif ltype == "str":
                falsy = dict(s="")
                others = _labels(rng, n - 1, "str")
            else:
                falsy = rng.choice([dict(i=0), dict(s="")])
                others = [l for l in _labels(rng, n + 1, "mixed") if l != dict(i=0)][: n - 1]
                if "s" in falsy and not any("i" in o for o in others):
                    others[0] = dict(i=rng.randint(1, 8))  # numbers sort before strings: "" is not first when inferred
                if "i" in falsy and not any("i" in o and o["i"] < 0 for o in others):
                    others[0] = dict(i=-rng.randint(1, 8))
            pos = rng.randint(1, n - 1)  # never the first position
            levels = others[:pos] + [falsy] + others[pos:]
            for k in ("treatment", "SAS"):
                opt = dict(k=k, base=falsy)
                yield dict(op="matrices", contrast=opt, levels=levels, ltype=ltype, falsy=True)
                for how, via in (("arg", "encode"), ("state", "C"), ("arg", "mm"), ("infer", "encode"), ("arg", "C")):
                    data = list(levels) + _data(rng, levels, rng.randint(2, 5))
                    rng.shuffle(data)
                    yield dict(op="encode", contrast=opt, data=data, reduced=rng.random() < 0.75,
                               output=rng.choice(["pandas", "numpy", "sparse"]), via=via, levels_via=how,
                               levels=None if how == "infer" else levels, ltype=ltype, falsy=True)


# ---- op "formula": one materialization that needs the same contrast-coded factor several times

NUM_POOL = ["1/1", "2/1", "4/1", "8/1", "1/2", "1/4", "-1/1", "-2/1", "-4/1", "-1/2"]  # +-2^k: division by them is exact
G_POOL = ["u", "v", "w"]
A_TERMS = ["A", "A:z", "A:w", "A:g", "A:z:w", "A:g:z"]
B_TERMS = ["B", "B:z", "B:g"]
# shapes in which the factor A is needed in both ranks in one call, in either order, in one part or across parts
CANONICAL = [
    [["0", "A", "z", "A:z"]],            # full (main effect), then reduced (z is spanned)
    [["0", "A", "g", "A:g"]],            # same with a categorical partner
    [["1", "A", "A:z"]],                 # reduced, then full (z alone is not in the model)
    [["1", "A", "A:g"]],
    [["0", "A"], ["1", "A"]],            # two parts of one materialization
    [["1", "A"], ["0", "A", "A:w", "w"]],
    [["1", "A:z", "A:w", "z"]],          # reduced and full inside interactions only
    [["0", "A", "z", "w", "A:z", "A:z:w", "A:w"]],
]


def _formula_shape(rng, with_b):
    nparts = 1 if rng.random() < 0.65 else 2
    while True:
        parts = []
        for _ in range(nparts):
            pool = A_TERMS + ["z", "w", "g"] + (B_TERMS if with_b else [])
            terms = [t for t in pool if rng.random() < 0.4]
            rng.shuffle(terms)
            parts.append([rng.choice(["0", "1"])] + terms)
        if sum(1 for p in parts for t in p if t.split(":")[0] == "A") >= 2:
            return parts


def _formula_cases(rng, tier):
    """The same `C(x, <contrast>)` factor is materialised several times in ONE call of `model_matrix`: as a main effect and
    inside interactions with numerical / categorical partners, with and without intercept, in one or several parts of a
    multi-part formula (`lhs ~ … | …`), so that it is needed in full rank and in reduced rank in either order; optionally with
    a second contrast factor on the same column. Every occurrence must be indicator x (reduced or full) coding."""
    sizes = {"quick": [1, 2, 3, 4, 5, 7], "thorough": [1, 2, 3, 4, 5, 6, 8, 12, 20], "search": [2, 3, 4, 6]}[tier]
    reps = {"quick": 1, "thorough": 2, "search": 2}[tier]
    k = rng.randrange(len(CANONICAL))
    for n in sizes:
        for opt_i in range(13):
            for rep in range(2 * reps):
                ltype = rng.choice(["str", "int", "mixed"])
                levels = _labels(rng, n, ltype)
                opt = _options(rng, n, levels)[opt_i]
                nrows = rng.randint(4, 9)
                data = _data(rng, levels, nrows)
                if all(d is None or d not in levels for d in data):
                    data[rng.randrange(nrows)] = levels[0]
                how = rng.choice(["arg", "arg", "infer"])
                with_b = rep % 2 == 1 and rng.random() < 0.5
                if how == "infer":
                    present = _infer(data)
                    if opt.get("base") is not None:
                        opt = dict(opt, base=rng.choice(present))
                    if opt.get("scores") is not None:
                        opt = dict(opt, scores=_scores(rng, len(present)))
                    lv = present
                else:
                    lv = levels
                opt2 = rng.choice(_options(rng, len(lv), lv)) if with_b else None
                if rep % 2 == 0:
                    parts = CANONICAL[k % len(CANONICAL)]
                    k += 1
                else:
                    parts = _formula_shape(rng, with_b)
                g = [rng.choice(G_POOL) for _ in range(nrows)]
                if len(set(g)) < 2:
                    g[0], g[1] = "u", "v"
                case = dict(op="formula", contrast=opt, contrast2=opt2, levels=None if how == "infer" else levels,
                            data=data, z=[rng.choice(NUM_POOL) for _ in range(nrows)],
                            w=[rng.choice(NUM_POOL + ["0/1"]) for _ in range(nrows)], g=g, parts=parts,
                            lhs=rng.random() < 0.2, output=rng.choice(["pandas", "numpy", "sparse"]), ltype=ltype)
                # every third case with an explicit level list: the column is a pandas categorical that declares the same
                # labels (and whatever else occurs in the data) in ANOTHER order; decided by a private PRNG so that the
                # older cases are unchanged for a given seed
                r2 = random.Random(json.dumps(case, sort_keys=True))
                if how != "infer" and r2.random() < 0.34:
                    cat = list(levels) + [d for d in _infer(data) if d not in levels]
                    r2.shuffle(cat)
                    case["cat"] = cat
                    case["catrel"] = "perm" if len(cat) == len(levels) else "subset"
                yield case


# ---- extended surface: custom contrasts, the `contrasts=` argument, Contrasts.apply called directly

CLASS_NAMES = ["TreatmentContrasts", "SASContrasts", "SumContrasts", "HelmertContrasts", "DiffContrasts", "PolyContrasts",
               "CustomContrasts"]


def _fdet(rows):
    """exact determinant (Fractions) — used by the GENERATOR (to draw matrices that are safely non-singular) and by the
    oracle (to know whether the property speaks about an inverse); never sent to the model"""
    a = [[Fraction(v) for v in r] for r in rows]
    n = len(a)
    det = Fraction(1)
    for j in range(n):
        p = next((i for i in range(j, n) if a[i][j] != 0), None)
        if p is None:
            return Fraction(0)
        if p != j:
            a[j], a[p] = a[p], a[j]
            det = -det
        det *= a[j][j]
        for i in range(j + 1, n):
            f = a[i][j] / a[j][j]
            if f:
                a[i] = [x - f * y for x, y in zip(a[i], a[j])]
    return det


def _entry(rng):
    v = rng.randint(-6, 6)
    return f"{v}/2" if rng.random() < 0.3 else f"{rng.randint(-3, 3)}/1"


def _custom_matrix(rng, r, k, square_of=None):
    """r x k matrix of small dyadic entries; whenever [1|C] or C is square the matrix is re-drawn until that square matrix
    is exactly non-singular (`square_of` only documents which one the caller is after)"""
    for _ in range(200):
        m = [[_entry(rng) for _ in range(k)] for _ in range(r)]
        # whichever of [1 | C] / C happens to be square is inverted by some call (the sparse paths do not look at the
        # number of levels): never leave it singular by accident — scipy / LAPACK only flag EXACT zero pivots reliably
        if r == k + 1 and _fdet([["1/1"] + row for row in m]) == 0:
            continue
        if r == k and r > 0 and _fdet(m) == 0:
            continue
        return m
    return m


def _custom_names(rng, k, how):
    if how == "none":
        return None
    pool = rng.sample(STR_POOL, min(k + 1, len(STR_POOL))) + [f"n{i}" for i in range(k + 1)]
    names = [dict(s=x) if rng.random() < 0.8 else dict(i=rng.randint(20, 60) + 100 * j) for j, x in enumerate(pool)]
    if how == "aligned":
        return names[:k]
    return names[: k + 1] if (rng.random() < 0.5 or k == 0) else names[: k - 1]   # "mismatch"


def _custom_spec(rng, m, r, k, form=None, names="none", bare=False):
    """JSON description of what is handed to CustomContrasts / encode_contrasts / C(): rows `m` (r x k)"""
    form = form or rng.choice(["dict", "rows", "ndarray"])
    o = dict(k="custom", form=form, bare=bare, names=_custom_names(rng, k, names))
    if form == "dict":
        keys = _custom_names(rng, k, "aligned")
        o["items"] = [[keys[j], [m[i][j] for i in range(r)]] for j in range(k)]
    else:
        o["rows"] = m
    return o


def _custom_cases(rng, tier):
    """`contr.custom(...)` / `CustomContrasts`: construction (dict, rows, ndarray, flat; names aligned / misaligned /
    absent), coding and coefficient matrices (dense, sparse, reduced, full), names, metadata — for matrices that fit the
    levels and for ones that do not"""
    sizes = {"quick": [1, 2, 3, 4, 5, 6], "thorough": list(range(1, 11)), "search": [2, 3, 4]}[tier]
    for n in sizes:
        for ltype in ("str", "int", "mixed"):
            levels = _labels(rng, n, ltype)
            variants = [("aug", n, n - 1, "none"), ("aug", n, n - 1, "aligned"), ("self", n, n, "none"),
                        ("self", n, n, "aligned"), (None, n, rng.choice([0, 1, n + 1, max(0, n - 2)]), "aligned"),
                        (None, n, n - 1, "mismatch"), (None, rng.choice([n + 1, max(1, n - 1), n + 2]), n - 1, "none")]
            for sq, r, k, names in variants:
                if k < 0:
                    continue
                m = _custom_matrix(rng, r, k, sq)
                yield dict(op="custom", contrast=_custom_spec(rng, m, r, k, names=names), levels=levels, ltype=ltype)
            # exactly singular [1|C] / C: a zero column, or a column equal to a constant (both are flagged exactly by LAPACK and SuperLU)
            if n >= 2:
                for sq, k in (("aug", n - 1), ("self", n)):
                    m = _custom_matrix(rng, n, k, sq)
                    j = rng.randrange(k)
                    cval = rng.choice(["0/1", "0/1", "1/1", "2/1", "-1/1", "1/2"]) if sq == "aug" else "0/1"
                    for row in m:
                        row[j] = cval
                    yield dict(op="custom", contrast=_custom_spec(rng, m, n, k), levels=levels, ltype=ltype, singular=True)
        # malformed constructions
        levels = _labels(rng, n, "str")
        m = _custom_matrix(rng, n, max(1, n - 1))
        ragged = [list(r) for r in m] + [[_entry(rng)] * (max(1, n - 1) + 1)]
        yield dict(op="custom", contrast=dict(k="custom", form="rows", rows=ragged, names=None, bare=False), levels=levels, ltype="str", malformed="ragged")
        yield dict(op="custom", contrast=dict(k="custom", form="dict", names=None, bare=False,
                                                items=[[dict(s="p"), [_entry(rng)] * n], [dict(s="q"), [_entry(rng)] * (n + 1)]]),
                   levels=levels, ltype="str", malformed="ragged")
        yield dict(op="custom", contrast=dict(k="custom", form="rows", rows=[], names=rng.choice([None, None, [], [dict(s="a")]]), bare=False),
                   levels=levels, ltype="str", malformed="empty")
        yield dict(op="custom", contrast=dict(k="custom", form="dict", items=[], names=rng.choice([None, [dict(s="a")]]), bare=False),
                   levels=levels, ltype="str", malformed="empty")
        yield dict(op="custom", contrast=dict(k="custom", form="flat", vals=[_entry(rng) for _ in range(n)],
                                                names=rng.choice([None, None, [dict(s="a")]]), bare=False),
                   levels=levels, ltype="str", malformed="flat")
        yield dict(op="custom", contrast=dict(k="custom", form="rows", rows=[[] for _ in range(n)], names=rng.choice([None, []]), bare=False),
                   levels=levels, ltype="str", malformed="nocolumns")


def _custom_encode_cases(rng, tier):
    """encode_contrasts / C() / model_matrix with a custom coding handed over as an instance (`contr.custom(...)`) or
    bare (dict, list of rows, ndarray: the `CustomContrasts(contrasts)` branch of encode_contrasts), and with a class
    (`contr.sum`, not `contr.sum()`) or nothing (`contrasts=None`)"""
    sizes = {"quick": [1, 2, 3, 4, 6], "thorough": [1, 2, 3, 4, 5, 6, 8, 12, 20], "search": [2, 3, 4]}[tier]
    reps = {"quick": 6, "thorough": 8, "search": 4}[tier]
    for n in sizes:
        for rep in range(reps):
            ltype = rng.choice(["str", "int", "mixed"])
            levels = _labels(rng, n, ltype)
            data = _data(rng, levels, rng.randint(3, 9))
            how = rng.choice(["arg", "arg", "state", "infer"])
            via = rng.choice(["encode", "encode", "C", "mm"])
            nlev = n
            if how == "infer":
                present = _infer(data)
                if not present:
                    continue
                nlev = len(present)
            r = nlev if rng.random() < 0.85 else rng.choice([nlev + 1, max(1, nlev - 1)])
            k = rng.choice([nlev - 1, nlev - 1, nlev, 1, 2, 0])
            if k < 0:
                k = 0
            m = _custom_matrix(rng, r, k)
            bare = rng.random() < 0.6
            spec = _custom_spec(rng, m, r, k, names="none" if bare else rng.choice(["none", "aligned"]), bare=bare)
            c = dict(op="encode", contrast=spec, data=data, reduced=rng.random() < 0.5,
                     output=rng.choice(["pandas", "numpy", "sparse"]), via=via, levels_via=how, ltype=ltype,
                     levels=None if how == "infer" else levels)
            if via == "mm" and how == "state":
                c["levels_via"] = "arg"
            yield c
        # a class instead of an instance; nothing at all
        for name in CLASS_NAMES + [None]:
            ltype = rng.choice(["str", "int", "mixed"])
            levels = _labels(rng, n, ltype)
            data = _data(rng, levels, rng.randint(3, 8))
            how = rng.choice(["arg", "infer"])
            if how == "infer" and not _infer(data):
                how = "arg"
            yield dict(op="encode", contrast=dict(k="unset") if name is None else dict(k="cls", name=name), data=data,
                       reduced=rng.random() < 0.6, output=rng.choice(["pandas", "numpy", "sparse"]),
                       via=rng.choice(["encode", "C", "mm"]), levels_via=how, ltype=ltype,
                       levels=None if how == "infer" else levels)
    # malformed bare arguments
    for _ in range({"quick": 12, "thorough": 40, "search": 4}[tier]):
        n = rng.randint(1, 4)
        levels = _labels(rng, n, "str")
        kind = rng.choice(["empty-list", "empty-dict", "flat", "ragged", "dup+custom", "badoutput+custom"])
        out = rng.choice(["pandas", "numpy", "sparse"])
        lv = levels
        if kind == "empty-list":
            spec = dict(k="custom", form="rows", rows=[], names=None, bare=True)
        elif kind == "empty-dict":
            spec = dict(k="custom", form="dict", items=[], names=None, bare=True)
        elif kind == "flat":
            spec = dict(k="custom", form="flat", vals=[_entry(rng) for _ in range(n)], names=None, bare=True)
        elif kind == "ragged":
            spec = dict(k="custom", form="rows", rows=[[_entry(rng)], [_entry(rng), _entry(rng)]], names=None, bare=True)
        else:
            spec = _custom_spec(rng, _custom_matrix(rng, n, 1), n, 1, bare=True)
            if kind == "dup+custom":
                lv = levels + [levels[0]]
            else:
                out = "invalid"
        yield dict(op="encode", contrast=spec, data=_data(rng, levels, 5), reduced=rng.random() < 0.5, output=out,
                   via="encode", levels_via="arg", levels=lv, ltype="str", malformed=kind)


DTYPES = ["frame", "ndarray", "spmatrix"]
OUT_OF = {"frame": "pandas", "ndarray": "numpy", "spmatrix": "sparse"}


def _apply_cases(rng, tier):
    """`contrasts.apply(dummies, levels, reduced_rank=…, output=…)` called directly: `dummies` a DataFrame, an ndarray or a
    scipy sparse matrix with one column per level (one-hot rows with all-zero rows, sometimes arbitrary small integers);
    `output` omitted (inferred from the type of `dummies`), spelled out, or not a known output; and `dummies` of a type
    from which no output can be inferred (a list, a scipy sparse *array*)"""
    sizes = {"quick": [1, 2, 3, 5, 8], "thorough": [1, 2, 3, 4, 5, 6, 9, 14, 25], "search": [2, 3, 4]}[tier]
    for n in sizes:
        for ltype in ("str", "int", "mixed"):
            levels = _labels(rng, n, ltype)
            opts = _options(rng, n, levels)
            k = rng.choice([max(0, n - 1), n, 2])
            opts.append(_custom_spec(rng, _custom_matrix(rng, n, k), n, k, names=rng.choice(["none", "aligned"])))
            for opt in opts:
                nrows = rng.randint(0, 2) if rng.random() < 0.08 else rng.randint(3, 7)
                if rng.random() < 0.7:
                    rows = []
                    for _ in range(nrows):
                        j = rng.randrange(n + 1)
                        rows.append(["1/1" if i == j else "0/1" for i in range(n)])
                else:
                    rows = [[f"{rng.randint(-3, 3)}/1" for _ in range(n)] for _ in range(nrows)]
                dt = rng.choice(DTYPES)
                r = rng.random()
                output = None if r < 0.6 else OUT_OF[dt] if r < 0.86 else "narwhals" if r < 0.92 else "invalid"
                if output == "narwhals" and dt == "spmatrix":
                    dt = "frame"   # 'narwhals' passes the validation and is then treated as a dense output
                if r >= 0.97:
                    dt, output = rng.choice(["list", "sparray"]), None
                yield dict(op="apply", contrast=opt, levels=levels, dummies=rows, dtype=dt, output=output,
                           reduced=rng.random() < 0.6, ltype=ltype)


def _categorical_cases(rng, tier):
    """The data column ALREADY has a pandas categorical dtype, and the level list is given explicitly (argument, encoder
    state, or the categories a fitted spec recorded): a permutation of exactly the dtype's categories in another order,
    a strict subset, a strict superset, or the same list; every built-in coding, dense and sparse, reduced and full,
    through encode_contrasts / C() / model_matrix / reuse of a fitted spec. The explicit order decides the reference
    level, the column labels, the recorded categories and the encoded columns. Each case comes with its twin on an
    object column (same values, same explicit list): the two must encode identically. Plus categorical columns without
    an explicit list (the declared order is the level list)."""
    sizes = {"quick": [2, 3, 4, 6], "thorough": [2, 3, 4, 5, 7, 10, 16], "search": [2, 3, 4]}[tier]
    for n in sizes:
        for opt_i in range(13):
            for rel in ("perm", "perm", "subset", "superset", "same", "declared"):
                ltype = rng.choice(["str", "int", "mixed"])
                levels = _labels(rng, n, ltype)
                if rel in ("perm", "same", "declared"):
                    cat = list(levels)
                elif rel == "subset":       # the explicit list is a strict subset of the declared categories
                    extra = [l for l in _labels(rng, n + 2, ltype) if l not in levels][: rng.randint(1, 2)] or [dict(s="EXTRA")]
                    cat = levels + extra
                else:                       # strict superset
                    cat = [l for l in levels if rng.random() < 0.6] or levels[:1]
                    if len(cat) == len(levels):
                        cat = cat[:-1]
                if rel != "same" and len(cat) >= 2:
                    for _ in range(10):
                        rng.shuffle(cat)
                        if [l for l in cat if l in levels] != [l for l in levels if l in cat]:
                            break   # the declared order really differs from the explicit one
                opt = _options(rng, n, levels)[opt_i]
                if rel == "declared":
                    opt = _options(rng, n, cat)[opt_i]
                elif opt.get("base") is not None and n >= 2:
                    # a reference level whose position differs between the two orders, when there is one
                    moved = [l for l in levels if l in cat and cat.index(l) != levels.index(l)]
                    if moved:
                        opt = dict(opt, base=rng.choice(moved))
                nrows = rng.randint(4, 9)
                data = [None if rng.random() < 0.12 else rng.choice(cat) for _ in range(nrows)]
                data[: len(cat)] = cat[: nrows]          # every declared category occurs (when there is room)
                rng.shuffle(data)
                via, how = rng.choice([("encode", "arg"), ("encode", "state"), ("C", "arg"), ("C", "state"), ("mm", "arg"),
                                       ("reuse", "arg"), ("reuse", "fitted")])
                base = dict(op="encode", contrast=opt, data=data, reduced=rng.random() < 0.6,
                            output=rng.choice(["pandas", "numpy", "sparse"]), via=via, levels_via=how, ltype=ltype, catrel=rel)
                if via in ("mm", "reuse") and rng.random() < 0.4:
                    base["nw"] = True    # through the narwhals materializer instead of the pandas one
                if rel == "declared":
                    if via == "reuse":
                        via, how = "mm", "arg"
                    yield dict(base, via=via, levels_via="infer", levels=None, cat=cat)
                    continue
                if via == "reuse":
                    fit = list(levels) + [rng.choice(levels) for _ in range(rng.randint(0, 3))]
                    rng.shuffle(fit)
                    base["fit"] = fit
                    if how == "fitted":
                        # no `levels=`: the fit records the sorted distinct values; the new column declares another order
                        base["levels"] = _infer(fit)
                        if opt.get("base") is not None or opt.get("scores") is not None:
                            base["contrast"] = _options(rng, n, base["levels"])[opt_i]
                    else:
                        base["levels"] = levels
                else:
                    base["levels"] = levels
                yield dict(base, cat=cat)
                yield dict(base, cat=None)   # the twin on an object column



def _ext_option(rng, n, which):
    """the second argument of C(x, …) in a form other than an instance of a built-in coding"""
    if which == "unset":
        return dict(k="unset")
    if which == "cls":
        return dict(k="cls", name=rng.choice(CLASS_NAMES[:6]))
    k = rng.choice([max(0, n - 1), n, 2, 1])
    bare = rng.random() < 0.5
    return _custom_spec(rng, _custom_matrix(rng, n, k), n, k, names="none" if bare else rng.choice(["none", "aligned"]), bare=bare)


def _formula_ext_cases(rng, tier):
    """like `_formula_cases` (ONE model_matrix call that needs the same `C(x, …)` factor several times, in both ranks, in
    one or several parts), with the second argument of C() a custom coding (`contr.custom(...)`, a bare dict / list of
    rows / ndarray), a class (`contr.sum`, not `contr.sum()`), or absent"""
    sizes = {"quick": [1, 2, 3, 4, 6], "thorough": [1, 2, 3, 4, 5, 7, 10, 16], "search": [2, 3, 4]}[tier]
    k = rng.randrange(len(CANONICAL))
    for n in sizes:
        for which in ("custom", "custom", "custom", "cls", "cls", "unset"):
            for rep in range(2):
                ltype = rng.choice(["str", "int", "mixed"])
                levels = _labels(rng, n, ltype)
                nrows = rng.randint(4, 9)
                data = _data(rng, levels, nrows)
                if all(d is None or d not in levels for d in data):
                    data[rng.randrange(nrows)] = levels[0]
                how = rng.choice(["arg", "arg", "infer"])
                lv = _infer(data) if how == "infer" else levels
                opt = _ext_option(rng, len(lv), which)
                with_b = rep == 1 and rng.random() < 0.6
                opt2 = (rng.choice(_options(rng, len(lv), lv)) if rng.random() < 0.5 else _ext_option(rng, len(lv), rng.choice(["custom", "cls"]))) if with_b else None
                if rep == 0:
                    parts = CANONICAL[k % len(CANONICAL)]
                    k += 1
                else:
                    parts = _formula_shape(rng, with_b)
                g = [rng.choice(G_POOL) for _ in range(nrows)]
                if len(set(g)) < 2:
                    g[0], g[1] = "u", "v"
                yield dict(op="formula", contrast=opt, contrast2=opt2, levels=None if how == "infer" else levels,
                           data=data, z=[rng.choice(NUM_POOL) for _ in range(nrows)],
                           w=[rng.choice(NUM_POOL + ["0/1"]) for _ in range(nrows)], g=g, parts=parts,
                           lhs=rng.random() < 0.2, output=rng.choice(["pandas", "numpy", "sparse"]), ltype=ltype)


def _drop_cases(rng, tier):
    """the encoder closure of `C(...)` with rows to drop: `drop_rows` positions (possibly repeated, any order) are removed
    by position before encoding; with an explicit / recorded level list the result is the encoding of all rows with those
    rows taken out"""
    sizes = {"quick": [1, 2, 3, 5], "thorough": [1, 2, 3, 4, 6, 9, 15], "search": [2, 3]}[tier]
    for n in sizes:
        for opt_i in range(16):
            ltype = rng.choice(["str", "int", "mixed"])
            levels = _labels(rng, n, ltype)
            opt = _options(rng, n, levels)[opt_i] if opt_i < 13 else _ext_option(rng, n, ["custom", "cls", "unset"][opt_i - 13])
            nrows = rng.randint(3, 9)
            data = _data(rng, levels, nrows)
            drop = [rng.randrange(nrows) for _ in range(rng.randint(0, nrows))]
            how = rng.choice(["arg", "state"])
            yield dict(op="encode", contrast=opt, data=data, reduced=rng.random() < 0.6,
                       output=rng.choice(["pandas", "numpy", "sparse"]), via="C", levels_via=how, levels=levels, ltype=ltype,
                       drop=drop)
            if rng.random() < 0.3:   # the twin without dropping, on the remaining rows: must encode identically
                kept = [d for i, d in enumerate(data) if i not in drop]
                yield dict(op="encode", contrast=opt, data=kept, reduced=rng.random() < 0.6,
                           output=rng.choice(["pandas", "numpy", "sparse"]), via="C", levels_via=how, levels=levels, ltype=ltype)


def cases(rng, tier):
    if tier == "search":
        yield from _formula_cases(rng, tier)
    yield from _falsy_cases(rng, tier)
    nmax = {"quick": 12, "thorough": 40, "search": 9}[tier]
    enc_per = {"quick": 2, "thorough": 3, "search": 1}[tier]
    ns = list(range(1, nmax + 1))
    if tier == "search":
        ns = [1, 2, 3] + rng.sample(range(4, 13), 3)
    for n in ns:
        for ltype in ("str", "int", "mixed"):
            levels = _labels(rng, n, ltype)
            for opt in _options(rng, n, levels):
                yield dict(op="matrices", contrast=opt, levels=levels, ltype=ltype)
        # encode cases
        for opt_i in range(13):
            for _ in range(enc_per):
                ltype = rng.choice(["str", "int", "mixed"])
                levels = _labels(rng, n, ltype)
                opt = _options(rng, n, levels)[opt_i]
                data = _data(rng, levels, rng.randint(0, 7) if rng.random() < 0.1 else rng.randint(3, 9))
                how = rng.choice(["arg", "arg", "state", "infer"])
                via = rng.choice(["encode", "encode", "C", "mm"])
                c = dict(op="encode", contrast=opt, data=data, reduced=rng.random() < 0.6,
                         output=rng.choice(["pandas", "numpy", "sparse"]), via=via, levels_via=how, ltype=ltype)
                if how == "infer":
                    # the levels are whatever occurs in the data; re-draw base / scores against them
                    present = _infer([d for d in data])
                    if not present:
                        continue
                    c["levels"] = None
                    if opt.get("base") is not None:
                        opt = dict(opt, base=rng.choice(present))
                    if opt.get("scores") is not None:
                        opt = dict(opt, scores=_scores(rng, len(present)))
                    c["contrast"] = opt
                else:
                    c["levels"] = levels
                if via == "mm" and how == "state":
                    c["levels_via"] = "arg"
                yield c
    # malformed / edge stream
    for _ in range({"quick": 40, "thorough": 200, "search": 10}[tier]):
        n = rng.randint(1, 6)
        ltype = rng.choice(["str", "int", "mixed"])
        levels = _labels(rng, n, ltype)
        kind = rng.choice(["badbase", "badscores", "duplevels", "badoutput", "emptylevels", "emptyscores"])
        if kind == "badbase":
            opt = dict(k=rng.choice(["treatment", "SAS"]), base=dict(s="not-a-level"))
            yield dict(op="matrices", contrast=opt, levels=levels, ltype=ltype, malformed=kind)
            yield dict(op="encode", contrast=opt, data=_data(rng, levels, 5), reduced=rng.random() < 0.5,
                       output=rng.choice(["pandas", "numpy", "sparse"]), via="encode", levels_via="arg", levels=levels,
                       ltype=ltype, malformed=kind)
        elif kind == "badscores":
            opt = dict(k="poly", scores=_scores(rng, n + rng.choice([1, 2])))
            yield dict(op="matrices", contrast=opt, levels=levels, ltype=ltype, malformed=kind)
            yield dict(op="encode", contrast=opt, data=_data(rng, levels, 5), reduced=rng.random() < 0.5,
                       output="numpy", via="encode", levels_via="arg", levels=levels, ltype=ltype, malformed=kind)
        elif kind == "emptyscores":
            yield dict(op="matrices", contrast=dict(k="poly", scores=[]), levels=levels, ltype=ltype)
        elif kind == "duplevels":
            lv = levels + [rng.choice(levels)]
            yield dict(op="encode", contrast=dict(k="sum"), data=_data(rng, levels, 5), reduced=True,
                       output="numpy", via="encode", levels_via="arg", levels=lv, ltype=ltype, malformed=kind)
        elif kind == "badoutput":
            yield dict(op="encode", contrast=dict(k="sum"), data=_data(rng, levels, 5), reduced=True,
                       output="invalid", via="encode", levels_via="arg", levels=levels, ltype=ltype, malformed=kind)
        else:
            opt = rng.choice(_options(rng, n, levels))
            yield dict(op="encode", contrast=opt, data=_data(rng, levels, 4), reduced=rng.random() < 0.5,
                       output=rng.choice(["pandas", "numpy", "sparse"]), via="encode", levels_via="arg", levels=[],
                       ltype=ltype, malformed=kind)
    if tier != "search":
        # after the older streams, so that their cases are unchanged for a given seed
        yield from _formula_cases(rng, tier)
    yield from _categorical_cases(rng, tier)
    yield from _custom_cases(rng, tier)
    yield from _custom_encode_cases(rng, tier)
    yield from _apply_cases(rng, tier)
    yield from _formula_ext_cases(rng, tier)
    yield from _drop_cases(rng, tier)


def _levels_of(c):
    """the level list the factor is encoded with: the explicit list (argument / recorded state), else the declared
    categories of a categorical column in their declared order, else the sorted distinct values"""
    if c.get("levels") is not None:
        return c["levels"]
    if c.get("cat") is not None:
        return c["cat"]
    return _infer(c.get("data") or [])


def _nlevels(c):
    return len(_levels_of(c))


def describe(c):
    o = c["contrast"]
    name = o["k"]
    if name in ("treatment", "SAS"):
        name += "(base)" if o.get("base") is not None else ""
    if name == "poly" and o.get("scores"):
        name += "(scores)"
    if name == "custom":
        name += ":" + o["form"] + (":bare" if o.get("bare") else "") + (":names" if o.get("names") is not None else "")
    if name == "cls":
        name += ":" + o["name"]
    n = _nlevels(c)
    bucket = "0" if n == 0 else "1" if n == 1 else "2" if n == 2 else "3-6" if n <= 6 else "7-12" if n <= 12 else "13+"
    if c["op"] == "formula":
        name += ":parts=%d" % len(c["parts"]) + (":two-factors" if c.get("contrast2") else "")
    if c["op"] == "apply":
        name += ":" + c["dtype"] + ":output=" + ("inferred" if c["output"] is None else c["output"])
    return (f"{c['op']}:{name}:n={bucket}" + (":malformed" if c.get("malformed") else "") + (":falsy-base" if c.get("falsy") else "")
            + (":singular" if c.get("singular") else "")
            + ((":categorical-dtype(" + c.get("catrel", "") + ")") if c.get("cat") is not None else (":object-twin" if c.get("catrel") else ""))
            + (":" + c["via"] if c.get("via") in ("reuse",) else ""))


def nontrivial(c):
    return _nlevels(c) >= 3


# ----------------------------------------------------------------------------- implementation side


def _py(l):
    if l is None:
        return None
    return l["s"] if "s" in l else l["i"]


def _lab(x):
    if x is None:
        return None
    if isinstance(x, str):
        return dict(s=x)
    if isinstance(x, (bool, numpy.bool_)):
        return dict(other=repr(x))
    if isinstance(x, (int, numpy.integer)):
        return dict(i=int(x))
    return dict(other=repr(x))


def _contrast(o):
    from formulaic.transforms.contrasts import ContrastsRegistry as contr

    k = o["k"]
    if k == "treatment":
        return contr.treatment() if o.get("base") is None else contr.treatment(base=_py(o["base"]))
    if k == "SAS":
        return contr.SAS() if o.get("base") is None else contr.SAS(base=_py(o["base"]))
    if k == "sum":
        return contr.sum()
    if k == "helmert":
        return contr.helmert(reverse=o["reverse"], scale=o["scale"])
    if k == "diff":
        return contr.diff(backward=o["backward"])
    if k == "unset":
        return None
    if k == "cls":
        import formulaic.transforms.contrasts as mod

        return getattr(mod, o["name"])          # the class itself, not an instance
    if k == "custom":
        raw = _custom_raw(o)
        if o.get("bare"):
            return raw                            # handed to encode_contrasts / C() as it is
        if o.get("names") is None:
            return contr.custom(raw)
        return contr.custom(raw, names=[_py(x) for x in o["names"]])
    sc = o.get("scores")
    return contr.poly() if sc is None else contr.poly(scores=[float(Fraction(s)) for s in sc])


def _custom_raw(o):
    """the Python object a custom coding is given as: dict {name: weights}, list of rows, 2-d ndarray, flat list"""
    f = lambda v: float(Fraction(v))  # noqa: E731  (entries are small dyadic rationals: exact)
    if o["form"] == "dict":
        return {_py(k): [f(v) for v in vs] for k, vs in o["items"]}
    if o["form"] == "flat":
        return [f(v) for v in o["vals"]]
    rows = [[f(v) for v in r] for r in o["rows"]]
    if o["form"] == "ndarray":
        return numpy.array(rows, dtype=float).reshape(len(rows), len(rows[0]) if rows else 0)
    return rows


def _arr(m):
    import scipy.sparse as sp

    kind = type(m).__name__
    if sp.issparse(m):
        a = m.toarray()
    elif isinstance(m, pandas.DataFrame):
        a = m.values
    else:
        a = numpy.asarray(m)
    a = numpy.asarray(a, dtype=float)
    return dict(type=kind, shape=list(a.shape), rows=[[float(v) for v in r] for r in a.tolist()] if a.ndim == 2 else None,
                flat=[float(v) for v in a.ravel().tolist()] if a.ndim != 2 else None)


def _try(f):
    try:
        return f()
    except Exception as e:  # the class name is the observable
        return dict(error=type(e).__name__)


def _frame(m):
    """a dense matrix result: the array and, for a DataFrame, its row / column labels"""
    a = _arr(m)
    if isinstance(m, pandas.DataFrame):
        a["index"] = [_lab(x) for x in m.index]
        a["columns"] = [_lab(x) for x in m.columns]
    return a


def _labels_of(a):
    if "error" in a:
        return a
    return dict(index=a.get("index"), columns=a.get("columns"))


def _matrices_of(ct, levels, rr):
    from formulaic.transforms.contrasts import ContrastsState

    st = ContrastsState(ct, levels)
    cd = _try(lambda: _frame(st.get_coding_matrix(reduced_rank=rr, sparse=False)))
    kd = _try(lambda: _frame(st.get_coefficient_matrix(reduced_rank=rr, sparse=False)))
    return dict(
        coding_dense=cd,
        coding_sparse=_try(lambda: _arr(st.get_coding_matrix(reduced_rank=rr, sparse=True))),
        coef_dense=kd,
        coef_sparse=_try(lambda: _arr(st.get_coefficient_matrix(reduced_rank=rr, sparse=True))),
        coding_labels=_labels_of(cd),
        coef_labels=_labels_of(kd),
        names=_try(lambda: [_lab(x) for x in ct.get_coding_column_names(levels, reduced_rank=rr)]),
        row_names=_try(lambda: [_lab(x) for x in ct.get_coefficient_row_names(levels, reduced_rank=rr)]),
        drop_field=_try(lambda: dict(v=_lab(ct.get_drop_field(levels, reduced_rank=rr)))),
        spans_intercept=_try(lambda: bool(ct.get_spans_intercept(levels, reduced_rank=rr))),
        format=_try(lambda: ct.get_factor_format(levels, reduced_rank=rr)),
    )


def impl(c):
    warnings.simplefilter("ignore")

    if c["op"] == "matrices":
        levels = [_py(l) for l in c["levels"]]
        return {key: _matrices_of(_contrast(c["contrast"]), levels, rr) for key, rr in (("reduced", True), ("full", False))}
    if c["op"] == "custom":
        levels = [_py(l) for l in c["levels"]]
        try:
            ct = _contrast(c["contrast"])
        except Exception as e:  # the constructor's exception class is the observable
            return dict(init=dict(error=type(e).__name__))
        out = dict(init=dict(shape=[int(x) for x in ct.contrasts.shape],
                             names=None if ct.contrast_names is None else [_lab(x) for x in ct.contrast_names]))
        for key, rr in (("reduced", True), ("full", False)):
            out[key] = _matrices_of(ct, levels, rr)
        return out
    if c["op"] == "apply":
        return _impl_apply(c)
    if c["op"] == "formula":
        return _impl_formula(c)
    return _impl_encode(c)


def _impl_apply(c):
    import scipy.sparse as sp

    levels = [_py(l) for l in c["levels"]]
    try:
        ct = _contrast(c["contrast"])
    except Exception as e:
        return dict(init=dict(error=type(e).__name__))
    D = numpy.array([[float(Fraction(v)) for v in r] for r in c["dummies"]], dtype=float).reshape(len(c["dummies"]), len(levels))
    dt = c["dtype"]
    dm = (pandas.DataFrame(D, columns=pandas.Index(levels, dtype=object)) if dt == "frame" else D if dt == "ndarray"
          else sp.csc_matrix(D) if dt == "spmatrix" else sp.csc_array(D) if dt == "sparray" else D.tolist())

    def run():
        fv = ct.apply(dm, levels, reduced_rank=c["reduced"], **({} if c["output"] is None else {"output": c["output"]}))
        md = fv.__formulaic_metadata__
        return dict(values=_arr(fv.__wrapped__), names=[_lab(x) for x in md.column_names], spans_intercept=bool(md.spans_intercept),
                    drop_field=_lab(md.drop_field), format=md.format, format_reduced=md.format_reduced)

    return _try(run)


def _formula_exprs(c):
    lv = ", levels=L" if c.get("levels") is not None else ""
    return f"C(x, ct{lv})", f"C(x, ct2{lv})"


def _formula_text(c):
    a, b = _formula_exprs(c)
    sub = {"A": a, "B": b}
    parts = [" + ".join(":".join(sub.get(f, f) for f in t.split(":")) for t in p) for p in c["parts"]]
    return ("w ~ " if c["lhs"] else "") + " | ".join(parts)


def _impl_formula(c):
    """one `model_matrix` call; per part: the matrix, its column names and, from `model_spec.structure`, for every term
    the scoped terms the materializer produced (factor expression, reduced flag) and the number of columns"""
    from formulaic import model_matrix
    from formulaic.utils.structured import Structured

    def run():
        df = pandas.DataFrame({
            "x": _column(c),
            "z": [float(Fraction(v)) for v in c["z"]],
            "w": [float(Fraction(v)) for v in c["w"]],
            "g": list(c["g"]),
        })
        ctx = {"ct": _contrast(c["contrast"]), "L": None if c.get("levels") is None else [_py(l) for l in c["levels"]]}
        if c.get("contrast2") is not None:
            ctx["ct2"] = _contrast(c["contrast2"])
        mm = model_matrix(_formula_text(c), df, na_action="ignore", output=c["output"], context=ctx)
        out = []
        for m in (list(mm._flatten()) if isinstance(mm, Structured) else [mm]):
            ms = m.model_spec
            out.append(dict(
                names=[str(x) for x in ms.column_names], values=_arr(m),
                terms=[dict(term=str(t.term), ncols=len(t.columns),
                            scoped=[[[str(sf.factor.expr), bool(sf.reduced)] for sf in st.factors] for st in t.scoped_terms])
                       for t in ms.structure]))
        return dict(parts=out)

    return _try(run)


def _width(opt, n, red):
    """number of columns a contrast factor contributes: n-1 (reduced) / n (full) for the built-in codings; all k columns of
    a custom coding whatever the rank (none for a single level in reduced rank: the empty short-circuit)"""
    if opt["k"] == "custom":
        v = _custom_valid(opt)
        return 0 if (v is None or (n == 1 and red)) else v[2]
    return n - 1 if red else n


def _occurrences(c, o):
    """Every scoped term of the materialised formula that contains a contrast factor (A = `C(x, ct…)`, B = `C(x, ct2…)`),
    in materialization order. The columns of a scoped term are the row-wise products of its factors' columns, first factor
    fastest; the partners are known exactly (z, w: +-2^k or 0; g: 0/1 indicators of its sorted levels, first level dropped
    when reduced), so the block splits into groups (one per combination of partner columns), each group being the encoded
    contrast factor times the per-row partner product `s`. Width of the factor: n (full) or n-1 (reduced)."""
    exprA, exprB = _formula_exprs(c)
    levels = _levels_of(c)
    n = len(levels)
    glev = sorted(set(c["g"]))
    nums = {"z": [Fraction(v) for v in c["z"]], "w": [Fraction(v) for v in c["w"]]}
    nrows = len(c["data"])
    occ = []
    for pi, part in enumerate(o["parts"]):
        off = 0
        for t in part["terms"]:
            end = off + t["ncols"]
            for st in t["scoped"]:
                fac = []  # (kind, names per column, per-row multipliers per column)
                for expr, red in st:
                    if expr in (exprA, exprB):
                        fac.append(("C", "A" if expr == exprA else "B", red,
                                    _width(c["contrast"] if expr == exprA else c["contrast2"], n, red)))
                    elif expr in nums:
                        fac.append(("num", [expr], [nums[expr]], 1))
                    elif expr == "g":
                        gl = glev[1:] if red else glev
                        fac.append(("g", [f"g[T.{l}]" if red else f"g[{l}]" for l in gl],
                                    [[Fraction(int(v == l)) for v in c["g"]] for l in gl], len(gl)))
                    else:
                        raise _Fail(f"unexpected factor {expr!r} in term {t['term']}")
                widths = [f[-1] for f in fac]
                W = math.prod(widths)
                cs = [i for i, f in enumerate(fac) if f[0] == "C"]
                if len(cs) == 1:
                    ci = cs[0]
                    groups = {}
                    for k in range(W):
                        idx, r = [], k
                        for wd in widths:
                            idx.append(r % wd)
                            r //= wd
                        key = tuple(x for i, x in enumerate(idx) if i != ci)
                        if key not in groups:
                            sv = [Fraction(1)] * nrows
                            for i, f in enumerate(fac):
                                if i != ci:
                                    sv = [a * b for a, b in zip(sv, f[2][idx[i]])]
                            groups[key] = dict(cols=[], s=sv, pre=[f[1][idx[i]] for i, f in enumerate(fac) if i < ci],
                                               post=[f[1][idx[i]] for i, f in enumerate(fac) if i > ci])
                        groups[key]["cols"].append(off + k)  # increasing k = increasing column index of the factor
                    occ.append(dict(part=pi, term=t["term"], which=fac[ci][1], reduced=fac[ci][2],
                                    expr=exprA if fac[ci][1] == "A" else exprB, groups=list(groups.values())))
                elif cs:
                    raise _Fail(f"term {t['term']} has two contrast factors (not generated)")
                off += W
            if off != end:
                raise _Fail(f"part {pi} term {t['term']}: {t['ncols']} columns, but its scoped terms {t['scoped']} need "
                            f"{t['ncols'] + off - end} for {n} levels (reduced coding n x (n-1), full coding n x n)")
        if off != part["values"]["shape"][1]:
            raise _Fail(f"part {pi}: {part['values']['shape'][1]} columns, structure accounts for {off}")
    return occ


def _column(c):
    """the data column: object dtype, or (case key `cat`) a pandas categorical whose dtype declares the categories `cat`
    in that order (every non-null value of the case is one of them)"""
    vals = [_py(d) for d in c["data"]]
    if c.get("cat") is None:
        return pandas.Series(vals, dtype=object)
    return pandas.Series(pandas.Categorical(vals, categories=pandas.Index([_py(l) for l in c["cat"]], dtype=object)))


def _impl_encode(c):
    from formulaic import model_matrix
    from formulaic.model_spec import ModelSpec
    from formulaic.transforms.contrasts import C, encode_contrasts

    try:
        ct = _contrast(c["contrast"])
    except Exception as e:  # `contr.custom(...)` itself raised
        return dict(error=type(e).__name__)
    data = _column(c)
    levels = None if c.get("levels") is None else [_py(l) for l in c["levels"]]
    how, via = c["levels_via"], c["via"]
    state = {}
    kw = {}
    if levels is not None:
        if how == "state":
            state["categories"] = levels
        else:
            kw["levels"] = levels

    def fv_out(fv):
        md = fv.__formulaic_metadata__
        a = _arr(fv.__wrapped__)
        return dict(values=a, names=[_lab(x) for x in md.column_names], spans_intercept=bool(md.spans_intercept),
                    drop_field=_lab(md.drop_field), format=md.format, format_reduced=md.format_reduced,
                    categories=[_lab(x) for x in state.get("categories", [])])

    if how == "fitted":
        kw.pop("levels", None)   # the level list is what the fit recorded, not an argument
    if via == "encode":
        return _try(lambda: fv_out(encode_contrasts(data, ct, reduced_rank=c["reduced"], output=c["output"], _state=state, **kw)))
    if via == "C":
        def run():
            fv = C(data, ct, **kw)
            spec = ModelSpec(formula=[], output=c["output"])
            return fv_out(fv.__formulaic_metadata__.encoder(data, c["reduced"], list(c.get("drop") or []), state, spec))
        return _try(run)

    def run_mm():
        df = pandas.DataFrame({"x": data})
        mkw = {"materializer": "narwhals"} if c.get("nw") else {}   # default: the pandas materializer
        f = ("1 + " if c["reduced"] else "0 + ") + ("C(x, ct, levels=L)" if levels is not None and how != "fitted" else "C(x, ct)")
        if via == "reuse":
            # fit on object data (the spec records the categories: the explicit list, or the sorted values seen), then
            # reuse the fitted spec on THIS column (possibly categorical with its own category order)
            fit = pandas.DataFrame({"x": pandas.Series([_py(d) for d in c["fit"]], dtype=object)})
            spec = model_matrix(f, fit, na_action="ignore", output=c["output"], context={"ct": ct, "L": levels}, **mkw).model_spec
            mm = spec.get_model_matrix(df, context={"ct": ct, "L": levels})
        else:
            mm = model_matrix(f, df, na_action="ignore", output=c["output"], context={"ct": ct, "L": levels}, **mkw)
        cols = list(mm.model_spec.column_names)
        a = _arr(mm)
        if c["reduced"]:
            if cols[:1] != ["Intercept"]:
                return dict(error="NoIntercept")
            cols = cols[1:]
            a["rows"] = [r[1:] for r in a["rows"]]
            a["shape"] = [a["shape"][0], a["shape"][1] - 1]
        return dict(values=a, mm_names=cols, mm=True)

    return _try(run_mm)


# ----------------------------------------------------------------------------- model side


def request(c, o):
    if c["op"] in ("matrices", "custom"):
        return dict(op=c["op"], contrast=c["contrast"], levels=c["levels"])
    if c["op"] == "apply":
        return dict(op="apply", contrast=c["contrast"], levels=c["levels"], dummies=c["dummies"],
                    dtype={"frame": "frame", "ndarray": "ndarray", "spmatrix": "spmatrix"}.get(c["dtype"], "other"),
                    output=c["output"], reduced=c["reduced"])
    if c["op"] == "formula":
        return dict(op="formula", contrast=c["contrast"], contrast2=c.get("contrast2"),
                    levels=c.get("levels") if c.get("cat") is None else _levels_of(c),
                    data=c["data"], output=c["output"], history=_history(c, o))
    r = dict(op="encode", contrast=c["contrast"], levels=c.get("levels") if c.get("cat") is None else _levels_of(c),
             data=c["data"], reduced=c["reduced"], output=c["output"])
    if c.get("drop") is not None:
        r["drop_rows"] = list(c["drop"])     # positions removed inside the model (Model.ContrastsExt.cEncoder)
    return r


def _history(c, o):
    """the sequence of encodings the materializer needed, read off the implementation's own structure: which factor, in
    which rank, and whether it is the factor's first use in a new part (= new ModelSpec, fresh encoder state)"""
    try:
        occs = _occurrences(c, o) if isinstance(o, dict) and "parts" in o else None
    except _Fail:
        occs = None
    if occs is None:
        # the implementation raised (or its structure could not be read): the model is asked for one use of every factor in
        # both ranks, which is enough to meet an error of the factor's own encoder / constructor
        return [dict(which="A", reduced=False, newspec=True), dict(which="A", reduced=True, newspec=False)] + (
            [dict(which="B", reduced=False, newspec=True), dict(which="B", reduced=True, newspec=False)] if c.get("contrast2") else [])
    hist, last = [], {}
    for oc in occs:
        hist.append(dict(which=oc["which"], reduced=oc["reduced"], newspec=last.get(oc["which"]) != oc["part"]))
        last[oc["which"]] = oc["part"]
    return hist


def _n_of(c):
    return len(_levels_of(c))


EPS = 2.0 ** -52
_TOLS = {}


def poly_tols(n, scores=None):
    """Absolute tolerance for each (unit-norm) column 1..n-1 of the polynomial coding, implementation float against the
    model's exact value `sign(P)·sqrt(P²/norms2)`.

    Constructing orthogonal polynomials on given nodes is ill-conditioned in the degree and in the spread of the nodes; the
    float three-term recurrence of poly.py (like R's QR construction) loses digits accordingly. Column j (degree j) is
    compared with  tol_j = 16·eps·κ_j + 1e-13,  κ_j = cond₂ of the n x (j+1) Vandermonde matrix of the scores mapped
    affinely onto [-1, 1]  (eps = 2^-52). Measured error / (eps·κ_j) stays below 2.1 over 3000 random score vectors
    (n <= 12), 0.8 once κ_j > 100; e.g. n = 12 with scores [-8,3,5,6,7,9,10,11,12,13,14,17]: κ_11 ≈ 1e8, error 3e-9.
    For equally spaced scores (the default `arange(n)` and its affine images, the only scores generated beyond 12
    levels) the monomial Vandermonde over-estimates the conditioning of the recurrence by orders of magnitude, so the
    measured envelope 1e-11·2^(max(0, n-8)/1.5) caps the tolerance there (measured error 10-60x below it up to n = 40)."""
    key = (n, tuple(scores) if scores else None)
    if key in _TOLS:
        return _TOLS[key]
    if n <= 1:
        return _TOLS.setdefault(key, [])
    x = numpy.array([float(Fraction(v)) for v in scores], dtype=float) if scores else numpy.arange(n, dtype=float)
    if len(x) != n:   # wrong number of scores: the call raises, nothing is compared
        return _TOLS.setdefault(key, [1e-11] * (n - 1))
    half = (x.max() - x.min()) / 2 or 1.0
    t = (x - (x.max() + x.min()) / 2) / half
    V = numpy.vander(t, n, increasing=True)
    steps = numpy.diff(x)
    equi = bool(len(steps) == 0 or numpy.all(steps == steps[0]))
    cap = 1e-11 * 2.0 ** (max(0, n - 8) / 1.5)
    out = []
    for j in range(1, n):
        kap = float(numpy.linalg.cond(V[:, : j + 1]))
        tol = 16 * EPS * kap + 1e-13 if math.isfinite(kap) else 1.0
        out.append(min(tol, cap) if equi else tol)
    return _TOLS.setdefault(key, out)


def polytol(n, scores=None):
    """the largest per-column tolerance (used where all columns mix: the inverse, orthonormality, column sums)"""
    return max(poly_tols(n, scores), default=1e-11)


def _cmp_exact(x, f, tol):
    """impl float x against the model's rational f"""
    f = Fraction(f)
    if not math.isfinite(x):
        return f"non-finite {x}"
    if abs(x - float(f)) > tol:
        return f"{x} vs {f}"
    if tol <= 1e-9 and f.denominator <= 10**5 and Fraction(x).limit_denominator(10**6) != f:
        return f"{x} rounds to {Fraction(x).limit_denominator(10**6)} not {f}"
    return None


def _cmp_poly(x, p, n2, tol):
    """impl float x against sign(p) * sqrt(p^2 / n2)"""
    p, n2 = Fraction(p), Fraction(n2)
    if n2 <= 0:
        return f"model norms2 {n2} not positive"
    want = math.copysign(math.sqrt(float(p * p / n2)), float(p)) if p != 0 else 0.0
    if not math.isfinite(x) or abs(x - want) > tol:
        return f"{x} vs sign*sqrt({p}^2/{n2}) = {want}"
    return None


def _cmp_matrix(a, rows, tol, poly=None, polyrows=False, what=""):
    """a = impl _arr dict; rows = model rows of 'p/q'. poly = norms2 list (per column, or per row if polyrows)."""
    if "error" in a or isinstance(rows, dict):
        ea = a.get("error") if isinstance(a, dict) else None
        em = rows.get("error") if isinstance(rows, dict) else None
        return None if ea == em and ea is not None else f"{what}: impl {ea or 'ok'} vs model {em or 'ok'}"
    if a["rows"] is None:
        return f"{what}: impl returned a {len(a['shape'])}-d {a['type']} of shape {a['shape']}, model a matrix"
    nr = len(rows)
    nc = len(rows[0]) if rows else (a["shape"][1] if len(a["shape"]) == 2 else 0)
    if a["shape"] != [nr, nc] and not (nr == 0 and a["shape"][0] == 0):
        return f"{what}: shape {a['shape']} vs model {[nr, nc]}"
    for i, (ra, rm) in enumerate(zip(a["rows"], rows)):
        for j, (x, f) in enumerate(zip(ra, rm)):
            if poly is not None and (not polyrows or i >= 1):
                w = _cmp_poly(x, f, 1 / Fraction(poly[i - 1]) if polyrows else poly[j],
                              tol[j] if isinstance(tol, list) else tol)
            elif poly is not None:
                # intercept row of the inverse of a polynomial coding: rational, but computed through the float columns
                w = None if abs(x - float(Fraction(f))) <= tol else f"{x} vs {f}"
            else:
                w = _cmp_exact(x, f, tol)
            if w:
                return f"{what}[{i},{j}]: {w}"
    return None


def agree(c, o, m):
    if "driver_error" in m:
        return "driver: " + str(m["driver_error"])[:300]
    if "harness_exception" in o:
        return "harness: " + o["harness_exception"]
    if c["op"] == "matrices":
        n = len(c["levels"])
        is_poly = c["contrast"]["k"] == "poly"
        for key in ("reduced", "full"):
            io, mo = o[key], m[key]
            norms = mo.get("norms2") if (is_poly and key == "reduced" and isinstance(mo.get("norms2"), list)) else None
            ptol = polytol(n, c["contrast"].get("scores"))
            for which in ("coding_dense", "coding_sparse"):
                w = _cmp_matrix(io[which], mo[which], poly_tols(n, c["contrast"].get("scores")) if norms is not None else 1e-12,
                                poly=norms, what=f"{key}.{which}")
                if w:
                    return w
            for which in ("coef_dense", "coef_sparse"):
                # the model has one closed form; the dense call also evaluates the column names (error path)
                mrows = mo["coef"]
                if which == "coef_sparse" and isinstance(mo["coding_sparse"], list) and isinstance(mrows, dict):
                    # sparse path skips the column-name evaluation: the inverse of the identity is the identity
                    mrows = mo["coding_sparse"]
                w = _cmp_matrix(io[which], mrows, 16 * ptol if norms is not None else 1e-9, poly=norms, polyrows=True,
                                what=f"{key}.{which}")
                if w:
                    return w
            for fld in ("names", "row_names", "coding_labels", "coef_labels"):
                a, b = io[fld], mo[fld]
                if a != b:
                    return f"{key}.{fld}: impl {a} vs model {b}"
            a = io["drop_field"]
            b = mo["drop_field"]
            a = a if "error" in a else a["v"]
            if a != b:
                return f"{key}.drop_field: impl {a} vs model {b}"
            if io["spans_intercept"] != mo["spans_intercept"] or io["format"] != mo["format"]:
                return f"{key}: spans_intercept/format differ"
        return None
    if c["op"] == "formula":
        return _agree_formula(c, o, m)
    if c["op"] == "custom":
        return _agree_custom(c, o, m)
    if c["op"] == "apply" and ("init" in o or "init" in m):
        a, b = o.get("init", {}).get("error"), m.get("init", {}).get("error")
        return None if a == b and a is not None else f"constructor: impl {a or 'ok'} vs model {b or 'ok'}"
    # encode / apply
    me = m["enc"]
    if "error" in o or "error" in me:
        return None if o.get("error") == me.get("error") else f"impl {o.get('error', 'ok')} vs model {me.get('error', 'ok')}"
    n = len(me["categories"])
    norms = m.get("norms2") if (_is_poly(c["contrast"]) and c["reduced"] and n > 1 and isinstance(m.get("norms2"), list)) else None
    w = _cmp_matrix(o["values"], me["values"], poly_tols(n, c["contrast"].get("scores")) if norms is not None else 1e-12, poly=norms, what="values")
    if w:
        return w
    if o.get("mm"):
        want = _mm_names(c, me["names"], me["format"])
        return None if o["mm_names"] == want else f"model_matrix column names {o['mm_names']} vs {want}"
    flds = ["names", "spans_intercept", "drop_field", "format", "format_reduced"] + ([] if c["op"] == "apply" else ["categories"])
    for fld in flds:
        if o[fld] != me[fld]:
            return f"{fld}: impl {o[fld]} vs model {me[fld]}"
    if c["op"] == "apply":
        want = CONTAINER.get(me["output"])   # 'narwhals': whatever _apply returned, not wrapped
        if want is not None and o["values"]["type"] != want:
            return f"output {me['output']!r} (inferred from the dummies or given): container {o['values']['type']} vs {want}"
    return None


CONTAINER = {"pandas": "DataFrame", "numpy": "ndarray", "sparse": "csc_matrix"}


def _is_poly(o):
    return o["k"] == "poly" or (o["k"] == "cls" and o.get("name") == "PolyContrasts")


def _maxabs(rows):
    return max([abs(Fraction(v)) for r in rows for v in r], default=Fraction(0)) if isinstance(rows, list) else Fraction(0)


def _agree_custom(c, o, m):
    a, b = o["init"], m["init"]
    if "error" in a or "error" in b:
        return None if a.get("error") == b.get("error") else f"constructor: impl {a.get('error', 'ok')} vs model {b.get('error', 'ok')}"
    if a != b:
        return f"constructed contrasts: impl {a} vs model {b}"
    for key in ("reduced", "full"):
        io, mo = o[key], m[key]
        for which in ("coding_dense", "coding_sparse"):
            w = _cmp_matrix(io[which], mo[which], 1e-12, what=f"{key}.{which}")
            if w:
                return w
        for which in ("coef_dense", "coef_sparse"):
            # exact rational inverse (certified in the model) against numpy / scipy: relative to the size of the inverse
            if isinstance(mo[which], dict) and mo[which].get("error") == "nan-result":
                # scipy: a singular 1 x 1 sparse system is solved as a vector problem: MatrixRankWarning and NaN, no exception
                a = io[which]
                if "error" in a or not all(math.isnan(v) for r in (a["rows"] or [[0.0]]) for v in r):
                    return f"{key}.{which}: model expects scipy's NaN answer for a singular 1 x 1 matrix, impl gave {a}"
                continue
            big = float(_maxabs(mo[which]))
            w = _cmp_matrix(io[which], mo[which], 1e-10 * max(1.0, big) ** 2, what=f"{key}.{which}")
            if w:
                return w
        for fld in ("names", "row_names", "coding_labels", "coef_labels", "spans_intercept", "format"):
            if io[fld] != mo[fld]:
                return f"{key}.{fld}: impl {io[fld]} vs model {mo[fld]}"
        d = io["drop_field"]
        d = d if "error" in d else d["v"]
        if d != mo["drop_field"]:
            return f"{key}.drop_field: impl {d} vs model {mo['drop_field']}"
    return None


def _agree_formula(c, o, m):
    if "error" in o or "error" in m:
        return None if ("error" in o and "error" in m) else f"impl {o.get('error', 'ok')} vs model {m.get('error', 'ok')}"
    try:
        occs = _occurrences(c, o)
    except _Fail as e:
        return str(e)
    if len(occs) != len(m["encs"]):
        return f"{len(occs)} occurrences vs {len(m['encs'])} model encodings"
    for oc, me in zip(occs, m["encs"]):
        enc = me["enc"]
        opt = c["contrast"] if oc["which"] == "A" else c["contrast2"]
        where = f"part {oc['part']} term {oc['term']} ({'reduced' if oc['reduced'] else 'full'} {opt['k']})"
        n = len(enc["categories"])
        norms = me.get("norms2") if (_is_poly(opt) and oc["reduced"] and n > 1 and isinstance(me.get("norms2"), list)) else None
        tol = poly_tols(n, opt.get("scores")) if norms is not None else 1e-12
        part = o["parts"][oc["part"]]
        V = part["values"]["rows"]
        fmt = enc["format"]
        for g in oc["groups"]:
            if len(g["cols"]) != len(enc["names"]):
                return f"{where}: {len(g['cols'])} columns vs model {len(enc['names'])}"
            for i, col in enumerate(g["cols"]):
                want = ":".join(g["pre"] + [fmt.replace("{name}", oc["expr"]).replace("{field}", str(_py(enc["names"][i])))] + g["post"])
                if part["names"][col] != want:
                    return f"{where}: column name {part['names'][col]!r} vs model {want!r}"
                for r, sv in enumerate(g["s"]):
                    v = V[r][col]
                    if sv == 0:
                        if v != 0:
                            return f"{where}: [{r},{col}] = {v} where a partner column is 0"
                        continue
                    x = v / float(sv)  # exact: the partners are +-2^k
                    f = enc["values"][r][i]
                    w = _cmp_poly(x, f, norms[i], tol[i]) if norms is not None else _cmp_exact(x, f, tol)
                    if w:
                        return f"{where}: column {part['names'][col]!r} row {r}: {w}"
    return None


def _mm_names(c, names, fmt):
    base = "C(x, ct, levels=L)" if c.get("levels") is not None and c.get("levels_via") != "fitted" else "C(x, ct)"
    return [fmt.replace("{name}", base).replace("{field}", str(_py(x))) for x in names]


# ----------------------------------------------------------------------------- oracle (implementation only)


def _infer(data):
    ints = sorted({d["i"] for d in data if d is not None and "i" in d})
    strs = sorted({d["s"] for d in data if d is not None and "s" in d})
    return [dict(i=x) for x in ints] + [dict(s=x) for x in strs]


def _ref_coding(o, n, base_idx):
    """R-style reference constructions, written independently of the implementation"""
    k = o["k"]
    if k in ("treatment", "SAS"):
        return numpy.delete(numpy.diag(numpy.ones(n)), base_idx, axis=1)  # contr.treatment: diag(n)[, -base]
    if k == "sum":
        return numpy.vstack([numpy.diag(numpy.ones(n - 1)), -numpy.ones((1, n - 1))])  # contr.sum
    if k == "helmert":
        m = numpy.zeros((n, n - 1))
        for j in range(n - 1):
            if o["reverse"]:  # contr.helmert: column j compares level j+1 with the mean of levels 0..j
                m[: j + 1, j] = -1
                m[j + 1, j] = j + 1
                if o["scale"]:
                    m[:, j] /= j + 2
            else:  # forward Helmert: level j against the mean of the later levels
                m[j, j] = n - 1 - j
                m[j + 1 :, j] = -1
                if o["scale"]:
                    m[:, j] /= n - j
        return m
    if k == "diff":
        m = numpy.zeros((n, n - 1))
        for j in range(n - 1):  # MASS::contr.sdif
            m[: j + 1, j] = -(n - 1 - j) / n
            m[j + 1 :, j] = (j + 1) / n
        return m if o["backward"] else -m
    return None


def _ref_row_names(o, levels):
    """what each row of the reduced coefficient matrix estimates, written independently of the implementation:
    treatment: the reference level, then `level-reference`; sum: the grand mean, then `level - avg` for all but the
    last level; Helmert: `level - rolling_avg` for the levels that are compared with the running mean (2nd..last for the
    reversed / R variant, 1st..last-but-one forward); difference: `later - earlier` (backward) / `earlier - later`;
    polynomial: `.L .Q .C ^4 ...`"""
    st = lambda l: str(_py(l))  # noqa: E731
    k, n = o["k"], len(levels)
    if k in ("treatment", "SAS"):
        b = levels[_base_idx(o, levels)]
        return [b] + [dict(s=f"{st(l)}-{st(b)}") for l in levels if l != b]
    if k == "sum":
        return [dict(s="avg")] + [dict(s=f"{st(l)} - avg") for l in levels[: n - 1]]
    if k == "helmert":
        sel = levels[1:] if o["reverse"] else levels[: n - 1]
        return [dict(s="avg")] + [dict(s=f"{st(l)} - rolling_avg") for l in sel]
    if k == "diff":
        pairs = [(levels[i + 1], levels[i]) for i in range(n - 1)] if o["backward"] else [(levels[i], levels[i + 1]) for i in range(n - 1)]
        return [dict(s="avg")] + [dict(s=f"{st(a)} - {st(b)}") for a, b in pairs]
    return [dict(s="avg")] + [dict(s={1: ".L", 2: ".Q", 3: ".C"}.get(d, f"^{d}")) for d in range(1, n)]


def _ref_poly(scores, n):
    """contr.poly: QR of the centred Vandermonde matrix, columns scaled to unit length, leading coefficient positive"""
    x = numpy.array(scores, dtype=float)
    x = x - x.mean()
    v = numpy.vander(x, n, increasing=True)
    q, r = numpy.linalg.qr(v)
    z = q * numpy.sign(numpy.diag(r))
    return z[:, 1:]


def _valid(c):
    """options for which the property speaks: distinct levels, base among them, right number of distinct scores"""
    levels = _levels_of(c)
    if c.get("output", "pandas") not in ("pandas", "numpy", "sparse"):
        return None
    if len(levels) == 0 or len({canon_label(l) for l in levels}) != len(levels):
        return None
    o = c["contrast"]
    if o.get("base") is not None and o["base"] not in levels:
        return None
    for o in [o] + ([c["contrast2"]] if c.get("contrast2") else []):
        if o["k"] == "custom":
            v = _custom_valid(o)
            if v is None or len(v[0]) != len(levels):
                return None
        if o["k"] == "cls" and o["name"] == "CustomContrasts":
            return None
        if o.get("base") is not None and o["base"] not in levels:
            return None
        if o["k"] == "poly" and o.get("scores"):
            if len(o["scores"]) != len(levels) or len(set(o["scores"])) != len(levels):
                return None
    return levels


def canon_label(l):
    return ("s", l["s"]) if "s" in l else ("i", l["i"])


def _base_idx(o, levels):
    if o["k"] == "unset" or (o["k"] == "cls" and o["name"] == "TreatmentContrasts"):
        return 0            # contrasts=None / the class itself: treatment coding, first level is the reference
    if o["k"] == "cls" and o["name"] == "SASContrasts":
        return len(levels) - 1
    if o["k"] not in ("treatment", "SAS"):
        return None
    if o.get("base") is not None:
        return levels.index(o["base"])
    return 0 if o["k"] == "treatment" else len(levels) - 1


def _mat(a, what):
    if "error" in a:
        raise _Fail(f"{what} raised {a['error']}")
    if a["rows"] is None:
        raise _Fail(f"{what} is not a matrix: {a['type']} of shape {a['shape']}")
    m = numpy.array(a["rows"], dtype=float).reshape(a["shape"])
    if not numpy.isfinite(m).all():
        raise _Fail(f"{what} has non-finite entries")
    return m


class _Fail(Exception):
    pass


def _kept(c):
    """the rows that are encoded: all of them, minus the positions the materializer asked the C() encoder to drop"""
    drop = set(c.get("drop") or [])
    return [d for i, d in enumerate(c["data"]) if i not in drop]


def _custom_valid(o):
    """(M, names) for a well-formed 2-d custom coding: M its rows as Fractions (r x k), names the given / dict names
    (None: the code numbers the columns 1..k); None when the description is not a 2-d array with aligned names"""
    if o["form"] == "dict":
        cols = [vs for _, vs in o["items"]]
        if not cols or len({len(v) for v in cols}) != 1:
            return None
        M = [[Fraction(cols[j][i]) for j in range(len(cols))] for i in range(len(cols[0]))]
        k = len(cols)
        names = o["names"] if o.get("names") is not None else [key for key, _ in o["items"]]
    elif o["form"] in ("rows", "ndarray"):
        rows = o["rows"]
        if not rows or len({len(r) for r in rows}) != 1:
            return None
        M = [[Fraction(v) for v in r] for r in rows]
        k = len(rows[0])
        names = o.get("names")
    else:
        return None
    if names is not None and len(names) != k:
        return None
    return M, (names if names else None), k


def _instance(o):
    """an instance of the coding `o` describes (a class is instantiated with its defaults, nothing = treatment)"""
    from formulaic.transforms.contrasts import Contrasts, TreatmentContrasts

    ct = _contrast(o)
    if ct is None:
        return TreatmentContrasts()
    if isinstance(ct, type):
        return ct()
    if not isinstance(ct, Contrasts):
        from formulaic.transforms.contrasts import CustomContrasts

        return CustomContrasts(ct)
    return ct


def oracle(c, o):
    if "harness_exception" in o:
        return "harness could not run the implementation: " + o["harness_exception"]
    try:
        if c["op"] == "custom":
            return _oracle_custom(c, o)
        if c["op"] == "apply":
            return _oracle_apply(c, o)
        if c["op"] == "encode" and c.get("via") == "encode" and c["output"] not in ("narwhals", "pandas", "numpy", "sparse"):
            if o.get("error") != "ValueError":
                return f"encode_contrasts(..., output={c['output']!r}): {o.get('error', 'no error')}, expected ValueError (unknown output type)"
            return None
        if c["op"] == "encode" and c["contrast"]["k"] == "custom":
            return _oracle_encode_custom(c, o)
        if c["contrast"]["k"] == "cls" and c["contrast"]["name"] == "CustomContrasts":
            return None  # `CustomContrasts()` cannot be built without a matrix: nothing to encode
        levels = _valid(c)
        if levels is None:
            return None
        if c["op"] == "formula":
            return _oracle_formula(c, o, levels)
        return _oracle_matrices(c, o, levels) if c["op"] == "matrices" else _oracle_encode(c, o, levels)
    except _Fail as e:
        return str(e)


def _distinct_levels(c):
    levels = _levels_of(c)
    if len(levels) == 0 or len({canon_label(l) for l in levels}) != len(levels):
        return None
    return levels


def _misaligned(o):
    """a 2-d custom coding whose `names=` are not as many as its columns (documented: ValueError at construction)"""
    if o.get("names") is None:
        return False
    v = _custom_valid(dict(o, names=None))
    return v is not None and len(o["names"]) != v[2]


def _oracle_custom(c, o):
    """a custom coding that fits the levels: the coding matrix is the given matrix (dense = sparse), its columns carry the
    given names (dict keys, `names=`) or 1..k; when [1 | coding] is square and exactly non-singular the reported
    coefficient matrix is its inverse; names that are not aligned with the columns are rejected at construction"""
    if _misaligned(c["contrast"]):
        if o["init"].get("error") != "ValueError":
            return (f"CustomContrasts(..., names=<{len(c['contrast']['names'])} names>) for a matrix with another number of "
                    f"columns: {o['init'].get('error', 'no error')}, expected ValueError (names must be aligned with the columns)")
        return None
    levels = _distinct_levels(c)
    v = _custom_valid(c["contrast"])
    if levels is None or v is None or len(v[0]) != len(levels):
        return None
    M, names, k = v
    n = len(levels)
    if "error" in o["init"]:
        return f"CustomContrasts(...) raised {o['init']['error']} for a {n} x {k} matrix with aligned names"
    want = numpy.array([[float(x) for x in r] for r in M], dtype=float).reshape(n, k)
    wnames = names if names is not None else [dict(i=j + 1) for j in range(k)]
    for key in ("reduced", "full"):
        io = o[key]
        for which in ("coding_dense", "coding_sparse"):
            C = _mat(io[which], f"{key} {which}")
            if C.shape != want.shape or not numpy.array_equal(C, want):
                return f"{key} {which} is not the matrix that was given"
        if io["names"] != wnames:
            return f"{key} column names {io['names']}, expected {wnames}"
        if io["coding_labels"] != dict(index=levels, columns=wnames):
            return f"{key} coding matrix is labelled {io['coding_labels']}, expected index = levels, columns = {wnames}"
        if io["spans_intercept"] is not False or io["drop_field"] != dict(v=None):
            return f"a custom coding must not claim to span the intercept / name a drop field ({key}: {io['spans_intercept']}, {io['drop_field']})"
    if k == n - 1:
        aug = [[Fraction(1)] + r for r in M]
        if _fdet(aug) != 0:
            A = numpy.array([[float(x) for x in r] for r in aug], dtype=float).reshape(n, n)
            K = _mat(o["reduced"]["coef_dense"], "coefficient matrix")
            tol = 1e-9 * max(1.0, float(numpy.abs(K).max(initial=0))) ** 2
            if K.shape != (n, n) or not numpy.allclose(K @ A, numpy.eye(n), atol=tol):
                return "reported coefficient matrix of the custom coding is not the inverse of [1 | coding]"
            S = _mat(o["reduced"]["coef_sparse"], "sparse coefficient matrix")
            if S.shape != K.shape or not numpy.allclose(S, K, atol=tol):
                return "dense and sparse coefficient matrices of the custom coding differ"
            if o["reduced"]["coef_labels"].get("columns") != levels:
                return "coefficient matrix columns are not the levels"
    return None


def _oracle_encode_custom(c, o):
    levels = _distinct_levels(c)
    v = _custom_valid(c["contrast"])
    if levels is None or v is None or len(v[0]) != len(levels) or c["output"] not in ("pandas", "numpy", "sparse"):
        return None
    M, names, k = v
    n = len(levels)
    if n == 1 and c["reduced"]:
        return None  # Contrasts.apply short-circuits one level in reduced rank to zero columns, custom coding or not
    if "error" in o:
        return f"encoding with a {n} x {k} custom coding raised {o['error']}"
    V = _mat(o["values"], "encoded values")
    data = _kept(c)
    ind = numpy.array([[1.0 if d == l else 0.0 for l in levels] for d in data]).reshape(len(data), n)
    want = ind @ numpy.array([[float(x) for x in r] for r in M], dtype=float).reshape(n, k)
    if V.shape != want.shape or not numpy.array_equal(V, want):
        return "encoding differs from indicator matrix times the given custom coding"
    if not o.get("mm"):
        wnames = names if names is not None else [dict(i=j + 1) for j in range(k)]
        if o["names"] != wnames:
            return f"custom coding column names {o['names']}, expected {wnames}"
        if o["categories"] != levels:
            return f"level list not honoured: categories {o['categories']} vs {levels}"
        if o["spans_intercept"] is not False or o["drop_field"] is not None:
            return f"a custom coding must not claim to span the intercept / name a drop field ({o['spans_intercept']}, {o['drop_field']})"
    return None


def _oracle_apply(c, o):
    """Contrasts.apply(dummies, levels, …) for dummies of a declared type (DataFrame / ndarray / sparse matrix) with the
    output inferred or spelled out consistently: the result is dummies @ coding in the container that goes with the
    output type, columns named by get_coding_column_names"""
    levels = _distinct_levels(c)
    if c["output"] is not None and c["output"] not in ("narwhals", "pandas", "numpy", "sparse") and "init" not in o:
        if o.get("error") != "ValueError":
            return f"apply(..., output={c['output']!r}): {o.get('error', 'no error')}, expected ValueError (unknown output type)"
        return None
    if levels is None or c["dtype"] not in DTYPES or c["output"] not in (None, OUT_OF[c["dtype"]]):
        return None
    opt = c["contrast"]
    n = len(levels)
    if opt["k"] == "custom":
        v = _custom_valid(opt)
        if v is None or len(v[0]) != n or (n == 1 and c["reduced"]):
            return None
    else:
        if opt.get("base") is not None and opt["base"] not in levels:
            return None
        if opt["k"] == "poly" and opt.get("scores") and (len(opt["scores"]) != n or len(set(opt["scores"])) != n):
            return None
    if "init" in o:
        return f"constructor raised {o['init'].get('error')}"
    if "error" in o:
        return (f"{opt['k']} contrasts .apply({c['dtype']} dummies of shape ({len(c['dummies'])}, {n}), levels, "
                f"reduced_rank={c['reduced']}, output={c['output']!r}) raised {o['error']}")
    from formulaic.transforms.contrasts import ContrastsState

    warnings.simplefilter("ignore")
    st = ContrastsState(_instance(opt), [_py(l) for l in levels])
    Cm = numpy.asarray(st.get_coding_matrix(reduced_rank=c["reduced"]).values, dtype=float)
    Cm = Cm.reshape(n, Cm.shape[1] if Cm.ndim == 2 else 0)
    D = numpy.array([[float(Fraction(x)) for x in r] for r in c["dummies"]], dtype=float).reshape(len(c["dummies"]), n)
    want = D @ Cm
    V = _mat(o["values"], "result of apply")
    tol = 1e-12 * max(1.0, float(numpy.abs(D).max(initial=0)) * n)
    if V.shape != want.shape or not numpy.allclose(V, want, atol=tol):
        return f"apply on {c['dtype']} dummies differs from dummies @ coding matrix (shape {V.shape} vs {want.shape})"
    if o["values"]["type"] != CONTAINER[OUT_OF[c["dtype"]]]:
        return f"apply on {c['dtype']} dummies returned a {o['values']['type']}, expected {CONTAINER[OUT_OF[c['dtype']]]}"
    return None


def _oracle_matrices(c, o, levels):
    n = len(levels)
    opt = c["contrast"]
    k = opt["k"]
    is_poly = k == "poly"
    tol = max(1e-9, 64 * polytol(n, opt.get("scores"))) if is_poly else 1e-9   # all columns mix in these checks
    red, full = o["reduced"], o["full"]
    C = _mat(red["coding_dense"], "reduced coding matrix")
    if C.shape != (n, n - 1):
        return f"reduced coding matrix has shape {C.shape}, expected {(n, n - 1)}"
    F = _mat(full["coding_dense"], "full coding matrix")
    if F.shape != (n, n) or not numpy.array_equal(F, numpy.eye(n)):
        return "full coding matrix is not the identity"
    aug = numpy.hstack([numpy.ones((n, 1)), C])
    if numpy.linalg.matrix_rank(aug) != n:
        return "[1 | coding] is singular"
    K = _mat(red["coef_dense"], "coefficient matrix")
    if K.shape != (n, n) or not numpy.allclose(K @ aug, numpy.eye(n), atol=tol):
        return "reported coefficient matrix is not the inverse of [1 | coding]"
    KF = _mat(full["coef_dense"], "full-rank coefficient matrix")
    if KF.shape != (n, n) or not numpy.allclose(KF, numpy.eye(n), atol=1e-12):
        return "full-rank coefficient matrix is not the identity"
    if k in ("sum", "helmert", "diff", "poly") and n > 1:
        if numpy.abs(C.sum(axis=0)).max() > tol:
            return f"columns of the {k} coding do not sum to zero: {C.sum(axis=0).tolist()}"
    # dense and sparse forms agree
    for key, part, dense in (("reduced", "coding", C), ("full", "coding", F), ("reduced", "coef", K), ("full", "coef", KF)):
        S = _mat(o[key][part + "_sparse"], f"sparse {key} {part} matrix")
        if S.shape != dense.shape or not numpy.allclose(S, dense, atol=tol):
            return f"dense and sparse {key} {part} matrices differ (shapes {dense.shape} / {S.shape})"
    # textbook / R definitions
    if is_poly:
        if n <= 10:
            scores = [float(Fraction(s)) for s in opt["scores"]] if opt.get("scores") else list(range(n))
            R = _ref_poly(scores, n)
            if not numpy.allclose(C, R, atol=max(1e-7, tol)):   # the QR reference loses digits with the same conditioning
                return "polynomial coding differs from the QR construction of contr.poly"
        if n > 1 and not numpy.allclose(C.T @ C, numpy.eye(n - 1), atol=tol):
            return "polynomial columns are not orthonormal"
    else:
        R = _ref_coding(opt, n, _base_idx(opt, levels))
        if not numpy.allclose(C, R, atol=1e-12):
            return f"{k} coding differs from the textbook/R matrix: {C.tolist()} vs {R.tolist()}"
    # coefficient row names: the interpretation of each row of the coefficient matrix
    want_rows = _ref_row_names(opt, levels)
    if red["row_names"] != want_rows:
        return f"coefficient row names {red['row_names']}, expected {want_rows}"
    if red["coef_labels"] != dict(index=want_rows, columns=levels):
        return f"coefficient matrix is labelled {red['coef_labels']}, expected rows {want_rows}, columns = levels"
    if full["row_names"] != levels or full["coef_labels"] != dict(index=levels, columns=levels):
        return "full-rank coefficient matrix is not labelled by the levels"
    # names honour the reference level
    names = red["names"]
    if isinstance(names, dict):
        return f"get_coding_column_names raised {names['error']}"
    if len(names) != n - 1:
        return f"{len(names)} reduced column names for {n} levels"
    bi = _base_idx(opt, levels)
    if bi is not None and names != [l for i, l in enumerate(levels) if i != bi]:
        return "treatment column names do not omit exactly the reference level"
    return None


def _oracle_encode(c, o, levels):
    if "error" in o:
        return f"encoding raised {o['error']}"
    from formulaic.transforms.contrasts import ContrastsState

    n = len(levels)
    opt = c["contrast"]
    V = _mat(o["values"], "encoded values")
    data = _kept(c)
    ind = numpy.array([[1.0 if d == l else 0.0 for l in levels] for d in data]).reshape(len(data), n)
    # the coding matrix the implementation itself reports for these levels
    warnings.simplefilter("ignore")
    st = ContrastsState(_instance(opt), [_py(l) for l in levels])
    Cm = numpy.asarray(st.get_coding_matrix(reduced_rank=c["reduced"]).values, dtype=float).reshape(n, n - 1 if c["reduced"] else n)
    want = ind @ Cm
    if V.shape != want.shape:
        return f"encoded shape {V.shape}, indicator @ coding has shape {want.shape}"
    if not numpy.allclose(V, want, atol=1e-12):
        return "encoding differs from indicator matrix times coding matrix"
    if not o.get("mm"):
        if o["categories"] != levels:
            return f"level list not honoured: categories {o['categories']} vs {levels}"
        bi = _base_idx(opt, levels)
        if bi is not None and c["reduced"] and o["names"] != [l for i, l in enumerate(levels) if i != bi]:
            return "reference level not honoured in the encoded column names"
        if bi is not None and not c["reduced"] and n >= 1 and o["drop_field"] != levels[bi]:
            return "drop_field is not the reference level"
    return None


def _oracle_formula(c, o, levels):
    """every occurrence of the contrast factor inside one materialization is indicator(x) @ coding — the reduced coding
    (n x (n-1)) where the factor contributes n-1 columns, the full coding (identity) where it contributes n — times the
    partner columns of its term; whatever was materialised before it in the same call"""
    if "error" in o:
        return f"model_matrix({_formula_text(c)!r}) raised {o['error']}"
    from formulaic.transforms.contrasts import ContrastsState

    n = len(levels)
    data = c["data"]
    ind = numpy.array([[1.0 if d == l else 0.0 for l in levels] for d in data]).reshape(len(data), n)
    warnings.simplefilter("ignore")
    coding = {}
    mats = [_mat(p["values"], f"part {i}") for i, p in enumerate(o["parts"])]
    for oc in _occurrences(c, o):
        opt = c["contrast"] if oc["which"] == "A" else c["contrast2"]
        key = (oc["which"], oc["reduced"])
        if key not in coding:
            # the coding matrix the implementation itself reports for these levels (checked against the textbook by op "matrices")
            st = ContrastsState(_instance(opt), [_py(l) for l in levels])
            coding[key] = numpy.asarray(st.get_coding_matrix(reduced_rank=oc["reduced"]).values, dtype=float).reshape(
                n, _width(opt, n, False) if opt["k"] == "custom" else (n - 1 if oc["reduced"] else n))
            if opt["k"] == "custom" and n == 1 and oc["reduced"]:
                coding[key] = coding[key][:, :0]   # a single level in reduced rank: no columns
        enc = ind @ coding[key]
        for g in oc["groups"]:
            sv = numpy.array([float(x) for x in g["s"]])
            V = mats[oc["part"]][:, g["cols"]]
            want = enc * sv[:, None]
            if V.shape != want.shape or not numpy.allclose(V, want, atol=1e-12 * max(1.0, float(numpy.abs(sv).max(initial=0)))):
                names = [o["parts"][oc["part"]]["names"][k] for k in g["cols"]]
                return (f"{_formula_text(c)!r} ({c['output']}): columns {names} of term {oc['term']} (part {oc['part']}) are not "
                        f"indicator(x) @ {'reduced' if oc['reduced'] else 'full'} {opt['k']} coding times the partner columns")
    return None


def classify(c, o, why):
    return None


LEVEL_TEXT = (
    "Proof: Lean theorems (Props/C11.lean) show for EVERY level count n and every option that the model's coding matrix "
    "(written from the code's index arithmetic) equals the textbook/R matrix, is n x (n-1), that the closed-form coefficient "
    "matrix is a two-sided inverse of [1 | coding] (hence the determinant is a unit), that sum/Helmert/difference/polynomial "
    "columns sum to zero, that polynomial columns are mutually orthogonal and — over the reals, with the sqrt normalisation the code "
    "applies — orthonormal with explicit inverse [1/n; Q^T], that the full coding is the identity, that "
    "encoding equals indicator x coding including the treatment fast path, row by row (each encoded row IS the coding row of its "
    "level; nulls / outside values give zero rows; the reference level of a treatment coding gives the zero row), that coding column names / "
    "coefficient row names / DataFrame labels align with the matrices and the drop field is a column, that every form of the contrasts= "
    "argument (instance, class with the live dataclass defaults, None) is the same encoder, that Contrasts.apply with an inferred output is the "
    "call with that output and is dummies x coding for any rectangular dummies, that a custom coding encodes to indicator x the GIVEN matrix "
    "with names as given or 1..k and that its reported coefficient matrix (the model's exact inverse, certified) is the two-sided inverse / "
    "that a reported singularity excludes an inverse, and that the materializer's encoded-factor cache and "
    "per-part encoder state are transparent for every argument form: for every history of full/reduced uses of the factor inside one materialization each "
    "use gets exactly the stand-alone encoding (cache_transparent, materialized_is_product, materialized_custom_is_product). The model is tied to the real code by a differential "
    "correspondence on every run (all option combinations, n = 1..12 / 1..40, str/int/mixed labels, nulls, absent levels, categorical columns with "
    "another declared order, custom codings, direct apply, formulas that use one factor several times); every line of transforms/contrasts.py is executed by the stream."
)
LEVEL_NOTE = (
    "Trusted: Lean kernel + propext/Classical.choice/Quot.sound; the hand model of contrasts.py / poly.py validated by "
    "correspondence; numpy/scipy inverses compared with the proved closed form (1e-9) or with the model's certified exact inverse (custom codings); "
    "pandas categorical encoding and numpy/pandas shape rules modelled as observed; "
    "float rounding of the polynomial recurrence not modelled (tolerance stated in the evidence); finite tables of the code regenerated from the live package (Gen/ContrastsTable.lean)."
)
