"""C11 — Built-in contrast codings are valid and standard for every level count.

Correspondence stream `c11` (two request kinds):

* op "matrices": for a level list and one option combination, the real
  `ContrastsState.get_coding_matrix / get_coefficient_matrix` (dense and sparse, reduced and full),
  `get_coding_column_names`, `get_drop_field`, `get_spans_intercept`, `get_factor_format`
  against `Model.Contrasts.getCodingMatrix …` and the closed-form inverse `Spec.Contrasts.coef`.
* op "encode": `encode_contrasts(...)`, the `C(...)` encoder closure and `model_matrix("… C(x, …)")`
  on a data vector with absent levels / nulls / values outside the levels against
  `Model.Contrasts.encodeContrasts`.
* op "formula": ONE `model_matrix` call whose formula needs the same `C(x, contr.…)` factor several times (main effect,
  interactions with numerical / categorical partners, several parts of `lhs ~ … | …`, with / without intercept, a second
  contrast factor on the same column), so that it is encoded in full and in reduced rank in either order. The sequence of
  uses (factor, rank, new part) is read off `model_spec.structure`; every use is recovered from the matrix by dividing by
  the exactly known partner columns and compared with `Model.ContrastsCache.materialize` (the model of
  `FormulaMaterializer._encode_evaled_factor`: encoded cache + per-part encoder state) on that history.

Numbers: the model answers in exact rationals ("p/q"). Implementation floats are compared after
`Fraction(x).limit_denominator(10**6)` plus an absolute check (1e-12 for codings, 1e-9 for inverses).
Polynomial columns are irrational: the model sends the unnormalised monic column `P` and `norms2`;
the implementation's entry `v` must satisfy `|v - sign(P)·sqrt(P²/norms2)| <= tol(n)` (sign included),
`tol(n) = 1e-11·2^(max(0,n-8)/1.5)` (1e-11·2^(n-6) for arbitrary scores, n <= 12) because the float three-term recurrence loses digits as n grows
(IEEE rounding is not modelled).

Oracle (implementation only, numpy): shapes, rank of [1|C], coefficient @ [1|C] ≈ I, column sums,
dense == sparse, equality with independent R-style constructions, encode == indicator @ coding with
the reference level / explicit level list honoured; for op "formula": every block of columns a contrast factor contributes to
a term (n-1 columns: reduced coding, n columns: full coding) == indicator @ that coding, times the partner columns.
"""
from __future__ import annotations

import math
import warnings
from fractions import Fraction

import numpy
import pandas

PROPERTY = "C11"
ENGINE = "c11"
REQUIRED_THEOREMS = [
    "model_rows_are_entries",
    "coding_eq_textbook",
    "poly_eq_textbook",
    "kind_valid",
    "reference_level_honoured",
    "shape",
    "full_is_identity",
    "coefficient_is_inverse",
    "augmented_invertible",
    "columns_sum_zero",
    "poly_orthogonal",
    "apply_is_product",
    "matMul_entry",
    "dense_sparse_agree",
    "cache_transparent",
    "materialized_is_product",
]
TRUSTED = [
    "numpy.linalg.inv / scipy.sparse.linalg.inv are not modelled: the implementation's coefficient matrix is "
    "compared numerically (1e-9) with the closed form that Props.C11.coefficient_is_inverse proves to be the inverse of [1 | coding]",
    "pandas.Categorical / get_dummies / categorical_encode_series_to_sparse_csc_matrix are modelled by "
    "Model.Contrasts.indicator (one-hot rows; nulls and values outside the levels give zero rows; inferred categories = "
    "sorted distinct values, numbers before strings) and validated by the correspondence only",
    "op 'formula': which rank each use of the factor needs (patsy's rank rules, properties C02/C03) and the row-wise product "
    "of a term's factors are not modelled here: the history is read off the implementation's model_spec.structure and the "
    "partner columns (z, w = +-2^k or 0; g = 0/1 indicators of its sorted levels, first dropped when reduced) are divided out",
    "polynomial contrasts: sqrt and the float three-term recurrence are not modelled; columns are compared as "
    "sign(P)*sqrt(P^2/norms2) with tolerance 1e-11*2^(max(0,n-8)/1.5) (arbitrary scores only for n <= 12, affine scores beyond) (1e-7-level float error at n=40 is rounding, not a finding)",
]
ASSUMPTIONS = [
    "levels are pairwise distinct (pandas rejects duplicate categories); polynomial scores are pairwise distinct",
    "level labels are str or int, with pairwise distinct str() forms (9 and '9' as two levels of one factor collide in model-matrix column names; not generated)",
]
RULE = (
    "n = 1..12 (thorough 1..40) x {treatment(unset/base), SAS(unset/base), sum, helmert(reverse x scale), diff(backward), "
    "poly(none/scores)} x label type {str,int,mixed} in shuffled order: one 'matrices' case each, plus 'encode' cases with random "
    "data (absent levels, nulls, values outside the levels), reduced/full, output pandas/numpy/sparse, via encode_contrasts / C() "
    "encoder / model_matrix, levels explicit / from state / inferred; plus a malformed stream (base not among levels, wrong number "
    "of scores, duplicate levels, unknown output, empty level list); plus a falsy-reference stream: level lists containing the int 0 / "
    "the empty string at a non-first position with base= that label, for treatment and SAS, as matrices and through "
    "encode_contrasts / C() / model_matrix; plus a formula stream: n in {1,2,3,4,5,7} (thorough up to 20) x the 13 option "
    "combinations x {one of 8 canonical shapes in which the factor is needed full-then-reduced / reduced-then-full / in two parts, "
    "one random shape}: terms drawn from A, A:z, A:w, A:g, A:z:w, A:g:z, z, w, g (+ B, B:z, B:g for a second contrast factor on the "
    "same column), intercept 0/1 per part, 1-2 parts, optional lhs, levels explicit / inferred, data with nulls / absent / outside "
    "values, output pandas/numpy/sparse, at least two uses of A per formula. non-trivial = n >= 3; distinct by canonical JSON"
)

STR_POOL = ["a", "b", "c", "d", "e", "f", "g", "h", "B", "Z", "aa", "ab", "10", "9", "x y", "é", "T.a", "[q]"]


# ----------------------------------------------------------------------------- generation


def _labels(rng, n, ltype):
    if ltype == "str":
        pool = list(STR_POOL) + [f"L{i}" for i in range(max(0, n - len(STR_POOL) + 3))]
        ls = rng.sample(pool, n)
        return [dict(s=x) for x in ls]
    if ltype == "int":
        # 9 and 10 are left out: the string pool has "9" and "10", and str(9) == "9" would give two levels the same
        # column name in a model matrix (a naming collision that is outside this property)
        ls = rng.sample([v for v in range(-30, 62) if v not in (9, 10)], n)
        return [dict(i=x) for x in ls]
    out = _labels(rng, (n + 1) // 2, "str") + _labels(rng, n // 2, "int")
    rng.shuffle(out)
    return out


def _options(rng, n, levels):
    """every option combination once (bases / scores drawn at random)"""
    opts = [dict(k="treatment", base=None), dict(k="treatment", base=rng.choice(levels)),
            dict(k="SAS", base=None), dict(k="SAS", base=rng.choice(levels)), dict(k="sum")]
    for r in (True, False):
        for s in (True, False):
            opts.append(dict(k="helmert", reverse=r, scale=s))
    for b in (True, False):
        opts.append(dict(k="diff", backward=b))
    opts.append(dict(k="poly", scores=None))
    opts.append(dict(k="poly", scores=_scores(rng, n)))
    return opts


def _scores(rng, n):
    if n > 12:
        # arbitrary scores make the float recurrence lose all digits (1e-5 at n=30): beyond 12 levels only affine scores
        a, b = rng.randint(-20, 20), rng.choice([1, 2, 3, -1, -2])
        return [f"{a + b * i}/2" for i in range(n)]
    kind = rng.choice(["int", "half", "sorted"])
    if kind == "half":
        vals = rng.sample(range(-2 * n - 4, 2 * n + 5), n)
        return [f"{v}/2" for v in vals]
    vals = rng.sample(range(-n - 3, n + 6), n)
    if kind == "sorted":
        vals.sort()
    return [f"{v}/1" for v in vals]


def _data(rng, levels, nrows):
    pool = list(levels)
    out = []
    # some levels are deliberately never used
    used = [l for l in pool if rng.random() < 0.7] or pool[:1]
    for _ in range(nrows):
        r = rng.random()
        if r < 0.15:
            out.append(None)
        elif r < 0.22:
            out.append(dict(s="OUTSIDE") if rng.random() < 0.5 else dict(i=999))
        else:
            out.append(rng.choice(used))
    return out


def _falsy_cases(rng, tier):
    """Reference levels whose label is falsy in Python (the int 0, the empty string) and that are NOT the first level:
    `base=0` / `base=""` must be honoured exactly like any other label (a truthiness test on `base` would silently fall
    back to the first level). Treatment and SAS, directly (matrices), through encode_contrasts, the C() encoder and
    model_matrix, with explicit / state / inferred level lists."""
    sizes = {"quick": [2, 3, 4, 6], "thorough": [2, 3, 4, 5, 7, 12, 25], "search": [2, 3, 5]}[tier]
    for n in sizes:
        for ltype in ("int", "str", "mixed"):
            if ltype == "int":
                falsy = dict(i=0)
                others = [dict(i=v) for v in rng.sample([v for v in range(-30, 62) if v not in (0, 9, 10)], n - 1)]
                if all(o["i"] > 0 for o in others):
                    others[0] = dict(i=-others[0]["i"])  # a negative level: 0 is not first in sorted order either
            elif ltype == "str":
                falsy = dict(s="")
                others = _labels(rng, n - 1, "str")
            else:
                falsy = rng.choice([dict(i=0), dict(s="")])
                others = [l for l in _labels(rng, n + 1, "mixed") if l != dict(i=0)][: n - 1]
                if "s" in falsy and not any("i" in o for o in others):
                    others[0] = dict(i=rng.randint(1, 8))  # numbers sort before strings: "" is not first when inferred
                if "i" in falsy and not any("i" in o and o["i"] < 0 for o in others):
                    others[0] = dict(i=-rng.randint(1, 8))
            pos = rng.randint(1, n - 1)  # never the first position
            levels = others[:pos] + [falsy] + others[pos:]
            for k in ("treatment", "SAS"):
                opt = dict(k=k, base=falsy)
                yield dict(op="matrices", contrast=opt, levels=levels, ltype=ltype, falsy=True)
                for how, via in (("arg", "encode"), ("state", "C"), ("arg", "mm"), ("infer", "encode"), ("arg", "C")):
                    data = list(levels) + _data(rng, levels, rng.randint(2, 5))
                    rng.shuffle(data)
                    yield dict(op="encode", contrast=opt, data=data, reduced=rng.random() < 0.75,
                               output=rng.choice(["pandas", "numpy", "sparse"]), via=via, levels_via=how,
                               levels=None if how == "infer" else levels, ltype=ltype, falsy=True)


# ---- op "formula": one materialization that needs the same contrast-coded factor several times

NUM_POOL = ["1/1", "2/1", "4/1", "8/1", "1/2", "1/4", "-1/1", "-2/1", "-4/1", "-1/2"]  # +-2^k: division by them is exact
G_POOL = ["u", "v", "w"]
A_TERMS = ["A", "A:z", "A:w", "A:g", "A:z:w", "A:g:z"]
B_TERMS = ["B", "B:z", "B:g"]
# shapes in which the factor A is needed in both ranks in one call, in either order, in one part or across parts
CANONICAL = [
    [["0", "A", "z", "A:z"]],            # full (main effect), then reduced (z is spanned)
    [["0", "A", "g", "A:g"]],            # same with a categorical partner
    [["1", "A", "A:z"]],                 # reduced, then full (z alone is not in the model)
    [["1", "A", "A:g"]],
    [["0", "A"], ["1", "A"]],            # two parts of one materialization
    [["1", "A"], ["0", "A", "A:w", "w"]],
    [["1", "A:z", "A:w", "z"]],          # reduced and full inside interactions only
    [["0", "A", "z", "w", "A:z", "A:z:w", "A:w"]],
]


def _formula_shape(rng, with_b):
    nparts = 1 if rng.random() < 0.65 else 2
    while True:
        parts = []
        for _ in range(nparts):
            pool = A_TERMS + ["z", "w", "g"] + (B_TERMS if with_b else [])
            terms = [t for t in pool if rng.random() < 0.4]
            rng.shuffle(terms)
            parts.append([rng.choice(["0", "1"])] + terms)
        if sum(1 for p in parts for t in p if t.split(":")[0] == "A") >= 2:
            return parts


def _formula_cases(rng, tier):
    """The same `C(x, <contrast>)` factor is materialised several times in ONE call of `model_matrix`: as a main effect and
    inside interactions with numerical / categorical partners, with and without intercept, in one or several parts of a
    multi-part formula (`lhs ~ … | …`), so that it is needed in full rank and in reduced rank in either order; optionally with
    a second contrast factor on the same column. Every occurrence must be indicator x (reduced or full) coding."""
    sizes = {"quick": [1, 2, 3, 4, 5, 7], "thorough": [1, 2, 3, 4, 5, 6, 8, 12, 20], "search": [2, 3, 4, 6]}[tier]
    reps = {"quick": 1, "thorough": 2, "search": 2}[tier]
    k = rng.randrange(len(CANONICAL))
    for n in sizes:
        for opt_i in range(13):
            for rep in range(2 * reps):
                ltype = rng.choice(["str", "int", "mixed"])
                levels = _labels(rng, n, ltype)
                opt = _options(rng, n, levels)[opt_i]
                nrows = rng.randint(4, 9)
                data = _data(rng, levels, nrows)
                if all(d is None or d not in levels for d in data):
                    data[rng.randrange(nrows)] = levels[0]
                how = rng.choice(["arg", "arg", "infer"])
                with_b = rep % 2 == 1 and rng.random() < 0.5
                if how == "infer":
                    present = _infer(data)
                    if opt.get("base") is not None:
                        opt = dict(opt, base=rng.choice(present))
                    if opt.get("scores") is not None:
                        opt = dict(opt, scores=_scores(rng, len(present)))
                    lv = present
                else:
                    lv = levels
                opt2 = rng.choice(_options(rng, len(lv), lv)) if with_b else None
                if rep % 2 == 0:
                    parts = CANONICAL[k % len(CANONICAL)]
                    k += 1
                else:
                    parts = _formula_shape(rng, with_b)
                g = [rng.choice(G_POOL) for _ in range(nrows)]
                if len(set(g)) < 2:
                    g[0], g[1] = "u", "v"
                yield dict(op="formula", contrast=opt, contrast2=opt2, levels=None if how == "infer" else levels,
                           data=data, z=[rng.choice(NUM_POOL) for _ in range(nrows)],
                           w=[rng.choice(NUM_POOL + ["0/1"]) for _ in range(nrows)], g=g, parts=parts,
                           lhs=rng.random() < 0.2, output=rng.choice(["pandas", "numpy", "sparse"]), ltype=ltype)


def cases(rng, tier):
    if tier == "search":
        yield from _formula_cases(rng, tier)
    yield from _falsy_cases(rng, tier)
    nmax = {"quick": 12, "thorough": 40, "search": 9}[tier]
    enc_per = {"quick": 2, "thorough": 3, "search": 1}[tier]
    ns = list(range(1, nmax + 1))
    if tier == "search":
        ns = [1, 2, 3] + rng.sample(range(4, 13), 3)
    for n in ns:
        for ltype in ("str", "int", "mixed"):
            levels = _labels(rng, n, ltype)
            for opt in _options(rng, n, levels):
                yield dict(op="matrices", contrast=opt, levels=levels, ltype=ltype)
        # encode cases
        for opt_i in range(13):
            for _ in range(enc_per):
                ltype = rng.choice(["str", "int", "mixed"])
                levels = _labels(rng, n, ltype)
                opt = _options(rng, n, levels)[opt_i]
                data = _data(rng, levels, rng.randint(0, 7) if rng.random() < 0.1 else rng.randint(3, 9))
                how = rng.choice(["arg", "arg", "state", "infer"])
                via = rng.choice(["encode", "encode", "C", "mm"])
                c = dict(op="encode", contrast=opt, data=data, reduced=rng.random() < 0.6,
                         output=rng.choice(["pandas", "numpy", "sparse"]), via=via, levels_via=how, ltype=ltype)
                if how == "infer":
                    # the levels are whatever occurs in the data; re-draw base / scores against them
                    present = _infer([d for d in data])
                    if not present:
                        continue
                    c["levels"] = None
                    if opt.get("base") is not None:
                        opt = dict(opt, base=rng.choice(present))
                    if opt.get("scores") is not None:
                        opt = dict(opt, scores=_scores(rng, len(present)))
                    c["contrast"] = opt
                else:
                    c["levels"] = levels
                if via == "mm" and how == "state":
                    c["levels_via"] = "arg"
                yield c
    # malformed / edge stream
    for _ in range({"quick": 40, "thorough": 200, "search": 10}[tier]):
        n = rng.randint(1, 6)
        ltype = rng.choice(["str", "int", "mixed"])
        levels = _labels(rng, n, ltype)
        kind = rng.choice(["badbase", "badscores", "duplevels", "badoutput", "emptylevels", "emptyscores"])
        if kind == "badbase":
            opt = dict(k=rng.choice(["treatment", "SAS"]), base=dict(s="not-a-level"))
            yield dict(op="matrices", contrast=opt, levels=levels, ltype=ltype, malformed=kind)
            yield dict(op="encode", contrast=opt, data=_data(rng, levels, 5), reduced=rng.random() < 0.5,
                       output=rng.choice(["pandas", "numpy", "sparse"]), via="encode", levels_via="arg", levels=levels,
                       ltype=ltype, malformed=kind)
        elif kind == "badscores":
            opt = dict(k="poly", scores=_scores(rng, n + rng.choice([1, 2])))
            yield dict(op="matrices", contrast=opt, levels=levels, ltype=ltype, malformed=kind)
            yield dict(op="encode", contrast=opt, data=_data(rng, levels, 5), reduced=rng.random() < 0.5,
                       output="numpy", via="encode", levels_via="arg", levels=levels, ltype=ltype, malformed=kind)
        elif kind == "emptyscores":
            yield dict(op="matrices", contrast=dict(k="poly", scores=[]), levels=levels, ltype=ltype)
        elif kind == "duplevels":
            lv = levels + [rng.choice(levels)]
            yield dict(op="encode", contrast=dict(k="sum"), data=_data(rng, levels, 5), reduced=True,
                       output="numpy", via="encode", levels_via="arg", levels=lv, ltype=ltype, malformed=kind)
        elif kind == "badoutput":
            yield dict(op="encode", contrast=dict(k="sum"), data=_data(rng, levels, 5), reduced=True,
                       output="invalid", via="encode", levels_via="arg", levels=levels, ltype=ltype, malformed=kind)
        else:
            opt = rng.choice(_options(rng, n, levels))
            yield dict(op="encode", contrast=opt, data=_data(rng, levels, 4), reduced=rng.random() < 0.5,
                       output=rng.choice(["pandas", "numpy", "sparse"]), via="encode", levels_via="arg", levels=[],
                       ltype=ltype, malformed=kind)
    if tier != "search":
        # after the older streams, so that their cases are unchanged for a given seed
        yield from _formula_cases(rng, tier)


def describe(c):
    o = c["contrast"]
    name = o["k"]
    if name in ("treatment", "SAS"):
        name += "(base)" if o.get("base") is not None else ""
    if name == "poly" and o.get("scores"):
        name += "(scores)"
    n = len(c["levels"]) if c.get("levels") is not None else len(_infer(c["data"]))
    bucket = "1" if n == 1 else "2" if n == 2 else "3-6" if n <= 6 else "7-12" if n <= 12 else "13+"
    if c["op"] == "formula":
        name += ":parts=%d" % len(c["parts"]) + (":two-factors" if c.get("contrast2") else "")
    return f"{c['op']}:{name}:n={bucket}" + (":malformed" if c.get("malformed") else "") + (":falsy-base" if c.get("falsy") else "")


def nontrivial(c):
    n = len(c["levels"]) if c.get("levels") is not None else len(_infer(c["data"]))
    return n >= 3


# ----------------------------------------------------------------------------- implementation side


def _py(l):
    if l is None:
        return None
    return l["s"] if "s" in l else l["i"]


def _lab(x):
    if x is None:
        return None
    if isinstance(x, str):
        return dict(s=x)
    if isinstance(x, (bool, numpy.bool_)):
        return dict(other=repr(x))
    if isinstance(x, (int, numpy.integer)):
        return dict(i=int(x))
    return dict(other=repr(x))


def _contrast(o):
    from formulaic.transforms.contrasts import ContrastsRegistry as contr

    k = o["k"]
    if k == "treatment":
        return contr.treatment() if o.get("base") is None else contr.treatment(base=_py(o["base"]))
    if k == "SAS":
        return contr.SAS() if o.get("base") is None else contr.SAS(base=_py(o["base"]))
    if k == "sum":
        return contr.sum()
    if k == "helmert":
        return contr.helmert(reverse=o["reverse"], scale=o["scale"])
    if k == "diff":
        return contr.diff(backward=o["backward"])
    sc = o.get("scores")
    return contr.poly() if sc is None else contr.poly(scores=[float(Fraction(s)) for s in sc])


def _arr(m):
    import scipy.sparse as sp

    kind = type(m).__name__
    if sp.issparse(m):
        a = m.toarray()
    elif isinstance(m, pandas.DataFrame):
        a = m.values
    else:
        a = numpy.asarray(m)
    a = numpy.asarray(a, dtype=float)
    return dict(type=kind, shape=list(a.shape), rows=[[float(v) for v in r] for r in a.tolist()] if a.ndim == 2 else None,
                flat=[float(v) for v in a.ravel().tolist()] if a.ndim != 2 else None)


def _try(f):
    try:
        return f()
    except Exception as e:  # the class name is the observable
        return dict(error=type(e).__name__)


def impl(c):
    warnings.simplefilter("ignore")
    from formulaic.transforms.contrasts import ContrastsState

    if c["op"] == "matrices":
        levels = [_py(l) for l in c["levels"]]
        out = {}
        for key, rr in (("reduced", True), ("full", False)):
            ct = _contrast(c["contrast"])
            st = ContrastsState(ct, levels)
            out[key] = dict(
                coding_dense=_try(lambda: _arr(st.get_coding_matrix(reduced_rank=rr, sparse=False))),
                coding_sparse=_try(lambda: _arr(st.get_coding_matrix(reduced_rank=rr, sparse=True))),
                coef_dense=_try(lambda: _arr(st.get_coefficient_matrix(reduced_rank=rr, sparse=False))),
                coef_sparse=_try(lambda: _arr(st.get_coefficient_matrix(reduced_rank=rr, sparse=True))),
                names=_try(lambda: [_lab(x) for x in ct.get_coding_column_names(levels, reduced_rank=rr)]),
                drop_field=_try(lambda: dict(v=_lab(ct.get_drop_field(levels, reduced_rank=rr)))),
                spans_intercept=_try(lambda: bool(ct.get_spans_intercept(levels, reduced_rank=rr))),
                format=_try(lambda: ct.get_factor_format(levels, reduced_rank=rr)),
            )
        return out
    if c["op"] == "formula":
        return _impl_formula(c)
    return _impl_encode(c)


def _formula_exprs(c):
    lv = ", levels=L" if c.get("levels") is not None else ""
    return f"C(x, ct{lv})", f"C(x, ct2{lv})"


def _formula_text(c):
    a, b = _formula_exprs(c)
    sub = {"A": a, "B": b}
    parts = [" + ".join(":".join(sub.get(f, f) for f in t.split(":")) for t in p) for p in c["parts"]]
    return ("w ~ " if c["lhs"] else "") + " | ".join(parts)


def _impl_formula(c):
    """one `model_matrix` call; per part: the matrix, its column names and, from `model_spec.structure`, for every term
    the scoped terms the materializer produced (factor expression, reduced flag) and the number of columns"""
    from formulaic import model_matrix
    from formulaic.utils.structured import Structured

    def run():
        df = pandas.DataFrame({
            "x": pandas.Series([_py(d) for d in c["data"]], dtype=object),
            "z": [float(Fraction(v)) for v in c["z"]],
            "w": [float(Fraction(v)) for v in c["w"]],
            "g": list(c["g"]),
        })
        ctx = {"ct": _contrast(c["contrast"]), "L": None if c.get("levels") is None else [_py(l) for l in c["levels"]]}
        if c.get("contrast2") is not None:
            ctx["ct2"] = _contrast(c["contrast2"])
        mm = model_matrix(_formula_text(c), df, na_action="ignore", output=c["output"], context=ctx)
        out = []
        for m in (list(mm._flatten()) if isinstance(mm, Structured) else [mm]):
            ms = m.model_spec
            out.append(dict(
                names=[str(x) for x in ms.column_names], values=_arr(m),
                terms=[dict(term=str(t.term), ncols=len(t.columns),
                            scoped=[[[str(sf.factor.expr), bool(sf.reduced)] for sf in st.factors] for st in t.scoped_terms])
                       for t in ms.structure]))
        return dict(parts=out)

    return _try(run)


def _occurrences(c, o):
    """Every scoped term of the materialised formula that contains a contrast factor (A = `C(x, ct…)`, B = `C(x, ct2…)`),
    in materialization order. The columns of a scoped term are the row-wise products of its factors' columns, first factor
    fastest; the partners are known exactly (z, w: +-2^k or 0; g: 0/1 indicators of its sorted levels, first level dropped
    when reduced), so the block splits into groups (one per combination of partner columns), each group being the encoded
    contrast factor times the per-row partner product `s`. Width of the factor: n (full) or n-1 (reduced)."""
    exprA, exprB = _formula_exprs(c)
    levels = c["levels"] if c.get("levels") is not None else _infer(c["data"])
    n = len(levels)
    glev = sorted(set(c["g"]))
    nums = {"z": [Fraction(v) for v in c["z"]], "w": [Fraction(v) for v in c["w"]]}
    nrows = len(c["data"])
    occ = []
    for pi, part in enumerate(o["parts"]):
        off = 0
        for t in part["terms"]:
            end = off + t["ncols"]
            for st in t["scoped"]:
                fac = []  # (kind, names per column, per-row multipliers per column)
                for expr, red in st:
                    if expr in (exprA, exprB):
                        fac.append(("C", "A" if expr == exprA else "B", red, n - 1 if red else n))
                    elif expr in nums:
                        fac.append(("num", [expr], [nums[expr]], 1))
                    elif expr == "g":
                        gl = glev[1:] if red else glev
                        fac.append(("g", [f"g[T.{l}]" if red else f"g[{l}]" for l in gl],
                                    [[Fraction(int(v == l)) for v in c["g"]] for l in gl], len(gl)))
                    else:
                        raise _Fail(f"unexpected factor {expr!r} in term {t['term']}")
                widths = [f[-1] for f in fac]
                W = math.prod(widths)
                cs = [i for i, f in enumerate(fac) if f[0] == "C"]
                if len(cs) == 1:
                    ci = cs[0]
                    groups = {}
                    for k in range(W):
                        idx, r = [], k
                        for wd in widths:
                            idx.append(r % wd)
                            r //= wd
                        key = tuple(x for i, x in enumerate(idx) if i != ci)
                        if key not in groups:
                            sv = [Fraction(1)] * nrows
                            for i, f in enumerate(fac):
                                if i != ci:
                                    sv = [a * b for a, b in zip(sv, f[2][idx[i]])]
                            groups[key] = dict(cols=[], s=sv, pre=[f[1][idx[i]] for i, f in enumerate(fac) if i < ci],
                                               post=[f[1][idx[i]] for i, f in enumerate(fac) if i > ci])
                        groups[key]["cols"].append(off + k)  # increasing k = increasing column index of the factor
                    occ.append(dict(part=pi, term=t["term"], which=fac[ci][1], reduced=fac[ci][2],
                                    expr=exprA if fac[ci][1] == "A" else exprB, groups=list(groups.values())))
                elif cs:
                    raise _Fail(f"term {t['term']} has two contrast factors (not generated)")
                off += W
            if off != end:
                raise _Fail(f"part {pi} term {t['term']}: {t['ncols']} columns, but its scoped terms {t['scoped']} need "
                            f"{t['ncols'] + off - end} for {n} levels (reduced coding n x (n-1), full coding n x n)")
        if off != part["values"]["shape"][1]:
            raise _Fail(f"part {pi}: {part['values']['shape'][1]} columns, structure accounts for {off}")
    return occ


def _impl_encode(c):
    from formulaic import model_matrix
    from formulaic.model_spec import ModelSpec
    from formulaic.transforms.contrasts import C, encode_contrasts

    ct = _contrast(c["contrast"])
    data = pandas.Series([_py(d) for d in c["data"]], dtype=object)
    levels = None if c.get("levels") is None else [_py(l) for l in c["levels"]]
    how, via = c["levels_via"], c["via"]
    state = {}
    kw = {}
    if levels is not None:
        if how == "state":
            state["categories"] = levels
        else:
            kw["levels"] = levels

    def fv_out(fv):
        md = fv.__formulaic_metadata__
        a = _arr(fv.__wrapped__)
        return dict(values=a, names=[_lab(x) for x in md.column_names], spans_intercept=bool(md.spans_intercept),
                    drop_field=_lab(md.drop_field), format=md.format, format_reduced=md.format_reduced,
                    categories=[_lab(x) for x in state.get("categories", [])])

    if via == "encode":
        return _try(lambda: fv_out(encode_contrasts(data, ct, reduced_rank=c["reduced"], output=c["output"], _state=state, **kw)))
    if via == "C":
        def run():
            fv = C(data, ct, **kw)
            spec = ModelSpec(formula=[], output=c["output"])
            return fv_out(fv.__formulaic_metadata__.encoder(data, c["reduced"], [], state, spec))
        return _try(run)

    def run_mm():
        df = pandas.DataFrame({"x": data})
        f = ("1 + " if c["reduced"] else "0 + ") + ("C(x, ct, levels=L)" if levels is not None else "C(x, ct)")
        mm = model_matrix(f, df, na_action="ignore", output=c["output"], context={"ct": ct, "L": levels})
        cols = list(mm.model_spec.column_names)
        a = _arr(mm)
        if c["reduced"]:
            if cols[:1] != ["Intercept"]:
                return dict(error="NoIntercept")
            cols = cols[1:]
            a["rows"] = [r[1:] for r in a["rows"]]
            a["shape"] = [a["shape"][0], a["shape"][1] - 1]
        return dict(values=a, mm_names=cols, mm=True)

    return _try(run_mm)


# ----------------------------------------------------------------------------- model side


def request(c, o):
    if c["op"] == "matrices":
        return dict(op="matrices", contrast=c["contrast"], levels=c["levels"])
    if c["op"] == "formula":
        return dict(op="formula", contrast=c["contrast"], contrast2=c.get("contrast2"), levels=c.get("levels"),
                    data=c["data"], output=c["output"], history=_history(c, o))
    return dict(op="encode", contrast=c["contrast"], levels=c.get("levels"), data=c["data"], reduced=c["reduced"],
                output=c["output"])


def _history(c, o):
    """the sequence of encodings the materializer needed, read off the implementation's own structure: which factor, in
    which rank, and whether it is the factor's first use in a new part (= new ModelSpec, fresh encoder state)"""
    try:
        occs = _occurrences(c, o) if isinstance(o, dict) and "parts" in o else None
    except _Fail:
        occs = None
    if occs is None:
        return [dict(which="A", reduced=False, newspec=True), dict(which="A", reduced=True, newspec=False)]
    hist, last = [], {}
    for oc in occs:
        hist.append(dict(which=oc["which"], reduced=oc["reduced"], newspec=last.get(oc["which"]) != oc["part"]))
        last[oc["which"]] = oc["part"]
    return hist


def _n_of(c):
    return len(c["levels"]) if c.get("levels") is not None else len(_infer(c["data"]))


def polytol(n, scores=None):
    """absolute tolerance for the (irrational, float-recurrence) polynomial entries; measured float error of the
    implementation against exact arithmetic is 10-60x below this envelope"""
    if scores and n <= 12:
        return 1e-11 * 2.0 ** max(0, n - 6)
    return 1e-11 * 2.0 ** (max(0, n - 8) / 1.5)


def _cmp_exact(x, f, tol):
    """impl float x against the model's rational f"""
    f = Fraction(f)
    if not math.isfinite(x):
        return f"non-finite {x}"
    if abs(x - float(f)) > tol:
        return f"{x} vs {f}"
    if f.denominator <= 10**5 and Fraction(x).limit_denominator(10**6) != f:
        return f"{x} rounds to {Fraction(x).limit_denominator(10**6)} not {f}"
    return None


def _cmp_poly(x, p, n2, tol):
    """impl float x against sign(p) * sqrt(p^2 / n2)"""
    p, n2 = Fraction(p), Fraction(n2)
    if n2 <= 0:
        return f"model norms2 {n2} not positive"
    want = math.copysign(math.sqrt(float(p * p / n2)), float(p)) if p != 0 else 0.0
    if not math.isfinite(x) or abs(x - want) > tol:
        return f"{x} vs sign*sqrt({p}^2/{n2}) = {want}"
    return None


def _cmp_matrix(a, rows, tol, poly=None, polyrows=False, what=""):
    """a = impl _arr dict; rows = model rows of 'p/q'. poly = norms2 list (per column, or per row if polyrows)."""
    if "error" in a or isinstance(rows, dict):
        ea = a.get("error") if isinstance(a, dict) else None
        em = rows.get("error") if isinstance(rows, dict) else None
        return None if ea == em and ea is not None else f"{what}: impl {ea or 'ok'} vs model {em or 'ok'}"
    if a["rows"] is None:
        return f"{what}: impl returned a {len(a['shape'])}-d {a['type']} of shape {a['shape']}, model a matrix"
    nr = len(rows)
    nc = len(rows[0]) if rows else (a["shape"][1] if len(a["shape"]) == 2 else 0)
    if a["shape"] != [nr, nc] and not (nr == 0 and a["shape"][0] == 0):
        return f"{what}: shape {a['shape']} vs model {[nr, nc]}"
    for i, (ra, rm) in enumerate(zip(a["rows"], rows)):
        for j, (x, f) in enumerate(zip(ra, rm)):
            if poly is not None and (not polyrows or i >= 1):
                w = _cmp_poly(x, f, 1 / Fraction(poly[i - 1]) if polyrows else poly[j], tol)
            elif poly is not None:
                # intercept row of the inverse of a polynomial coding: rational, but computed through the float columns
                w = None if abs(x - float(Fraction(f))) <= tol else f"{x} vs {f}"
            else:
                w = _cmp_exact(x, f, tol)
            if w:
                return f"{what}[{i},{j}]: {w}"
    return None


def agree(c, o, m):
    if "driver_error" in m:
        return "driver: " + str(m["driver_error"])[:300]
    if "harness_exception" in o:
        return "harness: " + o["harness_exception"]
    if c["op"] == "matrices":
        n = len(c["levels"])
        is_poly = c["contrast"]["k"] == "poly"
        for key in ("reduced", "full"):
            io, mo = o[key], m[key]
            norms = mo.get("norms2") if (is_poly and key == "reduced" and isinstance(mo.get("norms2"), list)) else None
            ptol = polytol(n, c["contrast"].get("scores"))
            for which in ("coding_dense", "coding_sparse"):
                w = _cmp_matrix(io[which], mo[which], ptol if norms is not None else 1e-12, poly=norms, what=f"{key}.{which}")
                if w:
                    return w
            for which in ("coef_dense", "coef_sparse"):
                # the model has one closed form; the dense call also evaluates the column names (error path)
                mrows = mo["coef"]
                if which == "coef_sparse" and isinstance(mo["coding_sparse"], list) and isinstance(mrows, dict):
                    # sparse path skips the column-name evaluation: the inverse of the identity is the identity
                    mrows = mo["coding_sparse"]
                w = _cmp_matrix(io[which], mrows, 1e3 * ptol if norms is not None else 1e-9, poly=norms, polyrows=True,
                                what=f"{key}.{which}")
                if w:
                    return w
            for fld in ("names",):
                a, b = io[fld], mo[fld]
                if a != b:
                    return f"{key}.{fld}: impl {a} vs model {b}"
            a = io["drop_field"]
            b = mo["drop_field"]
            a = a if "error" in a else a["v"]
            if a != b:
                return f"{key}.drop_field: impl {a} vs model {b}"
            if io["spans_intercept"] != mo["spans_intercept"] or io["format"] != mo["format"]:
                return f"{key}: spans_intercept/format differ"
        return None
    if c["op"] == "formula":
        return _agree_formula(c, o, m)
    # encode
    me = m["enc"]
    if "error" in o or "error" in me:
        return None if o.get("error") == me.get("error") else f"impl {o.get('error', 'ok')} vs model {me.get('error', 'ok')}"
    n = len(me["categories"])
    norms = m.get("norms2") if (c["contrast"]["k"] == "poly" and c["reduced"] and n > 1 and isinstance(m.get("norms2"), list)) else None
    w = _cmp_matrix(o["values"], me["values"], polytol(n, c["contrast"].get("scores")) if norms is not None else 1e-12, poly=norms, what="values")
    if w:
        return w
    if o.get("mm"):
        want = _mm_names(c, me["names"], me["format"])
        return None if o["mm_names"] == want else f"model_matrix column names {o['mm_names']} vs {want}"
    for fld in ("names", "spans_intercept", "drop_field", "format", "format_reduced", "categories"):
        if o[fld] != me[fld]:
            return f"{fld}: impl {o[fld]} vs model {me[fld]}"
    return None


def _agree_formula(c, o, m):
    if "error" in o or "error" in m:
        return None if ("error" in o and "error" in m) else f"impl {o.get('error', 'ok')} vs model {m.get('error', 'ok')}"
    try:
        occs = _occurrences(c, o)
    except _Fail as e:
        return str(e)
    if len(occs) != len(m["encs"]):
        return f"{len(occs)} occurrences vs {len(m['encs'])} model encodings"
    for oc, me in zip(occs, m["encs"]):
        enc = me["enc"]
        opt = c["contrast"] if oc["which"] == "A" else c["contrast2"]
        where = f"part {oc['part']} term {oc['term']} ({'reduced' if oc['reduced'] else 'full'} {opt['k']})"
        n = len(enc["categories"])
        norms = me.get("norms2") if (opt["k"] == "poly" and oc["reduced"] and n > 1 and isinstance(me.get("norms2"), list)) else None
        tol = polytol(n, opt.get("scores")) if norms is not None else 1e-12
        part = o["parts"][oc["part"]]
        V = part["values"]["rows"]
        fmt = enc["format"]
        for g in oc["groups"]:
            if len(g["cols"]) != len(enc["names"]):
                return f"{where}: {len(g['cols'])} columns vs model {len(enc['names'])}"
            for i, col in enumerate(g["cols"]):
                want = ":".join(g["pre"] + [fmt.replace("{name}", oc["expr"]).replace("{field}", str(_py(enc["names"][i])))] + g["post"])
                if part["names"][col] != want:
                    return f"{where}: column name {part['names'][col]!r} vs model {want!r}"
                for r, sv in enumerate(g["s"]):
                    v = V[r][col]
                    if sv == 0:
                        if v != 0:
                            return f"{where}: [{r},{col}] = {v} where a partner column is 0"
                        continue
                    x = v / float(sv)  # exact: the partners are +-2^k
                    f = enc["values"][r][i]
                    w = _cmp_poly(x, f, norms[i], tol) if norms is not None else _cmp_exact(x, f, tol)
                    if w:
                        return f"{where}: column {part['names'][col]!r} row {r}: {w}"
    return None


def _mm_names(c, names, fmt):
    base = "C(x, ct, levels=L)" if c.get("levels") is not None else "C(x, ct)"
    return [fmt.replace("{name}", base).replace("{field}", str(_py(x))) for x in names]


# ----------------------------------------------------------------------------- oracle (implementation only)


def _infer(data):
    ints = sorted({d["i"] for d in data if d is not None and "i" in d})
    strs = sorted({d["s"] for d in data if d is not None and "s" in d})
    return [dict(i=x) for x in ints] + [dict(s=x) for x in strs]


def _ref_coding(o, n, base_idx):
    """R-style reference constructions, written independently of the implementation"""
    k = o["k"]
    if k in ("treatment", "SAS"):
        return numpy.delete(numpy.diag(numpy.ones(n)), base_idx, axis=1)  # contr.treatment: diag(n)[, -base]
    if k == "sum":
        return numpy.vstack([numpy.diag(numpy.ones(n - 1)), -numpy.ones((1, n - 1))])  # contr.sum
    if k == "helmert":
        m = numpy.zeros((n, n - 1))
        for j in range(n - 1):
            if o["reverse"]:  # contr.helmert: column j compares level j+1 with the mean of levels 0..j
                m[: j + 1, j] = -1
                m[j + 1, j] = j + 1
                if o["scale"]:
                    m[:, j] /= j + 2
            else:  # forward Helmert: level j against the mean of the later levels
                m[j, j] = n - 1 - j
                m[j + 1 :, j] = -1
                if o["scale"]:
                    m[:, j] /= n - j
        return m
    if k == "diff":
        m = numpy.zeros((n, n - 1))
        for j in range(n - 1):  # MASS::contr.sdif
            m[: j + 1, j] = -(n - 1 - j) / n
            m[j + 1 :, j] = (j + 1) / n
        return m if o["backward"] else -m
    return None


def _ref_poly(scores, n):
    """contr.poly: QR of the centred Vandermonde matrix, columns scaled to unit length, leading coefficient positive"""
    x = numpy.array(scores, dtype=float)
    x = x - x.mean()
    v = numpy.vander(x, n, increasing=True)
    q, r = numpy.linalg.qr(v)
    z = q * numpy.sign(numpy.diag(r))
    return z[:, 1:]


def _valid(c):
    """options for which the property speaks: distinct levels, base among them, right number of distinct scores"""
    levels = c["levels"] if c.get("levels") is not None else _infer(c["data"])
    if c.get("output", "pandas") not in ("pandas", "numpy", "sparse"):
        return None
    if len(levels) == 0 or len({canon_label(l) for l in levels}) != len(levels):
        return None
    o = c["contrast"]
    if o.get("base") is not None and o["base"] not in levels:
        return None
    for o in [o] + ([c["contrast2"]] if c.get("contrast2") else []):
        if o.get("base") is not None and o["base"] not in levels:
            return None
        if o["k"] == "poly" and o.get("scores"):
            if len(o["scores"]) != len(levels) or len(set(o["scores"])) != len(levels):
                return None
    return levels


def canon_label(l):
    return ("s", l["s"]) if "s" in l else ("i", l["i"])


def _base_idx(o, levels):
    if o["k"] not in ("treatment", "SAS"):
        return None
    if o.get("base") is not None:
        return levels.index(o["base"])
    return 0 if o["k"] == "treatment" else len(levels) - 1


def _mat(a, what):
    if "error" in a:
        raise _Fail(f"{what} raised {a['error']}")
    if a["rows"] is None:
        raise _Fail(f"{what} is not a matrix: {a['type']} of shape {a['shape']}")
    m = numpy.array(a["rows"], dtype=float).reshape(a["shape"])
    if not numpy.isfinite(m).all():
        raise _Fail(f"{what} has non-finite entries")
    return m


class _Fail(Exception):
    pass


def oracle(c, o):
    if "harness_exception" in o:
        return "harness could not run the implementation: " + o["harness_exception"]
    levels = _valid(c)
    if levels is None:
        return None
    try:
        if c["op"] == "formula":
            return _oracle_formula(c, o, levels)
        return _oracle_matrices(c, o, levels) if c["op"] == "matrices" else _oracle_encode(c, o, levels)
    except _Fail as e:
        return str(e)


def _oracle_matrices(c, o, levels):
    n = len(levels)
    opt = c["contrast"]
    k = opt["k"]
    is_poly = k == "poly"
    tol = 1e3 * polytol(n, opt.get("scores")) if is_poly else 1e-9
    red, full = o["reduced"], o["full"]
    C = _mat(red["coding_dense"], "reduced coding matrix")
    if C.shape != (n, n - 1):
        return f"reduced coding matrix has shape {C.shape}, expected {(n, n - 1)}"
    F = _mat(full["coding_dense"], "full coding matrix")
    if F.shape != (n, n) or not numpy.array_equal(F, numpy.eye(n)):
        return "full coding matrix is not the identity"
    aug = numpy.hstack([numpy.ones((n, 1)), C])
    if numpy.linalg.matrix_rank(aug) != n:
        return "[1 | coding] is singular"
    K = _mat(red["coef_dense"], "coefficient matrix")
    if K.shape != (n, n) or not numpy.allclose(K @ aug, numpy.eye(n), atol=tol):
        return "reported coefficient matrix is not the inverse of [1 | coding]"
    KF = _mat(full["coef_dense"], "full-rank coefficient matrix")
    if KF.shape != (n, n) or not numpy.allclose(KF, numpy.eye(n), atol=1e-12):
        return "full-rank coefficient matrix is not the identity"
    if k in ("sum", "helmert", "diff", "poly") and n > 1:
        if numpy.abs(C.sum(axis=0)).max() > tol:
            return f"columns of the {k} coding do not sum to zero: {C.sum(axis=0).tolist()}"
    # dense and sparse forms agree
    for key, part, dense in (("reduced", "coding", C), ("full", "coding", F), ("reduced", "coef", K), ("full", "coef", KF)):
        S = _mat(o[key][part + "_sparse"], f"sparse {key} {part} matrix")
        if S.shape != dense.shape or not numpy.allclose(S, dense, atol=tol):
            return f"dense and sparse {key} {part} matrices differ (shapes {dense.shape} / {S.shape})"
    # textbook / R definitions
    if is_poly:
        if n <= 10:
            scores = [float(Fraction(s)) for s in opt["scores"]] if opt.get("scores") else list(range(n))
            R = _ref_poly(scores, n)
            if not numpy.allclose(C, R, atol=1e-7):
                return "polynomial coding differs from the QR construction of contr.poly"
        if n > 1 and not numpy.allclose(C.T @ C, numpy.eye(n - 1), atol=tol):
            return "polynomial columns are not orthonormal"
    else:
        R = _ref_coding(opt, n, _base_idx(opt, levels))
        if not numpy.allclose(C, R, atol=1e-12):
            return f"{k} coding differs from the textbook/R matrix: {C.tolist()} vs {R.tolist()}"
    # names honour the reference level
    names = red["names"]
    if isinstance(names, dict):
        return f"get_coding_column_names raised {names['error']}"
    if len(names) != n - 1:
        return f"{len(names)} reduced column names for {n} levels"
    bi = _base_idx(opt, levels)
    if bi is not None and names != [l for i, l in enumerate(levels) if i != bi]:
        return "treatment column names do not omit exactly the reference level"
    return None


def _oracle_encode(c, o, levels):
    if "error" in o:
        return f"encoding raised {o['error']}"
    from formulaic.transforms.contrasts import ContrastsState

    n = len(levels)
    opt = c["contrast"]
    V = _mat(o["values"], "encoded values")
    data = c["data"]
    ind = numpy.array([[1.0 if d == l else 0.0 for l in levels] for d in data]).reshape(len(data), n)
    # the coding matrix the implementation itself reports for these levels
    warnings.simplefilter("ignore")
    st = ContrastsState(_contrast(opt), [_py(l) for l in levels])
    Cm = numpy.asarray(st.get_coding_matrix(reduced_rank=c["reduced"]).values, dtype=float).reshape(n, n - 1 if c["reduced"] else n)
    want = ind @ Cm
    if V.shape != want.shape:
        return f"encoded shape {V.shape}, indicator @ coding has shape {want.shape}"
    if not numpy.allclose(V, want, atol=1e-12):
        return "encoding differs from indicator matrix times coding matrix"
    if not o.get("mm"):
        if o["categories"] != levels:
            return f"level list not honoured: categories {o['categories']} vs {levels}"
        bi = _base_idx(opt, levels)
        if bi is not None and c["reduced"] and o["names"] != [l for i, l in enumerate(levels) if i != bi]:
            return "reference level not honoured in the encoded column names"
        if bi is not None and not c["reduced"] and n >= 1 and o["drop_field"] != levels[bi]:
            return "drop_field is not the reference level"
    return None


def _oracle_formula(c, o, levels):
    """every occurrence of the contrast factor inside one materialization is indicator(x) @ coding — the reduced coding
    (n x (n-1)) where the factor contributes n-1 columns, the full coding (identity) where it contributes n — times the
    partner columns of its term; whatever was materialised before it in the same call"""
    if "error" in o:
        return f"model_matrix({_formula_text(c)!r}) raised {o['error']}"
    from formulaic.transforms.contrasts import ContrastsState

    n = len(levels)
    data = c["data"]
    ind = numpy.array([[1.0 if d == l else 0.0 for l in levels] for d in data]).reshape(len(data), n)
    warnings.simplefilter("ignore")
    coding = {}
    mats = [_mat(p["values"], f"part {i}") for i, p in enumerate(o["parts"])]
    for oc in _occurrences(c, o):
        opt = c["contrast"] if oc["which"] == "A" else c["contrast2"]
        key = (oc["which"], oc["reduced"])
        if key not in coding:
            # the coding matrix the implementation itself reports for these levels (checked against the textbook by op "matrices")
            st = ContrastsState(_contrast(opt), [_py(l) for l in levels])
            coding[key] = numpy.asarray(st.get_coding_matrix(reduced_rank=oc["reduced"]).values, dtype=float).reshape(
                n, n - 1 if oc["reduced"] else n)
        enc = ind @ coding[key]
        for g in oc["groups"]:
            sv = numpy.array([float(x) for x in g["s"]])
            V = mats[oc["part"]][:, g["cols"]]
            want = enc * sv[:, None]
            if V.shape != want.shape or not numpy.allclose(V, want, atol=1e-12 * max(1.0, float(numpy.abs(sv).max(initial=0)))):
                names = [o["parts"][oc["part"]]["names"][k] for k in g["cols"]]
                return (f"{_formula_text(c)!r} ({c['output']}): columns {names} of term {oc['term']} (part {oc['part']}) are not "
                        f"indicator(x) @ {'reduced' if oc['reduced'] else 'full'} {opt['k']} coding times the partner columns")
    return None


def classify(c, o, why):
    return None


LEVEL_TEXT = (
    "Proof: Lean theorems (Props/C11.lean) show for EVERY level count n and every option that the model's coding matrix "
    "(written from the code's index arithmetic) equals the textbook/R matrix, is n x (n-1), that the closed-form coefficient "
    "matrix is a two-sided inverse of [1 | coding] (hence the determinant is a unit), that sum/Helmert/difference/polynomial "
    "columns sum to zero, that polynomial columns are mutually orthogonal, that the full coding is the identity, and that "
    "encoding equals indicator x coding including the treatment fast path, and that the materializer's encoded-factor cache and "
    "per-part encoder state are transparent: for every history of full/reduced uses of the factor inside one materialization each "
    "use gets exactly the stand-alone encoding (cache_transparent, materialized_is_product). The model is tied to the real code by a differential "
    "correspondence on every run (all option combinations, n = 1..12 / 1..40, str/int/mixed labels, nulls, absent levels; formulas that use one factor several times)."
)
LEVEL_NOTE = (
    "Trusted: Lean kernel + propext/Classical.choice/Quot.sound; the hand model of contrasts.py / poly.py validated by "
    "correspondence; numpy/scipy inverses compared with the proved closed form (1e-9); pandas categorical encoding modelled; "
    "float rounding and sqrt in the polynomial coding not modelled (tolerance stated in the evidence)."
)
