"""C17 — Required variables, name resolution order and '.' expansion are exact.

Correspondence stream `c17` (two request kinds, dispatched on "op"):
  formula  a generated formula (plain, back-quoted and dotted names, nested calls, attribute access, `{}`
           expressions) x a data column set x a context mapping that shadows or extends the data, the
           built-in transforms and Python's builtins. On the REAL objects: `Formula.required_variables`
           (before), `_get_ast_node_variables` per Python factor (ordered), materialisation with
           `PandasMaterializer(data, context)`, `ModelSpec(s).variables / required_variables /
           variables_by_source` (after), then re-materialisation on the data restricted to the reported
           set and with each reported member removed (before-set with the Formula, after-set with the
           ModelSpec). The Lean model (`Model.Variables`) gets the same factors — the CPython `ast` tree of
           every Python factor after the real `sanitize_variable_names` (CPython's parser and the
           sanitiser are parameters) — plus the key lists of the layers, and must predict every one of
           these observables; for outcomes it predicts `ok` / `FactorEvaluationError caused by NameError`
           (failures of the operations themselves are a parameter of the model: accepted and counted).
  dot      `lhs ~ .` materialised through the real parser with the materializer's layered context; the
           model computes `__formulaic_variables_used_lhs__` from the real left-hand-side tokens and the
           expansion with the parser model's `applyPlain` on the `.` operator.

Oracle (implementation only, never looks at the model): sufficiency and necessity of both reported sets
against real materialisations, the reported source of every variable against an independent walk of the
expression's `Name` nodes through data > context > transforms, the materialised single-factor columns
against an independent `eval` over a `ChainMap(data, context, TRANSFORMS)`, and the `.` expansion against
"data columns not read by the left-hand side, in data order".
"""
from __future__ import annotations

import ast
import builtins as _builtins
import collections
import re
import types

import numpy
import pandas

PROPERTY = "C17"
ENGINE = "c17"
REQUIRED_THEOREMS = [
    "resolution_order",
    "context_source",
    "reported_source_is_first_layer",
    "ast_variables_fuel_sufficient",
    "ast_variables_cover_names",
    "eval_depends_on_free_names",
    "eval_fails_on_unbound_name",
    "eval_nameError_iff",
    "restrict_sufficient",
    "remove_necessary",
    "required_sufficient",
    "required_necessary",
    "required_before_sufficient",
    "required_before_necessary",
    "dot_expansion",
    "dot_operator_in_table",
]
TRUSTED = [
    "parameters of the model, not verified: CPython's parser (`ast.parse`: the harness hands the tree of every Python "
    "fragment to the model), `sanitize_variable_names` (regex splitting of back-quoted names; its alias table is handed "
    "over; contract used: sanitised names are identifiers that were not bound before), the semantics of every operation "
    "on values (`Ops`: calls, attribute access, operators, subscripts may fail in the real code for reasons other than an "
    "unbound name; such failures are accepted and counted), `dir(builtins)`",
    "not modelled: name resolution inside comprehensions, lambdas, conditional expressions, `and`/`or`, chained "
    "comparisons, starred arguments, dict displays, f-strings (the generator stays inside the strict fragment: every "
    "sub-expression is evaluated exactly once, left to right); the reserved names `__FORMULAIC_*__`; the early evaluation "
    "of call targets by `_is_stateful_transform` (in the strict deterministic fragment it cannot change success/failure); "
    "the random suffix `sanitize_variable_name` adds when a sanitised name collides with a bound name",
]
ASSUMPTIONS = [
    "necessity is claimed for reported variables that no lower layer binds: when the caller's context, the transforms or "
    "Python's builtins also bind the name, removing the data column un-shadows that binding and the evaluation "
    "legitimately proceeds with it (the harness then checks that the reported source moves to that layer)",
    "before materialisation the formula cannot see the context: names the context (or Python's builtins) will provide are "
    "reported although they need not be in the data (documented in the docstring of `required_variables`); they are "
    "exempt from the necessity check by the previous assumption",
    "data columns are numeric and every term yields at least one column (ModelSpec.variables is read off the structure)",
]
RULE = (
    "formula: 2-6 data columns from {x,y,z,w} + names that collide with transforms/builtins {C,log,scale,np,center,exp,I,id,len} "
    "+ non-identifier names {`a b`,`x.y`,`1a`,`a+b`}; context of 0-4 entries (arrays, scalars, functions, a higher-order "
    "function, namespaces) whose names shadow data columns / transforms / builtins or are new; 1-4 terms of 1-2 factors "
    "drawn from lookups (plain, quoted), calls (transform, context, dotted, nested, keyword), method calls and attribute "
    "access on columns, `{}` expressions (operators, subscripts, calls on call results, attributes of parenthesised "
    "expressions), optional left-hand side, occasional unbound name; dot: `lhs ~ .` with 1-2 left-hand-side factors. "
    "non-trivial = a Python factor, a quoted name or a non-empty context; distinct by canonical JSON"
)

NROWS = 4
TRANSFORM_CALLABLES = ["log", "exp", "center", "scale", "I"]
SPECIAL_COLS = ["C", "log", "scale", "np", "center", "exp", "I", "id", "len"]
QUOTED_COLS = ["a b", "x.y", "1a", "a+b"]
PLAIN_COLS = ["x", "y", "z", "w"]
BUILTIN_NAMES = sorted(n for n in dir(_builtins))


class Outside(Exception):
    """expression outside the strict fragment"""


# ----------------------------------------------------------------------------- ast -> model language


def conv(n) -> dict:
    if isinstance(n, ast.Expression):
        return conv(n.body)
    if isinstance(n, ast.Name):
        return dict(t="name", id=n.id)
    if isinstance(n, ast.Constant):
        return dict(t="const", r=repr(n.value))
    if isinstance(n, ast.Attribute):
        return dict(t="attr", v=conv(n.value), a=n.attr)
    if isinstance(n, ast.Call):
        if any(isinstance(a, ast.Starred) for a in n.args) or any(k.arg is None for k in n.keywords):
            raise Outside("starred")
        return dict(t="call", f=conv(n.func), args=[conv(a) for a in n.args], kws=[[k.arg, conv(k.value)] for k in n.keywords])
    if isinstance(n, ast.UnaryOp):
        return dict(t="unop", op=type(n.op).__name__, x=conv(n.operand))
    if isinstance(n, ast.BinOp):
        return dict(t="binop", op=type(n.op).__name__, l=conv(n.left), r=conv(n.right))
    if isinstance(n, ast.Compare):
        if len(n.ops) != 1:
            raise Outside("chained comparison")
        return dict(t="binop", op=type(n.ops[0]).__name__, l=conv(n.left), r=conv(n.comparators[0]))
    if isinstance(n, ast.Subscript):
        return dict(t="sub", v=conv(n.value), i=conv(n.slice))
    if isinstance(n, (ast.Tuple, ast.List, ast.Set)):
        if any(isinstance(e, ast.Starred) for e in n.elts):
            raise Outside("starred")
        return dict(t="seq", k=type(n).__name__, es=[conv(e) for e in n.elts])
    if isinstance(n, ast.Slice):
        return dict(t="seq", k="Slice", es=[conv(e) for e in (n.lower, n.upper, n.step) if e is not None])
    raise Outside(type(n).__name__)


def pycode(expr: str):
    """what CPython sees of a Python fragment after the real sanitiser: (tree, aliases) or None (SyntaxError)"""
    from formulaic.utils.code import sanitize_variable_names

    aliases: dict = {}
    try:
        s = sanitize_variable_names(expr, {}, aliases)
        tree = ast.parse(s, mode="eval")
    except SyntaxError:
        return None, None, None
    return tree, aliases, s


def code_json(expr: str):
    tree, aliases, _ = pycode(expr)
    if tree is None:
        return None
    return dict(ast=conv(tree), aliases=[[k, v] for k, v in aliases.items()])


# ----------------------------------------------------------------------------- case material


def ctx_value(spec):
    k = spec["k"]
    if k == "arr":
        return numpy.array(spec["v"], dtype=float)
    if k == "num":
        return spec["v"]
    if k == "fn":
        c = spec["c"]
        return lambda *a, **kw: a[0] + c
    if k == "hof":
        return lambda v: (lambda w: v + w)
    if k == "ns":
        return types.SimpleNamespace(**{a: ctx_value(s) for a, s in spec["attrs"].items()})
    raise ValueError(k)


CTX_FORMS = ["dict", "lm", "nested", "named", "captured"]
NAMED_SUBLAYER = "glob"


def _ctx_parts(c):
    """the caller's context values split into an upper ("locals") and a lower ("globals") part"""
    items = [(k, ctx_value(s)) for k, s in c["ctx"].items()]
    n = min(c.get("ctx_split", len(items)), len(items))
    return dict(items[:n]), dict(items[n:])


def build_context(c):
    """the caller's context in the form the case asks for:
    dict      a plain dict
    lm        LayeredMapping(upper, lower)                      (unnamed; the shape of capture_context())
    nested    LayeredMapping(LayeredMapping(upper), lower)      (unnamed inside unnamed)
    named     LayeredMapping(upper, LayeredMapping(lower, name="glob"))
    captured  capture_context(0) inside a function whose locals are the identifier keys of `upper` and whose
              globals hold everything else (the frame capture `model_matrix(..., context=<int>)` performs)"""
    from formulaic.utils.context import capture_context
    from formulaic.utils.layered_mapping import LayeredMapping

    form = c.get("ctx_form", "dict")
    upper, lower = _ctx_parts(c)
    if form == "dict":
        return {**upper, **lower}
    if form == "lm":
        return LayeredMapping(upper, lower)
    if form == "nested":
        return LayeredMapping(LayeredMapping(upper), lower)
    if form == "named":
        return LayeredMapping(upper, LayeredMapping(lower, name=NAMED_SUBLAYER))
    if form == "captured":
        loc = {k: v for k, v in upper.items() if k.isidentifier()}
        glob = {"capture_context": capture_context, **lower, **{k: v for k, v in upper.items() if k not in loc}}
        src = "def _f(_vals):\n" + "".join(f"    {k} = _vals[{k!r}]\n" for k in loc) + "    return capture_context(0)\n"
        exec(src, glob)  # noqa: S102
        return glob["_f"](loc)
    raise ValueError(form)


def describe_context(obj):
    """the structure of the real context object for the model: keys of plain mappings, name / mutations / layers of
    LayeredMapping objects (read off the real object)"""
    from formulaic.utils.layered_mapping import LayeredMapping

    if isinstance(obj, LayeredMapping):
        return dict(name=obj.name, muts=[str(k) for k in obj._mutations], layers=[describe_context(l) for l in obj._layers])
    return [str(k) for k in obj]


def _ctx_source(key, c):
    """independent statement of the source a context key must be reported with: `context`, extended by the names of
    the named sub-layers on the way to the layer holding the key"""
    if c.get("ctx_form", "dict") == "named":
        upper, lower = _ctx_parts(c)
        if key not in upper and key in lower:
            return "context:" + NAMED_SUBLAYER
    return "context"


def frame(data: dict) -> pandas.DataFrame:
    return pandas.DataFrame({k: numpy.array(v, dtype=float) for k, v in data.items()}, index=range(NROWS))


def first_binding(name, data, ctx):
    """kind of the first layer's value for `name`: 'num' | 'fn' | 'hof' | 'ns' | 'mod' | None"""
    from formulaic.transforms import TRANSFORMS

    if name in data:
        return "num"
    if name in ctx:
        k = ctx[name]["k"]
        return "num" if k in ("arr", "num") else k
    if name in TRANSFORMS:
        return "mod" if name == "np" else "fn"
    if name in ("abs",):
        return "fn"
    return None


def q(name):
    return name if name.isidentifier() else f"`{name}`"


class Gen:
    """formula text generator for one environment.

    mode 'clean' keeps away from the three known findings (no attribute access / method call on a data column,
    no transform-named data column inside Python code, no back-quoted dotted name inside Python code);
    mode 'wild' uses everything."""

    def __init__(self, rng, data, ctx, wild):
        from formulaic.transforms import TRANSFORMS

        self.rng, self.data, self.ctx, self.wild = rng, data, ctx, wild
        names = list(data) + [k for k in ctx if k not in data]
        kind = {n: first_binding(n, data, ctx) for n in names}
        # names whose first binding is a numeric vector / a scalar
        self.vecs = [n for n in names if kind[n] == "num" and (n in data or ctx[n]["k"] == "arr")]
        self.scalars = [n for n in names if kind[n] == "num" and n not in data and ctx[n]["k"] == "num"]
        # vectors usable inside Python code
        self.pyvecs = [
            n for n in self.vecs
            if wild or n not in data or (n.split(".", 1)[0] not in TRANSFORMS and not ("." in n))
        ] or [n for n in self.vecs if n in PLAIN_COLS]
        # vectors on which attribute access / method calls are generated
        self.attrvecs = [n for n in self.pyvecs if wild or n not in data]
        self.fns = list(dict.fromkeys(n for n in list(ctx) + TRANSFORM_CALLABLES + ["abs"] if first_binding(n, data, ctx) == "fn"))
        self.ctx_fns = [n for n in ctx if first_binding(n, data, ctx) == "fn"]
        self.hofs = [n for n in ctx if first_binding(n, data, ctx) == "hof"]
        self.nss = [n for n in ctx if first_binding(n, data, ctx) == "ns"]
        self.np_ok = first_binding("np", data, ctx) == "mod"
        self.unbound = rng.random() < 0.08

    # vector-valued expressions inside Python code
    def val(self, depth=0):
        r = self.rng
        if self.unbound and r.random() < 0.3:
            return "zz"
        p = r.random()
        if depth < 2 and p < 0.22:
            return self.callexpr(depth + 1)
        if p < 0.34 and self.attrvecs:
            n = r.choice(self.attrvecs)
            return r.choice([f"{q(n)}.T", f"{q(n)}.clip(0)", f"{q(n)}.astype(float)"])
        if p < 0.40 and depth < 2:
            return f"({self.val(depth + 1)} + {self.val(depth + 1)})"
        if p < 0.45:
            return f"{q(r.choice(self.pyvecs))}[0:4]"
        if p < 0.50 and self.nss:
            return f"{r.choice(self.nss)}.v"
        if p < 0.55 and self.scalars and depth < 2:
            return f"({self.val(depth + 1)} * {r.choice(self.scalars)})"
        return q(r.choice(self.pyvecs))

    def callee(self):
        r = self.rng
        opts = []
        if self.fns:
            opts += [r.choice(self.fns)] * 4
        if self.np_ok:
            opts += [r.choice(["np.log", "np.exp", "np.abs"])] * 2
        if self.nss:
            opts += [r.choice(self.nss) + ".f"] * 2
        return r.choice(opts) if opts else "zz_f"

    def callexpr(self, depth=0):
        r = self.rng
        p = r.random()
        if p < 0.10 and self.hofs:
            return f"{r.choice(self.hofs)}({self.val(depth + 1)})({self.val(depth + 1)})"
        if p < 0.18 and self.ctx_fns:
            return f"[{r.choice(self.ctx_fns)}][0]({self.val(depth + 1)})"
        if p < 0.26:
            return f"({self.val(depth + 1)} + {self.val(depth + 1)}).clip(0)"
        if p < 0.36 and self.ctx_fns:
            return f"{r.choice(self.ctx_fns)}({self.val(depth + 1)}, k={self.val(depth + 1)})"
        if p < 0.42 and self.ctx_fns:
            return f"{r.choice(self.ctx_fns)}({self.val(depth + 1)}).clip(0)"
        return f"{self.callee()}({self.val(depth + 1)})"

    def factor(self):
        r = self.rng
        p = r.random()
        if p < 0.35:
            n = "zz" if (self.unbound and r.random() < 0.3) else r.choice(self.vecs)
            return q(n)
        if p < 0.65:
            c = self.callexpr()
            # a bare call must start with a plain (possibly dotted) name for the formula tokenizer; the rest goes in braces
            head = c.split("(", 1)[0]
            if c[0] in "[(`" or ")(" in c or ")." in c or "`" in head:
                return "{" + c + "}"
            return c
        op = r.choice(["+", "*", "-"])
        if p < 0.82:
            return "{" + f"{self.val()} {op} {self.val()}" + "}"
        if p < 0.90:
            return "{" + f"-{self.val()}" + "}"
        if p < 0.95:
            return "{" + self.val() + "}"
        if first_binding("I", self.data, self.ctx) == "fn":
            return "I(" + f"{self.val()} {op} {self.val()}" + ")"
        return "{" + f"{self.val()} {op} {self.val()}" + "}"

    def term(self):
        k = self.rng.choice([1, 1, 1, 2])
        return ":".join(self.factor() for _ in range(k))


def gen_env(rng):
    ncol = rng.randint(2, 6)
    pool = PLAIN_COLS * 3 + SPECIAL_COLS + QUOTED_COLS * 2
    cols = []
    while len(cols) < ncol:
        c = rng.choice(pool)
        if c not in cols:
            cols.append(c)
    if not any(c in PLAIN_COLS for c in cols):
        cols.insert(rng.randrange(len(cols) + 1), rng.choice(PLAIN_COLS))
    data = {c: [rng.randint(1, 9) for _ in range(NROWS)] for c in cols}
    ctx = {}
    for _ in range(rng.choice([0, 1, 1, 2, 3, 4])):
        kind = rng.choice(["shadow", "transform", "builtin", "new", "new", "new"])
        arr = dict(k="arr", v=[rng.randint(11, 19) for _ in range(NROWS)])
        if kind == "shadow":
            ctx[rng.choice(cols)] = arr
        elif kind == "transform":
            n = rng.choice(["log", "np", "C", "center", "exp"])
            if n == "np":
                ctx[n] = rng.choice([arr, dict(k="ns", attrs=dict(log=dict(k="fn", c=100), exp=dict(k="fn", c=200), abs=dict(k="fn", c=300), f=dict(k="fn", c=400), v=arr))])
            else:
                ctx[n] = rng.choice([arr, dict(k="fn", c=rng.choice([100, 200]))])
        elif kind == "builtin":
            n = rng.choice(["abs", "float", "id", "len"])
            ctx[n] = dict(k="fn", c=500) if n == "abs" else arr
        else:
            n = rng.choice(["u", "v", "f", "g", "h", "ns", "k"])
            ctx[n] = {
                "u": arr, "v": dict(k="num", v=rng.randint(2, 5)), "k": arr,
                "f": dict(k="fn", c=1000), "g": dict(k="fn", c=2000), "h": dict(k="hof"),
                "ns": dict(k="ns", attrs=dict(f=dict(k="fn", c=3000), v=arr)),
            }[n]
    return data, ctx


FIXED = [
    dict(kind="formula", formula="`a b` + x", data={"a b": [1, 2, 3, 4], "x": [2, 3, 4, 5]}, ctx={}),
    dict(kind="formula", formula="`a+b` + `1a`:x", data={"a+b": [1, 2, 3, 4], "1a": [2, 2, 3, 3], "x": [2, 3, 4, 5]}, ctx={}),
    dict(kind="formula", formula="C + log + x", data={"C": [1, 2, 3, 4], "log": [2, 1, 2, 1], "x": [2, 3, 4, 5]}, ctx={}),
    dict(kind="formula", formula="log(x) + {y + u}", data={"x": [1, 2, 3, 4], "y": [2, 3, 4, 5]}, ctx={"u": dict(k="arr", v=[11, 12, 13, 14])}),
    dict(kind="formula", formula="log(`a b`) + {`1a` * 2}", data={"a b": [1, 2, 3, 4], "1a": [2, 3, 4, 5]}, ctx={}),
    dict(kind="formula", formula="y ~ x + f(x, k=z)", data={"x": [1, 2, 3, 4], "y": [2, 3, 4, 5], "z": [1, 1, 2, 2]}, ctx={"f": dict(k="fn", c=7), "x": dict(k="arr", v=[11, 12, 13, 14])}),
    dict(kind="formula", formula="{(x + y).clip(0)} + h(x)(z)", data={"x": [1, 2, 3, 4], "y": [2, 3, 4, 5], "z": [1, 1, 2, 2]}, ctx={"h": dict(k="hof")}),
    dict(kind="formula", formula="{f(x).clip(0)} + {[g][0](y)}", data={"x": [1, 2, 3, 4], "y": [2, 3, 4, 5]}, ctx={"f": dict(k="fn", c=7), "g": dict(k="fn", c=9)}),
    dict(kind="formula", formula="log(C) + {np + 1}", data={"C": [1, 2, 3, 4], "np": [2, 3, 4, 5]}, ctx={}),
    dict(kind="formula", formula="x.clip(0) + {y.T}", data={"x": [1, 2, 3, 4], "y": [2, 3, 4, 5]}, ctx={}),
    dict(kind="formula", formula="log(`x.y`) + w", data={"x.y": [1, 2, 3, 4], "w": [2, 3, 4, 5]}, ctx={}),
    dict(kind="formula", formula="y ~ x + k + m + center(x) + double(m) + scale(x)",
         data={"y": [1, 2, 3, 4], "x": [1, 2, 3, 5], "k": [7, 7, 8, 8]},
         ctx={"k": dict(k="arr", v=[11, 11, 11, 11]), "m": dict(k="arr", v=[10, 20, 30, 40]), "center": dict(k="fn", c=42), "double": dict(k="fn", c=2)},
         ctx_form="lm", ctx_split=2),
    dict(kind="formula", formula="log(x) + {y + u}:f(x)", data={"x": [1, 2, 3, 4], "y": [2, 3, 4, 5]},
         ctx={"u": dict(k="arr", v=[11, 12, 13, 14]), "f": dict(k="fn", c=7)}, ctx_form="captured", ctx_split=1),
    dict(kind="formula", formula="x + u + f(u)", data={"x": [1, 2, 3, 4]},
         ctx={"u": dict(k="arr", v=[11, 12, 13, 14]), "f": dict(k="fn", c=7)}, ctx_form="nested", ctx_split=1),
    dict(kind="formula", formula="x + u + f(u)", data={"x": [1, 2, 3, 4]},
         ctx={"u": dict(k="arr", v=[11, 12, 13, 14]), "f": dict(k="fn", c=7)}, ctx_form="named", ctx_split=1),
    dict(kind="dot", formula="y ~ .", data={"x": [1, 2, 3, 4], "y": [2, 3, 4, 5], "C": [1, 1, 2, 2], "a b": [1, 2, 2, 1]}, ctx={}),
    dict(kind="dot", formula="log(y) + `a b` ~ .", data={"x": [1, 2, 3, 4], "y": [2, 3, 4, 5], "a b": [1, 2, 2, 1]}, ctx={}),
    dict(kind="dot", formula="log(`a b`) ~ .", data={"x": [1, 2, 3, 4], "a b": [1, 2, 2, 1]}, ctx={}),
    dict(kind="dot", formula="log(C) ~ .", data={"x": [1, 2, 3, 4], "C": [1, 2, 2, 1]}, ctx={}),
]


def cases(rng, tier):
    n = {"quick": 260, "thorough": 4000, "search": 150}[tier]
    # the known shapes first (cheap; makes the evidence independent of luck)
    yield from FIXED
    for _ in range(n):
        data, ctx = gen_env(rng)
        g = Gen(rng, data, ctx, wild=rng.random() < 0.3)
        # how the caller supplies the context: plain dict or (nested / named / captured) LayeredMapping
        form = rng.choice(["dict", "dict", "lm", "lm", "nested", "named", "captured", "captured"]) if ctx else rng.choice(["dict", "dict", "captured"])
        shape = dict(ctx_form=form, ctx_split=rng.randint(0, len(ctx)))
        if rng.random() < 0.15:
            lhs = " + ".join(g.factor() for _ in range(rng.choice([1, 1, 2])))
            yield dict(kind="dot", formula=f"{lhs} ~ {rng.choice(['.', '.', '0 + .'])}", data=data, ctx=ctx, **shape)
            continue
        terms = [g.term() for _ in range(rng.randint(1, 4))]
        f = " + ".join(terms)
        if rng.random() < 0.25:
            f = g.factor() + " ~ " + f
        if rng.random() < 0.1:
            f = "0 + " + f if "~" not in f else f.replace("~ ", "~ 0 + ", 1)
        yield dict(kind="formula", formula=f, data=data, ctx=ctx, **shape)


def describe(c):
    f = c["formula"]
    tags = [c["kind"]]
    if "`" in f:
        tags.append("quoted")
    if "{" in f:
        tags.append("braces")
    if "(" in f:
        tags.append("call")
    if any(k in c["data"] for k in SPECIAL_COLS):
        tags.append("col~builtin")
    if any(k in c["data"] for k in c["ctx"]):
        tags.append("ctx-shadows-data")
    elif c["ctx"]:
        tags.append("ctx")
    if c.get("ctx_form", "dict") != "dict":
        tags.append("ctx=" + c["ctx_form"])
    return ",".join(tags)


def nontrivial(c):
    return "(" in c["formula"] or "{" in c["formula"] or "`" in c["formula"] or bool(c["ctx"])


# ----------------------------------------------------------------------------- implementation side


def _varlist(vs, with_source=True):
    out = []
    for v in vs:
        row = [str(v), "value" in {r.value for r in v.roles}, "callable" in {r.value for r in v.roles}]
        if with_source:
            row.append(v.source)
        out.append(row)
    return sorted(out, key=lambda r: r[0])


def _outcome(fn):
    """run one materialisation; canonical outcome"""
    from formulaic.errors import FactorEvaluationError

    try:
        mm = fn()
    except FactorEvaluationError as e:
        cause = type(e.__cause__).__name__ if e.__cause__ is not None else "None"
        return dict(error="FactorEvaluationError", cause=cause), None
    except Exception as e:
        return dict(error=type(e).__name__, msg=str(e)[:120]), None
    return None, mm


def _specs(ms):
    out = []
    if hasattr(ms, "_map"):
        ms._map(lambda s: out.append(s))
    else:
        out.append(ms)
    return out


def _spec_obs(ms):
    from formulaic.utils.variables import Variable

    specs = _specs(ms)
    allvars = Variable.union(*(s.variables for s in specs))
    by = collections.defaultdict(set)
    for s in specs:
        for src, vs in s.variables_by_source.items():
            by[src] |= {str(v) for v in vs}
    return dict(
        ok=True,
        vars=_varlist(allvars),
        req=sorted(str(v) for v in ms.required_variables),
        by_source=sorted(([k, sorted(v)] for k, v in by.items()), key=lambda kv: str(kv[0])),
    )


def _run(spec, df, ctx):
    from formulaic.materializers import PandasMaterializer

    err, mm = _outcome(lambda: PandasMaterializer(df, context=ctx).get_model_matrix(spec, na_action="ignore"))
    if err:
        return err, None
    return _spec_obs(mm.model_spec), mm


def _sweep(spec, df, ctx, names):
    keep = [c for c in df.columns if c in set(names)]
    restricted, _ = _run(spec, df[keep], ctx)
    removed = []
    for v in names:
        o, _ = _run(spec, df.drop(columns=[v]) if v in df.columns else df, ctx)
        removed.append([v, o])
    return dict(restricted=restricted, removed=removed)


def _factors(formula):
    out = []
    seen = []

    def one(sf):
        for term in sf:
            for f in term.factors:
                out.append(f)

    if hasattr(formula, "_map"):
        formula._map(one)
    else:
        one(formula)
    return out


def _columns(mm):
    """{column name: values} over all parts (first occurrence wins)"""
    cols = {}
    parts = []
    if hasattr(mm, "_map"):
        mm._map(lambda m: parts.append(m))
    else:
        parts.append(mm)
    for m in parts:
        for name in m.columns:
            if name not in cols:
                cols[name] = [float(x) for x in numpy.asarray(m[name]).reshape(-1)[:NROWS]] if list(m.columns).count(name) == 1 else None
    return cols


def _alias_contract(c, factors):
    """contract of `sanitize_variable_names` the model assumes (Spec.Variables.AliasOK): sanitised names are
    pairwise distinct identifiers bound in no layer, are not themselves back-quoted names, and a name that had to be
    sanitised is not a builtin. Returns None or a description of the violation."""
    from formulaic.transforms import TRANSFORMS

    for f in factors:
        code = f.get("code")
        if not code:
            continue
        news = [a[0] for a in code["aliases"]]
        olds = [a[1] for a in code["aliases"]]
        if len(set(news)) != len(news):
            return f"duplicate sanitised names in {f['x']!r}"
        for new, old in code["aliases"]:
            if new == old:
                continue
            if not new.isidentifier() or "." in new:
                return f"sanitised name {new!r} is not an identifier"
            if new in c["data"] or new in c["ctx"] or new in TRANSFORMS or hasattr(_builtins, new) or hasattr(_builtins, old):
                return f"sanitised name {new!r} (for {old!r}) is already bound"
            if new in olds:
                return f"sanitised name {new!r} is itself a back-quoted name"
    return None


def impl(c):
    from formulaic import Formula
    from formulaic.materializers import PandasMaterializer
    from formulaic.utils.variables import _get_ast_node_variables

    df = frame(c["data"])
    ctx = build_context(c)
    if c["kind"] == "dot":
        return impl_dot(c, df, ctx)
    try:
        F = Formula(c["formula"])
    except Exception as e:
        return dict(parse_error=type(e).__name__)
    fs = _factors(F)
    factors, bfs = [], []
    for f in fs:
        m = f.eval_method.value
        d = dict(x=f.expr, m=m)
        if m == "python":
            d["code"] = code_json(f.expr)
            tree, aliases, _ = pycode(f.expr)
            if tree is None:
                bfs.append(None)
            else:
                try:
                    vs = _get_ast_node_variables(tree, aliases)
                    bfs.append([[str(v), "value" in {r.value for r in v.roles}, "callable" in {r.value for r in v.roles}, None] for v in vs])
                except Exception as e:
                    bfs.append(dict(error=type(e).__name__))
        else:
            bfs.append(None)
        factors.append(d)
    out = dict(factors=factors, bfs=bfs, ctx_desc=describe_context(ctx))
    # before materialisation
    try:
        pre = F.required_variables
        out["pre"] = dict(vars=_varlist(pre, with_source=False))
    except Exception as e:
        pre = None
        out["pre"] = dict(error=type(e).__name__)
    out["contract"] = _alias_contract(c, factors)
    full, mm = _run(F, df, ctx)
    out["full"] = full
    if "error" in full:
        out["error"] = f"{full['error']}<-{full.get('cause')}"
    if pre is not None:
        out["pre"].update(_sweep(F, df, ctx, sorted(str(v) for v in pre)))
    if mm is not None:
        out["post"] = _sweep(mm.model_spec, df, ctx, full["req"])
        out["columns"] = _columns(mm)
    else:
        out["post"] = None
    return out


def impl_dot(c, df, ctx):
    from formulaic import Formula
    from formulaic.materializers import PandasMaterializer
    from formulaic.parser.algos.sanitize_tokens import sanitize_tokens
    from formulaic.parser.algos.tokenize import tokenize

    mat = PandasMaterializer(df, context=ctx)
    try:
        toks = list(sanitize_tokens(tokenize(c["formula"])))
    except Exception as e:
        return dict(parse_error=type(e).__name__)
    lhs = []
    for t in toks:
        if t.token == "~":
            break
        k = t.kind.value
        d = dict(text=t.token, kind=k if k in ("name", "python") else "other")
        if k == "python":
            d["code"] = code_json(t.token)
        lhs.append(d)
    out = dict(lhs=lhs)
    try:
        F = Formula.from_spec(c["formula"], context=mat.layered_context)
    except Exception as e:
        out["parse_error"] = type(e).__name__
        return out
    out["terms"] = [[f.expr for f in t.factors] for t in F.rhs if str(t) != "1"]
    out["lhs_factors"] = [dict(x=f.expr, m=f.eval_method.value) for t in F.lhs for f in t.factors]
    err, mm = _outcome(lambda: mat.get_model_matrix(F, na_action="ignore"))
    out["full"] = err or dict(ok=True)
    return out


def request(c, o):
    if "parse_error" in o and "lhs" not in o:
        return dict(op="none")
    if c["kind"] == "dot":
        return dict(op="dot", lhs=o["lhs"], cols=list(c["data"]))
    return dict(op="formula", factors=o["factors"], data=list(c["data"]), context=o["ctx_desc"], builtins=BUILTIN_NAMES)


# ----------------------------------------------------------------------------- model vs implementation


_SUFFIX = re.compile(r"^(_?\w*?)_[abcefghiklmnopqrstuvwxyz]{10}(\..*)$")


def _norm_name(n):
    """`sanitize_variable_name` appends a random 10-letter suffix when the sanitised name is already bound (second
    occurrence of the same back-quoted name in one expression); the suffix only ever leaks through finding C17-F2."""
    m = _SUFFIX.match(n)
    return m.group(1) + m.group(2) if m else n


def _norm_vars(vs, with_source=True):
    rows = {}
    for v in vs:
        rows.setdefault(_norm_name(v[0]), [_norm_name(v[0]), v[1], v[2]] + ([v[3]] if with_source else []))
    return sorted(rows.values(), key=lambda r: r[0])


def _cmp_run(tag, io, mo, compare_vars=True):
    """one materialisation outcome: impl vs model.

    The model's operations never fail, so it predicts `ok` or `FactorEvaluationError <- NameError`.
    * model ok: the implementation must not fail with NameError (it may fail because an operation fails: that is a
      parameter of the model); if it succeeds the reported variables must be equal.
    * model NameError: the implementation must fail as well (FactorEvaluationError caused by NameError, or an operation /
      the encoding of an earlier factor's value failing before the unbound name is reached)."""
    if io is None or mo is None:
        return None if io is None and mo is None else f"{tag}: one side has no run"
    i_fee = io.get("error") == "FactorEvaluationError"
    if "error" in mo:
        # the implementation must fail too: with FactorEvaluationError, or - when an earlier factor evaluated to
        # something that cannot be a column (e.g. a builtin function un-shadowed by the removal) - with whatever the
        # encoding of that value raises before the unbound name is reached (outside the model: counted, accepted)
        if "error" not in io:
            return f"{tag}: model fails ({mo.get('cause')}) but the implementation succeeds"
        return None
    if i_fee and io.get("cause") == "NameError":
        return f"{tag}: implementation fails with NameError, the model finds every name bound"
    if "error" in io:
        return None
    if not compare_vars:
        return None
    if _norm_vars(io["vars"]) != _norm_vars(mo["vars"]):
        return f"{tag}: variables differ: impl {_norm_vars(io['vars'])} vs model {_norm_vars(mo['vars'])}"
    if sorted(io["req"]) != sorted(mo["req"]):
        return f"{tag}: required_variables differ: impl {sorted(io['req'])} vs model {sorted(mo['req'])}"
    ib = sorted(([k, sorted(v)] for k, v in io["by_source"]), key=lambda kv: str(kv[0]))
    mb = sorted(([k, sorted(v)] for k, v in mo["by_source"]), key=lambda kv: str(kv[0]))
    if ib != mb:
        return f"{tag}: variables_by_source differ: impl {ib} vs model {mb}"
    return None


def _cmp_sweep(tag, isw, msw, compare_vars=True):
    w = _cmp_run(tag + " restricted", isw["restricted"], msw["restricted"], compare_vars)
    if w:
        return w
    md = {k: v for k, v in msw["removed"]}
    for v, o in isw["removed"]:
        if v not in md:
            return f"{tag}: model has no run without {v!r}"
        w = _cmp_run(f"{tag} without {v!r}", o, md[v], compare_vars)
        if w:
            return w
    return None


def agree(c, o, m):
    if "driver_error" in m:
        return "driver: " + m["driver_error"][:300]
    if "parse_error" in o and "lhs" not in o:
        return None
    if c["kind"] == "dot":
        if "parse_error" in o:
            return None if "error" in m else f"impl {o['parse_error']} vs model terms"
        if "error" in m:
            return f"model {m['error']} vs impl terms"
        return None if o["terms"] == m["terms"] else f"`.` expansion differs: impl {o['terms']} vs model {m['terms']}"
    if o.get("contract"):
        return "contract of sanitize_variable_names not met on this case: " + o["contract"]
    if o["bfs"] != m["bfs"]:
        return f"_get_ast_node_variables differs: impl {o['bfs']} vs model {m['bfs']}"
    if "error" in o["pre"] or "error" in m["pre"]:
        if o["pre"].get("error") != m["pre"].get("error"):
            return f"required_variables (before): impl {o['pre'].get('error', 'ok')} vs model {m['pre'].get('error', 'ok')}"
    else:
        if _norm_vars(o["pre"]["vars"], False) != _norm_vars(m["pre"]["vars"], False):
            return f"required_variables (before) differ: impl {_norm_vars(o['pre']['vars'], False)} vs model {_norm_vars(m['pre']['vars'], False)}"
        w = _cmp_sweep("before-set", o["pre"], m["pre"])
        if w:
            return w
    w = _cmp_run("full data", o["full"], m["full"])
    if w:
        return w
    if o["post"] is not None and m["post"] is not None:
        # the after-set runs re-use the ModelSpec, whose recorded structure (hence `.variables`) is that of the
        # first materialisation: only the outcome is compared there
        w = _cmp_sweep("after-set", o["post"], m["post"], compare_vars=False)
        if w:
            return w
    return None


# ----------------------------------------------------------------------------- oracle (implementation only)


def _layer_of(key, c, without=None):
    from formulaic.transforms import TRANSFORMS

    if key in c["data"] and key != without:
        return "data"
    if key in c["ctx"]:
        return _ctx_source(key, c)
    if key in TRANSFORMS:
        return "transforms"
    return None


def _occurrences(factors):
    """every place a factor list reads a key of the environment, found by an independent walk:
    (key, where, dotted) with where = 'lookup' | 'python'; key = the (de-aliased) identifier of a Name node or
    the name of a lookup factor; dotted = the Name node is the base of an attribute access."""
    occ = []
    for f in factors:
        if f["m"] == "lookup":
            occ.append((f["x"], "lookup", False))
        elif f["m"] == "python":
            tree, aliases, _ = pycode(f["x"])
            if tree is None:
                continue
            bases = {id(n.value) for n in ast.walk(tree) if isinstance(n, ast.Attribute)}
            for n in ast.walk(tree):
                if isinstance(n, ast.Name):
                    occ.append((aliases.get(n.id, n.id), "python", id(n) in bases))
    return occ


def _reads(factors):
    return list(dict.fromkeys(k for k, _w, _d in _occurrences(factors)))


def _bound_below(v, c):
    """a layer below the data (context, transforms, Python's builtins) binds `v`"""
    from formulaic.transforms import TRANSFORMS

    return v in c["ctx"] or v in TRANSFORMS or hasattr(_builtins, v)


def _ok(o):
    return o is not None and "error" not in o


def _expected_column(f, c):
    """independent evaluation of a single factor over data > context > transforms (or None)"""
    from formulaic.transforms import TRANSFORMS

    df = frame(c["data"])
    env = collections.ChainMap({k: df[k] for k in df.columns}, {k: ctx_value(s) for k, s in c["ctx"].items()}, dict(TRANSFORMS))
    try:
        if f["m"] == "lookup":
            v = env[f["x"]]
        else:
            tree, aliases, s = pycode(f["x"])
            local = {new: env[old] for new, old in aliases.items() if new != old and old in env}
            v = eval(compile(tree, "", "eval"), {}, collections.ChainMap(local, env))  # noqa: S307
        a = numpy.asarray(v, dtype=float)
    except Exception:
        return None
    if a.shape != (NROWS,):
        return None
    return [float(x) for x in a]


def diagnose(c, o):
    """first way in which the implementation's observables contradict the property: (kind, details) or None"""
    if "harness_exception" in o:
        return ("harness", dict(msg=o["harness_exception"]))
    if "parse_error" in o and "lhs" not in o:
        return None  # the formula string itself is rejected: outside C17
    if c["kind"] == "dot":
        if "parse_error" in o:
            return ("dot-rejected", dict(error=o["parse_error"]))
        reads = _reads(o["lhs_factors"])
        want = [[col] for col in c["data"] if col not in reads]
        if o["terms"] != want:
            got = [t[0] for t in o["terms"] if len(t) == 1]
            return ("dot", dict(got=o["terms"], want=want, extra=[g for g in got if [g] not in want], missing=[w[0] for w in want if w not in o["terms"]]))
        return None
    reads = _reads(o["factors"])
    data_reads = [k for k in reads if k in c["data"]]
    if "error" in o["pre"]:
        return ("pre-error", dict(error=o["pre"]["error"]))
    full = o["full"]
    unbound = [k for k in reads if _layer_of(k, c) is None and not hasattr(_builtins, k)]
    if unbound and _ok(full):
        return ("unbound-ok", dict(names=unbound))
    if not unbound and full.get("error") == "FactorEvaluationError" and full.get("cause") == "NameError":
        return ("bound-nameerror", {})
    if unbound and full.get("error") != "FactorEvaluationError":
        return ("unbound-wrong-class", dict(names=unbound, error=full.get("error")))
    if not _ok(full):
        return None  # not materialisable on the full data: sufficiency/necessity say nothing
    for tag, sw, names in (("before", o["pre"], [v[0] for v in o["pre"]["vars"]]), ("after", o["post"], full["req"])):
        r = sw["restricted"]
        if not _ok(r):
            return ("insufficient", dict(tag=tag, names=sorted(names), missing=sorted(set(data_reads) - set(names)),
                                         error=r.get("error"), cause=r.get("cause")))
        for v, r in sw["removed"]:
            base = v if v in c["data"] else v.split(".", 1)[0]
            # assumption: a name that a lower layer also binds is exempt. After materialisation the sources are
            # known, so this only applies to reported names that really are data columns (removing them un-shadows
            # the lower binding); before materialisation it also covers names the context/builtins will provide.
            if (_bound_below(v, c) or _bound_below(base, c)) and (tag == "before" or v in c["data"]):
                # un-shadowing: the name must now resolve to the next layer (observable on a fresh materialisation)
                if tag == "before" and _ok(r) and v in c["data"] and any(k == v and not d for k, _w, d in _occurrences(o["factors"])):
                    src = {x[0]: x[3] for x in r["vars"]}
                    want = _layer_of(v, c, without=v)
                    if v in src and src[v] != want:
                        return ("reshadow", dict(v=v, want=want, got=src[v]))
                continue
            if r.get("error") != "FactorEvaluationError":
                return ("unnecessary", dict(tag=tag, v=v, outcome=r.get("error", "success")))
    for name, _val, _call, src in full["vars"]:
        cands = [k for k in reads if name == k or name.startswith(k + ".")]
        if not cands:
            return ("source-noread", dict(name=name, reads=reads))
        if src not in {_layer_of(k, c) for k in cands}:
            return ("source-wrong", dict(name=name, src=src, truth=sorted({str(_layer_of(k, c)) for k in cands})))
    for k in reads:
        lay = _layer_of(k, c)
        if lay is not None and not any((name == k or name.startswith(k + ".")) and src == lay for name, _v, _c, src in full["vars"]):
            return ("read-unreported", dict(k=k, layer=lay))
    cols = o.get("columns") or {}
    for f in o["factors"]:
        if f["m"] == "literal" or any(t in f["x"] for t in ("center(", "scale(")):
            continue
        want, got = _expected_column(f, c), cols.get(f["x"])
        if want is None or got is None or len(got) != len(want):
            continue
        if not numpy.allclose(got, want, rtol=1e-9, atol=1e-9, equal_nan=True):
            return ("value", dict(col=f["x"], got=got, want=want))
    return None


def oracle(c, o):
    d = diagnose(c, o)
    if d is None:
        return None
    k, x = d
    if k == "harness":
        return "harness could not run the implementation: " + x["msg"]
    if k == "dot-rejected":
        return f"`lhs ~ .` rejected with {x['error']}"
    if k == "dot":
        return f"`.` expanded to {x['got']}; data columns not used on the left-hand side, in data order: {x['want']}"
    if k == "pre-error":
        return f"Formula.required_variables raised {x['error']}"
    if k == "unbound-ok":
        return f"names {x['names']} are bound in no layer but the materialisation succeeded"
    if k == "bound-nameerror":
        return "every name is bound in some layer but the materialisation failed with NameError"
    if k == "unbound-wrong-class":
        return f"unbound names {x['names']}: expected a factor-evaluation error, got {x['error']}"
    if k == "insufficient":
        return (f"not sufficient ({x['tag']} materialisation): reported {x['names']}; on the data restricted to these columns the "
                f"materialisation fails with {x['error']}/{x['cause']} (data columns read but not reported: {x['missing']})")
    if k == "unnecessary":
        return (f"not necessary ({x['tag']} materialisation): reported variable {x['v']!r}; without it the materialisation gives "
                f"{x['outcome']} instead of a factor-evaluation error")
    if k == "reshadow":
        return f"with data column {x['v']!r} removed the name should resolve to the {x['want']} layer, reported source {x['got']!r}"
    if k == "source-noread":
        return f"reported variable {x['name']!r} corresponds to no name the formula reads ({x['reads']})"
    if k == "source-wrong":
        return f"variable {x['name']!r} reported with source {x['src']!r}, its value comes from {x['truth']}"
    if k == "read-unreported":
        return f"{x['k']!r} is read from the {x['layer']} layer but no reported variable says so"
    if k == "value":
        return f"column {x['col']!r} = {x['got']}, resolution data > context > transforms gives {x['want']}"
    return str(d)


# ----------------------------------------------------------------------------- known findings


def _signatures(c, factors):
    """data columns that occur in Python code in one of the three known-defective ways"""
    from formulaic.transforms import TRANSFORMS

    f1, f2, f3 = set(), set(), set()
    for k, where, dotted in _occurrences(factors):
        if where != "python" or k not in c["data"]:
            continue
        if dotted:
            f2.add(k)
        else:
            if k.split(".", 1)[0] in TRANSFORMS:
                f1.add(k)
            if "." in k:
                f3.add(k)
    return f1, f2, f3


def classify(c, o, why):
    """C17-F1  a data column whose name (up to the first '.') is a key of TRANSFORMS is used as a value inside Python
               code: filtered out of Formula.required_variables / of the left-hand-side variables of `.`;
       C17-F2  attribute access or method call on a data column inside Python code: reported under the dotted name
               (`x.T`, source data) instead of the column, or dropped (callable role, before materialisation);
       C17-F3  a back-quoted data column whose name contains '.' inside Python code: its source is looked up under
               the part before the first '.'."""
    d = diagnose(c, o)
    if d is None:
        return None  # a model/implementation disagreement without a property failure is never a known finding
    k, x = d
    factors = o["lhs_factors"] if c["kind"] == "dot" else o["factors"]
    f1, f2, f3 = _signatures(c, factors)
    if k == "dot":
        if x["missing"] or not x["extra"]:
            return None
        ids = ["C17-F2" if e in f2 else "C17-F1" if e in f1 else None for e in x["extra"]]
        return ids[0] if all(ids) else None
    if k == "insufficient":
        if not x["missing"]:
            return None
        ids = []
        for m in x["missing"]:
            if m in f2:
                ids.append("C17-F2")
            elif m in f1 and x["tag"] == "before":
                ids.append("C17-F1")
            elif m in f3 and x["tag"] == "after":
                ids.append("C17-F3")
            else:
                ids.append(None)
        return ids[0] if all(ids) else None
    if k == "unnecessary":
        v = x["v"]
        if v in c["data"] or "." not in v:
            return None
        base = v.split(".", 1)[0]
        return "C17-F2" if any(base == b or base.startswith(sanitized(b)) for b in f2) else None
    if k == "source-noread":
        base = x["name"].split(".", 1)[0]
        return "C17-F2" if "." in x["name"] and any(not b.isidentifier() and base.startswith(sanitized(b)) for b in f2) else None
    if k == "source-wrong":
        return "C17-F3" if x["name"] in f3 else None
    if k == "reshadow":
        return "C17-F3" if x["v"] in f3 else None
    if k == "read-unreported":
        if x["layer"] != "data":
            return None
        return "C17-F2" if x["k"] in f2 else "C17-F3" if x["k"] in f3 else None
    return None


def sanitized(name):
    from formulaic.utils.code import sanitize_variable_name

    return sanitize_variable_name(name, {})


LEVEL_TEXT = (
    "Proof: Lean theorems (Props/C17.lean) about the executable model of variables.py / required_variables / the three-layer "
    "context / stateful_eval's name handling show, for ALL expressions of the strict Python fragment, all alias tables and all "
    "layer contents: lookup returns the value of the first of data, context, transforms containing the key and the reported "
    "source is that layer's name; evaluation depends only on the values of the free names and fails whenever one is unbound; "
    "the breadth-first extraction terminates and covers every Name node; hence the reported sets are sufficient and necessary "
    "under explicitly stated side conditions (each side condition is a reported finding or assumption); `.` is the duplicate-free "
    "list of data columns not among the left-hand-side variables, in data order. The model is tied to the code by a differential "
    "correspondence on every run and the property is checked on the real objects by the oracle."
)
LEVEL_NOTE = (
    "Partial: CPython's parser, the back-quote sanitiser and the semantics of operations on values are parameters; name "
    "resolution inside comprehensions/lambdas/short-circuit operators is not modelled (generator stays in the strict fragment)."
)
