"""C17 — Required variables, name resolution order and '.' expansion are exact.

Correspondence stream `c17` (two request kinds, dispatched on "op"):
  formula  a generated formula (plain, back-quoted and dotted names, nested calls, attribute access, `{}`
           expressions, lambdas and the four kinds of comprehension with local names that may coincide with data
           columns or context entries, `Q("name")`, several right-hand parts) x a data column set x a context mapping
           (plain dict, nested / named / grown-in-place / frame-captured LayeredMapping, a sub-layer that is itself
           called `data`) that shadows or extends the data, the built-in transforms and Python's builtins, occasionally
           binding one of the names `stateful_eval` reserves. On the REAL objects: `Formula.required_variables` and
           `ModelSpec.from_spec(formula).required_variables` (before), `_get_ast_node_variables` per Python factor
           (ordered), materialisation with `PandasMaterializer(data, context)`, `ModelSpec(s).variables /
           required_variables / variables_by_source / factor_variables` (after), re-materialisation on the data
           restricted to the reported set and with each reported member removed (before-set with the Formula,
           after-set with the ModelSpec), the named-layer lookups `layered_context.<name>` / `named_layers`, and what
           a caller-supplied stateful transform finds in the `_context` it is handed. The Lean model
           (`Model.Variables`) gets the same factors, grouped by part — the CPython `ast` tree of every Python factor
           after the real `sanitize_variable_names` (CPython's parser and the sanitiser are parameters) — plus the key
           lists of the layers, and must predict every one of these observables; for outcomes it predicts `ok` /
           `FactorEvaluationError` caused by `NameError`, `UnboundLocalError` or the reserved-name `RuntimeError`
           (failures of the operations themselves are a parameter of the model: accepted and counted).
  dot      `lhs ~ rhs` with one to three occurrences of `.` on the right-hand side (sums, interactions, powers,
           parentheses, several parts), parsed with the materializer's layered context, with an explicit
           `__formulaic_variables_available__`, or with no information at all; the model runs the WHOLE parser model
           (`formulaOfString`) with the evaluation context as a value: available = keys of the layer called `data`
           (computed by the named-layers model), left-hand-side variables = `tokenRequired` of the CPython trees;
           compared: the structured Formula and `ModelSpec.required_variables` of every part.

  history  2-4 formulas (two-sided and one-sided, with `.`) parsed and materialised one after the other with ONE context
           object: a Pandas / Narwhals materializer's `layered_context`, a layered mapping of the caller's own making with
           a layer called `data`, or a plain dict naming the available variables; parsers with and without a context of
           their own. The model runs `Dot.parseHistory` (every parse reads the caller's context through a fresh layer);
           compared per step: the structured Formula, the outcome and `required_variables` of every part; the keys of the
           context before / after every step are recorded (compared when `C17_CONTEXT_UNCHANGED=1`).

Oracle (implementation only, never looks at the model): sufficiency and necessity of both reported sets
against real materialisations, the reported source of every variable against an independent scope-aware walk of the
expression's free `Name` nodes (cross-checked with the compiler's symbol tables) through data > context >
transforms, the materialised single-factor columns against an independent `eval` over one flat namespace, a
materialisation that fails although every factor evaluates independently, the named layers against the case, the
`_context` of stateful transforms against the three layers, and the `.` expansion against the formula obtained by
writing EVERY `.` out as the data columns not read by the left-hand side (in data order) and parsing it without `.`;
right-hand parts never report a response variable; in a history every step is judged on its own formula (a one-sided
formula expands `.` to ALL available columns whatever was parsed before on the same object).
"""
from __future__ import annotations

import ast
import builtins as _builtins
import collections
import os
import re
import types

import numpy
import pandas

from harness import parser_common as pc

PROPERTY = "C17"
ENGINE = "c17"
REQUIRED_THEOREMS = [
    "resolution_order",
    "context_source",
    "reported_source_is_first_layer",
    "named_layers_of_context",
    "ast_variables_fuel_sufficient",
    "ast_variables_cover_names",
    "bound_names_not_reported",
    "eval_depends_on_free_names",
    "eval_fails_on_unbound_name",
    "strict_fragment_all_strict",
    "eval_nameError_iff",
    "nested_scope_resolution",
    "restrict_sufficient",
    "remove_necessary",
    "strict_fragment_not_lazy",
    "reserved_names_rejected",
    "required_sufficient",
    "required_necessary",
    "required_before_sufficient",
    "required_before_necessary",
    "parts_required_sufficient",
    "parts_required_necessary",
    "lookup_part_reports_its_names",
    "dot_expansion",
    "dot_operator_in_table",
    "dot_every_occurrence",
    "dot_context_of_formula",
    "parse_history_independent",
]
TRUSTED = [
    "parameters of the model, not verified: CPython's parser (`ast.parse`: the harness hands the tree of every Python "
    "fragment to the model) and its scoping rules as of 3.12 (first iterable of a comprehension and lambda defaults in the "
    "enclosing scope; cross-checked per case against `symtable`), `sanitize_variable_names` (regex splitting of back-quoted "
    "names; its alias table is handed over; contract used: sanitised names are identifiers that were not bound before), "
    "`sanitize_python_code` (normal form of Python tokens, for the `.` stream), the semantics of every operation on values "
    "(`Ops`: calls, attribute access, operators, subscripts, iteration, truth values, unpacking, when closures are called; "
    "they may fail in the real code for reasons other than an unbound name; such failures are accepted and counted), "
    "`dir(builtins)`",
    "the symbolic operations of the engine give every iterable one item, make every condition hold and run every closure "
    "once: the generator only builds comprehensions over non-empty iterables whose conditions hold at least once and "
    "closures that are called",
    "not modelled: conditional expressions, `and`/`or`, chained comparisons, starred arguments, dict displays, f-strings, "
    "`:=`, attribute / subscript targets of comprehensions (the generator stays outside them); what `Q(\"name\")` does with "
    "its string (finding C17-F4: the model treats it as an opaque call); the evaluation of call targets ahead of the "
    "expression by `_is_stateful_transform` (after repair 3e3ece6 it swallows every exception and skips targets that mention "
    "a local name, so with side-effect-free operations it cannot change the outcome; the extra call it causes is visible to "
    "the harness' spy transform and discounted there); `repr`/pretty-printing, the sympy path of `differentiate`",
]
ASSUMPTIONS = [
    "necessity is claimed for reported variables that no lower layer binds: when the caller's context, the transforms or "
    "Python's builtins also bind the name, removing the data column un-shadows that binding and the evaluation "
    "legitimately proceeds with it (the harness then checks that the reported source moves to that layer)",
    "necessity is claimed for names read in strict position (`NotOnlyLazy`): a name mentioned only inside a lambda body or "
    "inside a comprehension (apart from its first iterable) need not be read — the closure may never be called, the "
    "iterable may be empty; in generated cases every such position is evaluated, so the oracle demands necessity there too",
    "before materialisation the formula cannot see the context: names the context (or Python's builtins) will provide are "
    "reported although they need not be in the data (documented in the docstring of `required_variables`); they are "
    "exempt from the necessity check by the first assumption",
    "no layer binds one of the names `stateful_eval` reserves (`Gen/C17Reserved.lean`): otherwise every Python factor is "
    "rejected (theorem `reserved_names_rejected`; such cases are generated and the rejection is compared)",
    "data columns are numeric and every term yields at least one column (ModelSpec.variables is read off the structure)",
]
RULE = (
    "formula: 2-6 data columns from {x,y,z,w} + names that collide with transforms/builtins {C,log,scale,np,center,exp,I,id,len} "
    "+ non-identifier names {`a b`,`x.y`,`1a`,`a+b`}, in 3% of the environments a reserved `__FORMULAIC_*__` name; context of "
    "0-4 entries (arrays, scalars, functions, higher-order functions, namespaces, a stateful transform that inspects its "
    "`_context`) whose names shadow data columns / transforms / builtins or are new, supplied as dict / LayeredMapping "
    "(nested, named, grown in place, with a sub-layer called `data`) / captured frame; 1-4 terms of 1-2 factors drawn from "
    "lookups (plain, quoted), calls (transform, context, dotted, nested, keyword), method calls and attribute access on "
    "columns, `{}` expressions (operators, subscripts, calls on call results, attributes of parenthesised expressions), "
    "lambdas (immediately called, with defaults, handed to a higher-order function) and list / set / dict / generator "
    "comprehensions (conditions, two generators, tuple targets) whose local names are drawn from {a,b,t,k,v} and from the "
    "data / context names, `Q(\"col\")`, optional left-hand side, optional further right-hand parts (`|`), occasional unbound "
    "name; dot: the fixed table of 12 multi-`.` formulas + `lhs ~ rhs` with 1-3 `.` in sums / interactions / parentheses / "
    "powers / several parts, left-hand side of 1-2 generated factors, context = layered (80%), explicit available list, "
    "or none; history: 2-4 steps from 7 two-sided and 6 one-sided templates over a shuffled 6-column data set (a one-sided "
    "formula always follows a two-sided one somewhere), on a materializer (pandas / narwhals), a caller-built layered mapping "
    "or a dict with an explicit available list, with or without a parser-owned context. non-trivial = a Python factor, a quoted name or a non-empty context; distinct by canonical JSON"
)

NROWS = 4
_LAST_RESORT: set = set()
TRANSFORM_CALLABLES = ["log", "exp", "center", "scale", "I"]
SPECIAL_COLS = ["C", "log", "scale", "np", "center", "exp", "I", "id", "len"]
ALIAS_COLS = ["a_b", "_1a", "x_y"]  # identifiers that the sanitised forms of the back-quoted names collide with
QUOTED_COLS = ["a b", "x.y", "1a", "a+b"]
PLAIN_COLS = ["x", "y", "z", "w"]
BUILTIN_NAMES = sorted(n for n in dir(_builtins))


def _last_resort_names():
    """what a name that no layer binds can still resolve to: Python's builtins, and the objects `stateful_eval` injects
    under its reserved names (reachable only when no layer binds those names: otherwise the factor is rejected)"""
    from harness import translate

    return BUILTIN_NAMES + [n for n in translate.c17_reserved_names() if n not in BUILTIN_NAMES]


def _is_last_resort(name):
    return name in _LAST_RESORT


RESERVED_NAMES = [
    "__FORMULAIC_CONTEXT__", "__FORMULAIC_METADATA__", "__FORMULAIC_STATE__", "__FORMULAIC_SPEC__",
]  # what the generator tries; the model uses the list read off the live function (Gen/C17Reserved.lean)


class Outside(Exception):
    """expression outside the strict fragment"""


# ----------------------------------------------------------------------------- ast -> model language


def conv(n) -> dict:
    if isinstance(n, ast.Expression):
        return conv(n.body)
    if isinstance(n, ast.Name):
        return dict(t="name", id=n.id)
    if isinstance(n, ast.Constant):
        return dict(t="const", r=repr(n.value))
    if isinstance(n, ast.Attribute):
        return dict(t="attr", v=conv(n.value), a=n.attr)
    if isinstance(n, ast.Call):
        if any(isinstance(a, ast.Starred) for a in n.args) or any(k.arg is None for k in n.keywords):
            raise Outside("starred")
        return dict(t="call", f=conv(n.func), args=[conv(a) for a in n.args], kws=[[k.arg, conv(k.value)] for k in n.keywords])
    if isinstance(n, ast.UnaryOp):
        return dict(t="unop", op=type(n.op).__name__, x=conv(n.operand))
    if isinstance(n, ast.BinOp):
        return dict(t="binop", op=type(n.op).__name__, l=conv(n.left), r=conv(n.right))
    if isinstance(n, ast.Compare):
        if len(n.ops) != 1:
            raise Outside("chained comparison")
        return dict(t="binop", op=type(n.ops[0]).__name__, l=conv(n.left), r=conv(n.comparators[0]))
    if isinstance(n, ast.Subscript):
        return dict(t="sub", v=conv(n.value), i=conv(n.slice))
    if isinstance(n, (ast.Tuple, ast.List, ast.Set)):
        if any(isinstance(e, ast.Starred) for e in n.elts):
            raise Outside("starred")
        return dict(t="seq", k=type(n).__name__, es=[conv(e) for e in n.elts])
    if isinstance(n, ast.Slice):
        return dict(t="seq", k="Slice", es=[conv(e) for e in (n.lower, n.upper, n.step) if e is not None])
    if isinstance(n, ast.Lambda):
        a = n.args
        ps = ([x.arg for x in (*a.posonlyargs, *a.args)] + ([a.vararg.arg] if a.vararg else [])
              + [x.arg for x in a.kwonlyargs] + ([a.kwarg.arg] if a.kwarg else []))
        return dict(t="lambda", ps=ps, ds=[conv(d) for d in (*a.defaults, *a.kw_defaults) if d is not None], body=conv(n.body))
    if isinstance(n, (ast.ListComp, ast.SetComp, ast.GeneratorExp, ast.DictComp)):
        gens = []
        for g in n.generators:
            if g.is_async:
                raise Outside("async comprehension")
            if isinstance(g.target, ast.Name):
                ts = [g.target.id]
            elif isinstance(g.target, ast.Tuple) and len(g.target.elts) >= 2 and all(isinstance(e, ast.Name) for e in g.target.elts):
                ts = [e.id for e in g.target.elts]
            else:
                raise Outside("comprehension target")
            gens.append(dict(ts=ts, it=conv(g.iter), ifs=[conv(x) for x in g.ifs]))
        es = [conv(n.key), conv(n.value)] if isinstance(n, ast.DictComp) else [conv(n.elt)]
        return dict(t="comp", k=type(n).__name__, es=es, gens=gens)
    raise Outside(type(n).__name__)


ENV_KEYS: list = []  # the keys of the evaluation environment of the case at hand (set by impl / the oracle helpers)


def env_keys(c, ctx=None):
    """the keys `stateful_eval` finds in its environment: data, the caller's context (as built), the transforms"""
    from formulaic.transforms import TRANSFORMS

    if not _LAST_RESORT:
        _LAST_RESORT.update(_last_resort_names())
    ctx = build_context(c) if ctx is None else ctx
    return list(c["data"]) + [str(k) for k in ctx] + list(TRANSFORMS)


def pycode(expr: str, keys=None):
    """what CPython sees of a Python fragment after the real sanitiser run against the evaluation environment (as
    `stateful_eval` does: a sanitised name must not be a key of the environment): (tree, aliases, text), or Nones
    on SyntaxError. The names reported by the library are mapped back through the aliases, so the tables obtained with
    and without environment give the same variables."""
    from formulaic.utils.code import sanitize_variable_names

    aliases: dict = {}
    try:
        s = sanitize_variable_names(expr, dict.fromkeys(ENV_KEYS if keys is None else keys), aliases)
        tree = ast.parse(s, mode="eval")
    except SyntaxError:
        return None, None, None
    return tree, aliases, s


def code_json(expr: str):
    tree, aliases, _ = pycode(expr)
    if tree is None:
        return None
    return dict(ast=conv(tree), aliases=[[k, v] for k, v in aliases.items()])


# ----------------------------------------------------------------------------- case material


def ctx_value(spec):
    k = spec["k"]
    if k == "arr":
        return numpy.array(spec["v"], dtype=float)
    if k == "num":
        return spec["v"]
    if k == "fn":
        c = spec["c"]
        return lambda *a, **kw: a[0] + c
    if k == "hof":
        return lambda v: (lambda w: v + w)
    if k == "ap":
        return lambda fn, *a: fn(*a)
    if k == "spy":
        return _make_spy()
    if k == "ns":
        return types.SimpleNamespace(**{a: ctx_value(s) for a, s in spec["attrs"].items()})
    raise ValueError(k)


# a stateful transform supplied by the caller that looks at the `_context` / `_metadata` / `_spec` / `_state` it is handed
SPY = dict(on=False, keys=[], log=[])


def _make_spy():
    from formulaic.utils.stateful_transforms import stateful_transform

    @stateful_transform
    def spy(data, *args, _context=None, _metadata=None, _spec=None, _state=None, **kwargs):
        if SPY["on"]:
            seen = [[k, k in _context, _context.get_with_layer_name(k)[1]] for k in SPY["keys"]] if hasattr(_context, "get_with_layer_name") else None
            SPY["log"].append(dict(seen=seen, spec=_spec is not None, state=isinstance(_state, dict)))
        return data + 0

    return spy


CTX_FORMS = ["dict", "lm", "nested", "named", "captured", "grown", "named-data"]
NAMED_SUBLAYER = "glob"


def _ctx_parts(c):
    """the caller's context values split into an upper ("locals") and a lower ("globals") part"""
    items = [(k, ctx_value(s)) for k, s in c["ctx"].items()]
    n = min(c.get("ctx_split", len(items)), len(items))
    return dict(items[:n]), dict(items[n:])


def build_context(c):
    """the caller's context in the form the case asks for:
    dict      a plain dict
    lm        LayeredMapping(upper, lower)                      (unnamed; the shape of capture_context())
    nested    LayeredMapping(LayeredMapping(upper), lower)      (unnamed inside unnamed)
    named     LayeredMapping(upper, LayeredMapping(lower, name="glob"))
    named-data  LayeredMapping(upper, LayeredMapping(lower, name="data"))
    grown     LayeredMapping(upper) whose `named_layers` were looked at, and which is then extended in place with
              LayeredMapping(lower, name="glob") (the cached named layers must not survive `with_layers(inplace=True)`)
    captured  capture_context(0) inside a function whose locals are the identifier keys of `upper` and whose
              globals hold everything else (the frame capture `model_matrix(..., context=<int>)` performs)"""
    from formulaic.utils.context import capture_context
    from formulaic.utils.layered_mapping import LayeredMapping

    form = c.get("ctx_form", "dict")
    upper, lower = _ctx_parts(c)
    if form == "dict":
        return {**upper, **lower}
    if form == "lm":
        return LayeredMapping(upper, lower)
    if form == "nested":
        return LayeredMapping(LayeredMapping(upper), lower)
    if form == "named":
        return LayeredMapping(upper, LayeredMapping(lower, name=NAMED_SUBLAYER))
    if form == "named-data":
        # a sub-layer of the caller's context that is itself called `data`: it must not pass for the data layer
        return LayeredMapping(upper, LayeredMapping(lower, name="data"))
    if form == "grown":
        lm = LayeredMapping(upper)
        assert lm.named_layers == {}
        lm.with_layers(LayeredMapping(lower, name=NAMED_SUBLAYER), prepend=False, inplace=True)
        return lm
    if form == "captured":
        loc = {k: v for k, v in upper.items() if k.isidentifier()}
        glob = {"capture_context": capture_context, **lower, **{k: v for k, v in upper.items() if k not in loc}}
        src = "def _f(_vals):\n" + "".join(f"    {k} = _vals[{k!r}]\n" for k in loc) + "    return capture_context(0)\n"
        exec(src, glob)  # noqa: S102
        return glob["_f"](loc)
    raise ValueError(form)


def describe_context(obj):
    """the structure of the real context object for the model: keys of plain mappings, name / mutations / layers of
    LayeredMapping objects (read off the real object)"""
    from formulaic.utils.layered_mapping import LayeredMapping

    if isinstance(obj, LayeredMapping):
        return dict(name=obj.name, muts=[str(k) for k in obj._mutations], layers=[describe_context(l) for l in obj._layers])
    return [str(k) for k in obj]


def _ctx_source(key, c):
    """independent statement of the source a context key must be reported with: `context`, extended by the names of
    the named sub-layers on the way to the layer holding the key"""
    form = c.get("ctx_form", "dict")
    if form in ("named", "grown", "named-data"):
        upper, lower = _ctx_parts(c)
        if key not in upper and key in lower:
            return "context:" + ("data" if form == "named-data" else NAMED_SUBLAYER)
    return "context"


def frame(data: dict) -> pandas.DataFrame:
    return pandas.DataFrame({k: numpy.array(v, dtype=float) for k, v in data.items()}, index=range(NROWS))


def first_binding(name, data, ctx):
    """kind of the first layer's value for `name`: 'num' | 'fn' | 'hof' | 'ns' | 'mod' | None"""
    from formulaic.transforms import TRANSFORMS

    if name in data:
        return "num"
    if name in ctx:
        k = ctx[name]["k"]
        return "num" if k in ("arr", "num") else "fn" if k == "spy" else k
    if name in TRANSFORMS:
        return "mod" if name == "np" else "fn"
    if name in ("abs",):
        return "fn"
    return None


def q(name):
    return name if name.isidentifier() else f"`{name}`"


class Gen:
    """formula text generator for one environment.

    mode 'clean' keeps away from the three known findings (no attribute access / method call on a data column,
    no transform-named data column inside Python code, no back-quoted dotted name inside Python code);
    mode 'wild' uses everything."""

    def __init__(self, rng, data, ctx, wild):
        from formulaic.transforms import TRANSFORMS

        self.rng, self.data, self.ctx, self.wild = rng, data, ctx, wild
        names = list(data) + [k for k in ctx if k not in data]
        kind = {n: first_binding(n, data, ctx) for n in names}
        # names whose first binding is a numeric vector / a scalar
        self.vecs = [n for n in names if kind[n] == "num" and (n in data or ctx[n]["k"] == "arr")]
        self.scalars = [n for n in names if kind[n] == "num" and n not in data and ctx[n]["k"] == "num"]
        # vectors usable inside Python code
        self.pyvecs = [
            n for n in self.vecs
            if wild or n not in data or (n.split(".", 1)[0] not in TRANSFORMS and not ("." in n))
        ] or [n for n in self.vecs if n in PLAIN_COLS]
        # vectors on which attribute access / method calls are generated
        self.attrvecs = [n for n in self.pyvecs if wild or n not in data]
        self.fns = list(dict.fromkeys(n for n in list(ctx) + TRANSFORM_CALLABLES + ["abs"] if first_binding(n, data, ctx) == "fn"))
        self.ctx_fns = [n for n in ctx if first_binding(n, data, ctx) == "fn"]
        self.hofs = [n for n in ctx if first_binding(n, data, ctx) == "hof"]
        self.aps = [n for n in ctx if first_binding(n, data, ctx) == "ap"]
        # builtins that are not shadowed by a layer (used around comprehensions)
        self.sum_ok = first_binding("sum", data, ctx) is None
        self.zip_ok = first_binding("zip", data, ctx) is None
        self.nss = [n for n in ctx if first_binding(n, data, ctx) == "ns"]
        self.np_ok = first_binding("np", data, ctx) == "mod"
        self.unbound = rng.random() < 0.08

    # vector-valued expressions inside Python code
    def local(self):
        """a local name (lambda parameter / comprehension target): sometimes the name of a data column or context entry"""
        r = self.rng
        pool = ["a", "b", "t", "k", "v"] + [n for n in list(self.data) + list(self.ctx) if n.isidentifier()]
        return r.choice(pool)

    def scoped(self, depth):
        """a vector-valued expression with a binding construct: every closure is called, every iterable is non-empty and
        every condition holds at least once, so each sub-expression is evaluated"""
        r = self.rng
        p = r.random()
        a, b = self.local(), self.local()
        while b == a:
            b = self.local()
        vec = q(r.choice(self.pyvecs))
        inner = lambda: self.val(depth + 1)  # noqa: E731  (may mention the local names: they then denote the local value)
        if p < 0.22:
            return f"(lambda {a}: {a} + {inner()})({self.val(depth + 1)})"
        if p < 0.32:
            return f"(lambda {a}, {b}={self.val(depth + 1)}: {a} * {b} + {inner()})({self.val(depth + 1)})"
        if p < 0.42 and self.aps:
            return f"{r.choice(self.aps)}(lambda {a}: {a} - {inner()}, {self.val(depth + 1)})"
        if not self.sum_ok:
            return f"(lambda {a}: {a} + {inner()})({self.val(depth + 1)})"
        if p < 0.56:
            cond = r.choice(["", "", f" if {a} > 0", f" if {a} == {a}"])
            return f"sum([{a} * {inner()} for {a} in {vec}{cond}])"
        if p < 0.66:
            return f"sum({a} + {inner()} for {a} in {vec})"
        if p < 0.76:
            return f"sum([{a} * {b} + {inner()} for {a} in {vec} for {b} in [1, 2]])"
        if p < 0.84 and self.zip_ok:
            return f"sum([{a} * {b} for {a}, {b} in zip({vec}, [{inner()}, {inner()}])])"
        if p < 0.92:
            return f"sum({{{a}: {inner()} for {a} in [1, 2]}}.values())"
        if p < 0.96:
            sc = r.choice(self.scalars) if self.scalars else "2"
            return f"({self.val(depth + 1)} * sum({{{a} + {sc} for {a} in [1, {sc}]}}))"
        return f"sum([{a} for {a} in [{inner()}, {self.val(depth + 1)}]])"

    def val(self, depth=0):
        r = self.rng
        if self.unbound and r.random() < 0.3:
            return "zz"
        p = r.random()
        if depth < 2 and r.random() < 0.12:
            return self.scoped(depth)
        if depth < 2 and p < 0.22:
            return self.callexpr(depth + 1)
        if p < 0.34 and self.attrvecs:
            n = r.choice(self.attrvecs)
            return r.choice([f"{q(n)}.T", f"{q(n)}.clip(0)", f"{q(n)}.astype(float)"])
        if p < 0.40 and depth < 2:
            return f"({self.val(depth + 1)} + {self.val(depth + 1)})"
        if p < 0.45:
            return f"{q(r.choice(self.pyvecs))}[0:4]"
        if p < 0.50 and self.nss:
            return f"{r.choice(self.nss)}.v"
        if p < 0.55 and self.scalars and depth < 2:
            return f"({self.val(depth + 1)} * {r.choice(self.scalars)})"
        return q(r.choice(self.pyvecs))

    def callee(self):
        r = self.rng
        opts = []
        if self.fns:
            opts += [r.choice(self.fns)] * 4
        if self.np_ok:
            opts += [r.choice(["np.log", "np.exp", "np.abs"])] * 2
        if self.nss:
            opts += [r.choice(self.nss) + ".f"] * 2
        return r.choice(opts) if opts else "zz_f"

    def callexpr(self, depth=0):
        r = self.rng
        p = r.random()
        if p < 0.10 and self.hofs:
            return f"{r.choice(self.hofs)}({self.val(depth + 1)})({self.val(depth + 1)})"
        if p < 0.18 and self.ctx_fns:
            return f"[{r.choice(self.ctx_fns)}][0]({self.val(depth + 1)})"
        if p < 0.26:
            return f"({self.val(depth + 1)} + {self.val(depth + 1)}).clip(0)"
        if p < 0.36 and self.ctx_fns:
            return f"{r.choice(self.ctx_fns)}({self.val(depth + 1)}, k={self.val(depth + 1)})"
        if p < 0.42 and self.ctx_fns:
            return f"{r.choice(self.ctx_fns)}({self.val(depth + 1)}).clip(0)"
        return f"{self.callee()}({self.val(depth + 1)})"

    def factor(self):
        r = self.rng
        p = r.random()
        if r.random() < 0.04 and first_binding("Q", self.data, self.ctx) == "fn":
            # patsy's quoting transform: the column is named by a string
            return f'Q("{r.choice(list(self.data))}")'
        if p < 0.35:
            n = "zz" if (self.unbound and r.random() < 0.3) else r.choice(self.vecs)
            return q(n)
        if p < 0.65:
            c = self.callexpr()
            # a bare call must start with a plain (possibly dotted) name for the formula tokenizer; the rest goes in braces
            head = c.split("(", 1)[0]
            if c[0] in "[(`" or ")(" in c or ")." in c or "`" in head:
                return "{" + c + "}"
            return c
        op = r.choice(["+", "*", "-"])
        if p < 0.82:
            return "{" + f"{self.val()} {op} {self.val()}" + "}"
        if p < 0.90:
            return "{" + f"-{self.val()}" + "}"
        if p < 0.95:
            return "{" + self.val() + "}"
        if first_binding("I", self.data, self.ctx) == "fn":
            return "I(" + f"{self.val()} {op} {self.val()}" + ")"
        return "{" + f"{self.val()} {op} {self.val()}" + "}"

    def term(self):
        k = self.rng.choice([1, 1, 1, 2])
        return ":".join(self.factor() for _ in range(k))


def gen_env(rng):
    ncol = rng.randint(2, 6)
    pool = PLAIN_COLS * 3 + SPECIAL_COLS + QUOTED_COLS * 2 + ALIAS_COLS
    cols = []
    while len(cols) < ncol:
        c = rng.choice(pool)
        if c not in cols:
            cols.append(c)
    if not any(c in PLAIN_COLS for c in cols):
        cols.insert(rng.randrange(len(cols) + 1), rng.choice(PLAIN_COLS))
    data = {c: [rng.randint(1, 9) for _ in range(NROWS)] for c in cols}
    ctx = {}
    for _ in range(rng.choice([0, 1, 1, 2, 3, 4])):
        kind = rng.choice(["shadow", "transform", "builtin", "new", "new", "new"])
        arr = dict(k="arr", v=[rng.randint(11, 19) for _ in range(NROWS)])
        if kind == "shadow":
            ctx[rng.choice(cols)] = arr
        elif kind == "transform":
            n = rng.choice(["log", "np", "C", "center", "exp"])
            if n == "np":
                ctx[n] = rng.choice([arr, dict(k="ns", attrs=dict(log=dict(k="fn", c=100), exp=dict(k="fn", c=200), abs=dict(k="fn", c=300), f=dict(k="fn", c=400), v=arr))])
            else:
                ctx[n] = rng.choice([arr, dict(k="fn", c=rng.choice([100, 200]))])
        elif kind == "builtin":
            n = rng.choice(["abs", "float", "id", "len"])
            ctx[n] = dict(k="fn", c=500) if n == "abs" else arr
        else:
            n = rng.choice(["u", "v", "f", "g", "h", "ns", "k", "ap", "a", "spy", "spy"])
            ctx[n] = {
                "u": arr, "v": dict(k="num", v=rng.randint(2, 5)), "k": arr, "a": arr, "ap": dict(k="ap"), "spy": dict(k="spy"),
                "f": dict(k="fn", c=1000), "g": dict(k="fn", c=2000), "h": dict(k="hof"),
                "ns": dict(k="ns", attrs=dict(f=dict(k="fn", c=3000), v=arr)),
            }[n]
    if rng.random() < 0.03:
        # a name `stateful_eval` reserves for itself, as a data column or in the caller's context
        r = rng.choice(RESERVED_NAMES)
        if rng.random() < 0.5:
            data[r] = [rng.randint(1, 9) for _ in range(NROWS)]
        else:
            ctx[r] = dict(k="arr", v=[rng.randint(11, 19) for _ in range(NROWS)])
    return data, ctx


FIXED = [
    dict(kind="formula", formula="`a b` + x", data={"a b": [1, 2, 3, 4], "x": [2, 3, 4, 5]}, ctx={}),
    dict(kind="formula", formula="`a+b` + `1a`:x", data={"a+b": [1, 2, 3, 4], "1a": [2, 2, 3, 3], "x": [2, 3, 4, 5]}, ctx={}),
    dict(kind="formula", formula="C + log + x", data={"C": [1, 2, 3, 4], "log": [2, 1, 2, 1], "x": [2, 3, 4, 5]}, ctx={}),
    dict(kind="formula", formula="log(x) + {y + u}", data={"x": [1, 2, 3, 4], "y": [2, 3, 4, 5]}, ctx={"u": dict(k="arr", v=[11, 12, 13, 14])}),
    dict(kind="formula", formula="log(`a b`) + {`1a` * 2}", data={"a b": [1, 2, 3, 4], "1a": [2, 3, 4, 5]}, ctx={}),
    dict(kind="formula", formula="y ~ x + f(x, k=z)", data={"x": [1, 2, 3, 4], "y": [2, 3, 4, 5], "z": [1, 1, 2, 2]}, ctx={"f": dict(k="fn", c=7), "x": dict(k="arr", v=[11, 12, 13, 14])}),
    dict(kind="formula", formula="{(x + y).clip(0)} + h(x)(z)", data={"x": [1, 2, 3, 4], "y": [2, 3, 4, 5], "z": [1, 1, 2, 2]}, ctx={"h": dict(k="hof")}),
    dict(kind="formula", formula="{f(x).clip(0)} + {[g][0](y)}", data={"x": [1, 2, 3, 4], "y": [2, 3, 4, 5]}, ctx={"f": dict(k="fn", c=7), "g": dict(k="fn", c=9)}),
    dict(kind="formula", formula="log(C) + {np + 1}", data={"C": [1, 2, 3, 4], "np": [2, 3, 4, 5]}, ctx={}),
    dict(kind="formula", formula="x.clip(0) + {y.T}", data={"x": [1, 2, 3, 4], "y": [2, 3, 4, 5]}, ctx={}),
    dict(kind="formula", formula="log(`x.y`) + w", data={"x.y": [1, 2, 3, 4], "w": [2, 3, 4, 5]}, ctx={}),
    dict(kind="formula", formula="y ~ x + k + m + center(x) + double(m) + scale(x)",
         data={"y": [1, 2, 3, 4], "x": [1, 2, 3, 5], "k": [7, 7, 8, 8]},
         ctx={"k": dict(k="arr", v=[11, 11, 11, 11]), "m": dict(k="arr", v=[10, 20, 30, 40]), "center": dict(k="fn", c=42), "double": dict(k="fn", c=2)},
         ctx_form="lm", ctx_split=2),
    dict(kind="formula", formula="log(x) + {y + u}:f(x)", data={"x": [1, 2, 3, 4], "y": [2, 3, 4, 5]},
         ctx={"u": dict(k="arr", v=[11, 12, 13, 14]), "f": dict(k="fn", c=7)}, ctx_form="captured", ctx_split=1),
    dict(kind="formula", formula="x + u + f(u)", data={"x": [1, 2, 3, 4]},
         ctx={"u": dict(k="arr", v=[11, 12, 13, 14]), "f": dict(k="fn", c=7)}, ctx_form="nested", ctx_split=1),
    dict(kind="formula", formula="x + u + f(u)", data={"x": [1, 2, 3, 4]},
         ctx={"u": dict(k="arr", v=[11, 12, 13, 14]), "f": dict(k="fn", c=7)}, ctx_form="named", ctx_split=1),
    dict(kind="formula", formula="{(lambda v, k=y: v * k + z)(x)} + {sum([a + w for a in x if a > 0])}",
         data={"x": [1, 2, 3, 4], "y": [2, 3, 4, 5], "z": [1, 1, 2, 2], "w": [5, 6, 7, 8], "a": [9, 9, 9, 9], "v": [7, 7, 7, 7]}, ctx={}),
    dict(kind="formula", formula="{sum(x * y for x in z)} + ap(lambda t: t + u, w)",
         data={"x": [1, 2, 3, 4], "y": [2, 3, 4, 5], "z": [1, 1, 2, 2], "w": [5, 6, 7, 8]},
         ctx={"ap": dict(k="ap"), "u": dict(k="arr", v=[11, 12, 13, 14]), "t": dict(k="arr", v=[15, 15, 15, 15])}),
    dict(kind="formula", formula="{sum([a * b for a, b in zip(x, [y, z])])} + {sum({k: w for k in [1, 2]}.values())} + {sum([x for x in [x, y]])}",
         data={"x": [1, 2, 3, 4], "y": [2, 3, 4, 5], "z": [1, 1, 2, 2], "w": [5, 6, 7, 8], "k": [3, 3, 3, 3]}, ctx={}),
    dict(kind="formula", formula="{(lambda v: v + zz)(x)} + y", data={"x": [1, 2, 3, 4], "y": [2, 3, 4, 5]}, ctx={}),
    dict(kind="formula", formula="x + {y + 1}", data={"x": [1, 2, 3, 4], "y": [2, 3, 4, 5], "__FORMULAIC_STATE__": [1, 1, 1, 1]}, ctx={}),
    dict(kind="formula", formula="x + log(y)", data={"x": [1, 2, 3, 4], "y": [2, 3, 4, 5]}, ctx={"__FORMULAIC_CONTEXT__": dict(k="arr", v=[11, 12, 13, 14])}),
    dict(kind="formula", formula="x + spy(y, k=x) + center(`y`):spy(`a b`)", data={"x": [1, 2, 3, 4], "y": [2, 3, 4, 5], "a b": [3, 4, 5, 6]},
         ctx={"spy": dict(k="spy"), "y": dict(k="arr", v=[11, 12, 13, 14]), "w": dict(k="arr", v=[15, 16, 17, 18])}, ctx_form="named", ctx_split=1),
    dict(kind="formula", formula="x + u + f(w)", data={"x": [1, 2, 3, 4]},
         ctx={"u": dict(k="arr", v=[11, 12, 13, 14]), "f": dict(k="fn", c=7), "w": dict(k="arr", v=[15, 16, 17, 18])}, ctx_form="grown", ctx_split=1),
    dict(kind="formula", formula="{`a b` + `a_b`} + {`1a` * _1a} + log(a_b):log(`a b`)",
         data={"a b": [1, 2, 3, 4], "a_b": [10, 20, 30, 40], "1a": [2, 3, 4, 5], "_1a": [5, 5, 6, 6]}, ctx={}),
    dict(kind="formula", formula="{(lambda v: v.clip(0))(x)} + {sum([a.clip(0) for a in [x, y]])} + {(lambda center: center(x))(abs)}",
         data={"x": [1, 2, 3, 4], "y": [2, 3, 4, 5]}, ctx={"v": dict(k="num", v=3), "a": dict(k="num", v=4)}),
    dict(kind="formula", formula="y + log(z) ~ x + f(x) | {x * w} + `a b` | z", data={"x": [1, 2, 3, 4], "y": [2, 3, 4, 5], "z": [1, 1, 2, 2], "w": [5, 6, 7, 8], "a b": [3, 4, 5, 6]},
         ctx={"f": dict(k="fn", c=7), "w": dict(k="arr", v=[11, 12, 13, 14])}),
    dict(kind="formula", formula="x + u + f(w)", data={"x": [1, 2, 3, 4], "w": [2, 2, 3, 3]},
         ctx={"u": dict(k="arr", v=[11, 12, 13, 14]), "f": dict(k="fn", c=7), "w": dict(k="arr", v=[15, 16, 17, 18]), "m": dict(k="arr", v=[1, 1, 1, 1])},
         ctx_form="named-data", ctx_split=1),
    dict(kind="dot", tpl="x ~ § + (§):w", data={"x": [1, 2, 3, 4], "w": [2, 2, 3, 3], "z": [5, 6, 7, 8]},
         ctx={"u": dict(k="arr", v=[11, 12, 13, 14]), "m": dict(k="arr", v=[1, 1, 1, 1])}, ctx_form="named-data", ctx_split=1),
    dict(kind="formula", formula='Q("a b") + x + Q("y"):y', data={"x": [1, 2, 3, 4], "y": [2, 3, 4, 5], "a b": [3, 4, 5, 6]}, ctx={}),
    dict(kind="dot", tpl="y ~ §", data={"x": [1, 2, 3, 4], "y": [2, 3, 4, 5], "C": [1, 1, 2, 2], "a b": [1, 2, 2, 1]}, ctx={}),
    dict(kind="dot", tpl="log(y) + `a b` ~ §", data={"x": [1, 2, 3, 4], "y": [2, 3, 4, 5], "a b": [1, 2, 2, 1]}, ctx={}),
    dict(kind="dot", tpl="log(`a b`) ~ §", data={"x": [1, 2, 3, 4], "a b": [1, 2, 2, 1]}, ctx={}),
    dict(kind="dot", tpl="log(C) ~ §", data={"x": [1, 2, 3, 4], "C": [1, 2, 2, 1]}, ctx={}),
]

DOT_DATA = {"y": [2, 3, 4, 5], "z": [1, 3, 2, 4], "a": [1, 1, 2, 2], "b": [3, 1, 4, 1], "c": [2, 7, 1, 8], "a b": [1, 2, 2, 1]}
DOT_CTX = {"a": dict(k="arr", v=[11, 12, 13, 14]), "u": dict(k="arr", v=[15, 16, 17, 18])}
# every occurrence of `.` (§) must expand alike: several dots, parentheses, interactions, several right-hand parts,
# Python-expression and back-quoted left-hand sides
DOT_TABLE = [
    "y ~ § | §",
    "y ~ § + §:c",
    "np.log(y) ~ § - a + (§):b",
    "y + z ~ § | § | a",
    "`a b` ~ (§ + c):b + §",
    "log(`a b`) + y ~ (§) | §:c",
    "{y + 1} ~ 0 + § + (§ - a)",
    "y ~ (§):(§)",
    "y ~ (§)**2 + §",
    "y + `a b` ~ § + a | (§):z | §",
    "{z * `a b`} ~ §:§ + §",
    "y ~ a + § | b:(§) - c",
]
FIXED += [dict(kind="dot", tpl=t, data=DOT_DATA, ctx=(DOT_CTX if i % 3 == 2 else {}), ctx_form=("lm" if i % 3 == 2 else "dict"), ctx_split=1)
          for i, t in enumerate(DOT_TABLE)]
FIXED += [
    dict(kind="dot", tpl="y + `a b` ~ § | (§):c", data=DOT_DATA, ctx=DOT_CTX, ctx_form="named", ctx_split=1, mat="narwhals"),
    dict(kind="dot", tpl="y ~ § + (§):b", data=DOT_DATA, ctx={}, avail_mode="explicit", avail_list=["b", "q", "y", "b", "a b", "a"]),
    dict(kind="dot", tpl="log(y) ~ § | §", data=DOT_DATA, ctx={}, avail_mode="none"),
]
for _c in FIXED:
    if _c["kind"] == "dot":
        _c["formula"] = _c["tpl"].replace("§", ".")

DOT_PIECES = ["§", "§", "(§)", "§:{c}", "(§):{c}", "{c}:§", "{c}:(§)", "§ - {c}", "(§ - {c})", "{c}", "(§)**2", "(§ + {c}):{d}", "§:§"]


def gen_dot_rhs(rng, free):
    """a right-hand side with 2-3 occurrences of `.` (§): sums, interactions, parentheses, several parts"""
    while True:
        nparts = rng.choice([1, 1, 2, 2, 3])
        parts = []
        for _ in range(nparts):
            pieces = []
            for _ in range(rng.randint(1, 3)):
                tpl = rng.choice(DOT_PIECES)
                if ("{c}" in tpl or "{d}" in tpl) and not free:
                    tpl = "§"
                pieces.append(tpl.format(c=q(rng.choice(free)) if free else "", d=q(rng.choice(free)) if free else ""))
            part = " + ".join(pieces)
            if rng.random() < 0.15:
                part = "0 + " + part
            parts.append(part)
        rhs = " | ".join(parts)
        if 2 <= rhs.count("§") <= 3:
            return rhs


# A parse is only handed its context: the scratch entries it writes (`__formulaic_variables_used_lhs__`) belong in a fresh
# layer of its own (the model states that the context is unchanged: theorem `parse_history_independent`), and the keys of
# the materializer's `layered_context` / the caller's mapping / the parser's own context are recorded before and after every
# step. A leftover scratch key alone does not contradict C17 (every `.` still expands correctly as long as each parse
# rewrites the entry), so by default it is NOT reported on its own — only what it can cause is: a `.` that expands with the
# left-hand side of an EARLIER formula, required variables that miss a column. `C17_CONTEXT_UNCHANGED=1` turns the stricter
# comparison on (then a parse that writes into the object it was handed is reported even while all expansions are right).
HISTORY_CONTEXT_MUST_BE_UNCHANGED = os.environ.get("C17_CONTEXT_UNCHANGED", "0") == "1"

# histories: several formulas parsed (and materialised) with ONE context object
HIST_TWO = ["y ~ §", "y ~ a", "np.log(y) + z ~ §", "{y + 1} ~ § - a", "y + `a b` ~ (§):b", "z ~ § | §", "a ~ b + §"]
HIST_ONE = ["§", "§ - a", "(§):b", "§ + a:b", "0 + §", "(§)**2"]


def _hist(steps, **kw):
    c = dict(kind="history", steps=list(steps), formula=" ;; ".join(t.replace("§", ".") for t in steps), data=DOT_DATA, ctx={},
             target="materializer", mat="pandas")
    c.update(kw)
    return c


FIXED_HISTORIES = [
    _hist(["y ~ §", "§"]),
    _hist(["§", "y ~ §", "§"]),
    _hist(["np.log(y) + z ~ §", "(§):b", "y ~ a", "§ - a"], mat="narwhals"),
    _hist(["y ~ §", "z ~ §", "a ~ b + §", "§"], ctx=DOT_CTX, ctx_form="lm", ctx_split=1),
    _hist(["y ~ a", "§ - a", "y + `a b` ~ (§):b", "§"], target="context"),
    _hist(["y ~ §", "§", "z ~ §"], target="context", own=dict(keys=["k"], avail=None), ctx=DOT_CTX, ctx_form="named", ctx_split=1),
    _hist(["y ~ §", "§ - a"], target="dict", explicit=["a", "y", "b", "q", "a"]),
    _hist(["y ~ §", "(§):b", "z ~ §"], target="dict", own=dict(keys=[], avail=["y", "z", "b", "c"])),
]


def gen_history(rng):
    k = rng.randint(2, 4)
    steps = []
    # a one-sided formula AFTER a two-sided one is the interesting order; everything else at random
    first_two = rng.randrange(k - 1)
    for i in range(k):
        if i == first_two:
            steps.append(rng.choice(HIST_TWO))
        elif i == first_two + 1:
            steps.append(rng.choice(HIST_ONE))
        else:
            steps.append(rng.choice(HIST_TWO + HIST_ONE))
    cols = list(DOT_DATA)
    rng.shuffle(cols)
    data = {col: DOT_DATA[col] for col in cols}
    kw = dict(data=data, mat=rng.choice(["pandas", "pandas", "narwhals"]))
    if rng.random() < 0.4:
        kw.update(ctx=DOT_CTX, ctx_form=rng.choice(["dict", "lm", "named", "nested"]), ctx_split=rng.randint(0, 2))
    p = rng.random()
    if p < 0.55:
        kw.update(target="materializer")
    elif p < 0.8:
        kw.update(target="context")
    else:
        kw.update(target="dict", explicit=[rng.choice(cols + ["q"]) for _ in range(rng.randint(2, 6))])
    q_ = rng.random()
    if q_ < 0.2:
        kw.update(own=dict(keys=["k", "m"], avail=None))       # a parser with a context of its own
    elif q_ < 0.3 and kw["target"] == "dict":
        kw.pop("explicit", None)
        kw.update(own=dict(keys=[], avail=[rng.choice(cols) for _ in range(rng.randint(2, 5))]))
    return _hist(steps, **kw)


def cases(rng, tier):
    n = {"quick": 260, "thorough": 4000, "search": 150}[tier]
    # the known shapes first (cheap; makes the evidence independent of luck)
    yield from FIXED
    yield from FIXED_HISTORIES
    for _ in range(n // 8):
        yield gen_history(rng)
    for _ in range(n):
        data, ctx = gen_env(rng)
        g = Gen(rng, data, ctx, wild=rng.random() < 0.3)
        # how the caller supplies the context: plain dict or (nested / named / captured) LayeredMapping
        form = rng.choice(["dict", "dict", "lm", "lm", "nested", "named", "grown", "named-data", "captured", "captured"]) if ctx else rng.choice(["dict", "dict", "captured"])
        shape = dict(ctx_form=form, ctx_split=rng.randint(0, len(ctx)))
        if rng.random() < 0.2:
            lhs = " + ".join(g.factor() for _ in range(rng.choice([1, 1, 2])))
            # explicit right-hand-side names: data columns the left-hand side does not mention at all
            free = [col for col in data if col.isidentifier() and col not in lhs]
            rhs = rng.choice(["§", "§", "0 + §"]) if rng.random() < 0.3 else gen_dot_rhs(rng, free)
            tpl = f"{lhs} ~ {rhs}"
            case = dict(kind="dot", tpl=tpl, formula=tpl.replace("§", "."), data=data, ctx=ctx, **shape)
            if rng.random() < 0.25:
                case.update(mat="narwhals")
            p = rng.random()
            if p < 0.12:
                # the available variables are named explicitly: any list (order, repetitions, names that are no columns)
                names = list(data) + rng.sample(["p", "q", "C", "a b"], 2)
                case.update(avail_mode="explicit", avail_list=[rng.choice(names) for _ in range(rng.randint(1, 6))])
            elif p < 0.16:
                case.update(avail_mode="none")
            yield case
            continue
        terms = [g.term() for _ in range(rng.randint(1, 4))]
        f = " + ".join(terms)
        if rng.random() < 0.12:
            # several right-hand parts: every part becomes a model spec of its own
            f += " | " + " + ".join(g.term() for _ in range(rng.randint(1, 2)))
        if rng.random() < 0.25:
            f = g.factor() + " ~ " + f
        if rng.random() < 0.1:
            f = "0 + " + f if "~" not in f else f.replace("~ ", "~ 0 + ", 1)
        yield dict(kind="formula", formula=f, data=data, ctx=ctx, **shape)


def describe(c):
    f = c["formula"]
    tags = [c["kind"]]
    if "`" in f:
        tags.append("quoted")
    if "{" in f:
        tags.append("braces")
    if "(" in f:
        tags.append("call")
    if any(k in c["data"] for k in SPECIAL_COLS):
        tags.append("col~builtin")
    if any(k in c["data"] for k in c["ctx"]):
        tags.append("ctx-shadows-data")
    elif c["ctx"]:
        tags.append("ctx")
    if c.get("ctx_form", "dict") != "dict":
        tags.append("ctx=" + c["ctx_form"])
    if "lambda" in f or " for " in f:
        tags.append("scoped")
    if c["kind"] == "history":
        tags += [f"steps={len(c['steps'])}", "target=" + c["target"], "mat=" + c.get("mat", "pandas")] + (["own-context"] if c.get("own") else [])
    if c["kind"] == "dot":
        tags.append(f"dots={_tpl(c).count('§')}")
        if c.get("avail_mode", "layers") != "layers":
            tags.append("avail=" + c["avail_mode"])
        if c.get("mat", "pandas") != "pandas":
            tags.append("mat=" + c["mat"])
    elif "|" in f:
        tags.append("parts")
    if any(k in RESERVED_NAMES for k in list(c["data"]) + list(c["ctx"])):
        tags.append("reserved")
    return ",".join(tags)


def nontrivial(c):
    return "(" in c["formula"] or "{" in c["formula"] or "`" in c["formula"] or bool(c["ctx"])


# ----------------------------------------------------------------------------- implementation side


def _varlist(vs, with_source=True):
    out = []
    for v in vs:
        row = [str(v), "value" in {r.value for r in v.roles}, "callable" in {r.value for r in v.roles}]
        if with_source:
            row.append(v.source)
        out.append(row)
    return sorted(out, key=lambda r: r[0])


def _outcome(fn):
    """run one materialisation; canonical outcome"""
    from formulaic.errors import FactorEvaluationError

    try:
        mm = fn()
    except FactorEvaluationError as e:
        cause = type(e.__cause__).__name__ if e.__cause__ is not None else "None"
        return dict(error="FactorEvaluationError", cause=cause), None
    except Exception as e:
        return dict(error=type(e).__name__, msg=str(e)[:120]), None
    return None, mm


def _specs(ms):
    out = []
    if hasattr(ms, "_map"):
        ms._map(lambda s: out.append(s))
    else:
        out.append(ms)
    return out


def _spec_obs(ms):
    from formulaic.utils.variables import Variable

    specs = _specs(ms)
    allvars = Variable.union(*(s.variables for s in specs))
    by = collections.defaultdict(set)
    for s in specs:
        for src, vs in s.variables_by_source.items():
            by[src] |= {str(v) for v in vs}
    fvars = collections.defaultdict(set)
    for s in specs:
        for factor, vs in s.factor_variables.items():
            fvars[factor.expr] |= {str(v) for v in vs}
    return dict(
        ok=True,
        vars=_varlist(allvars),
        req=sorted(str(v) for v in ms.required_variables),
        by_source=sorted(([k, sorted(v)] for k, v in by.items()), key=lambda kv: str(kv[0])),
        fvars=sorted([k, sorted(v)] for k, v in fvars.items()),
    )


def _run(spec, df, ctx):
    from formulaic.materializers import PandasMaterializer

    err, mm = _outcome(lambda: PandasMaterializer(df, context=ctx).get_model_matrix(spec, na_action="ignore"))
    if err:
        return err, None
    return _spec_obs(mm.model_spec), mm


def _sweep(spec, df, ctx, names):
    keep = [c for c in df.columns if c in set(names)]
    restricted, _ = _run(spec, df[keep], ctx)
    removed = []
    for v in names:
        o, _ = _run(spec, df.drop(columns=[v]) if v in df.columns else df, ctx)
        removed.append([v, o])
    return dict(restricted=restricted, removed=removed)


def _parts(formula):
    """the factors of every part (`SimpleFormula`) of the formula, in `_map` order"""
    out = []

    def one(sf):
        out.append([f for term in sf for f in term.factors])

    if hasattr(formula, "_map"):
        formula._map(one)
    else:
        one(formula)
    return out


def _columns(mm):
    """{column name: values} over all parts (first occurrence wins)"""
    cols = {}
    parts = []
    if hasattr(mm, "_map"):
        mm._map(lambda m: parts.append(m))
    else:
        parts.append(mm)
    for m in parts:
        for name in m.columns:
            if name not in cols:
                cols[name] = [float(x) for x in numpy.asarray(m[name]).reshape(-1)[:NROWS]] if list(m.columns).count(name) == 1 else None
    return cols


def _alias_contract(c, factors):
    """contract of `sanitize_variable_names` the model assumes (Spec.Variables.AliasOK): sanitised names are
    pairwise distinct identifiers bound in no layer, are not themselves back-quoted names, and a name that had to be
    sanitised is not a builtin. Returns None or a description of the violation."""
    from formulaic.transforms import TRANSFORMS

    for f in factors:
        code = f.get("code")
        if not code:
            continue
        news = [a[0] for a in code["aliases"]]
        olds = [a[1] for a in code["aliases"]]
        if len(set(news)) != len(news):
            return f"duplicate sanitised names in {f['x']!r}"
        for new, old in code["aliases"]:
            if new == old:
                continue
            if not new.isidentifier() or "." in new:
                return f"sanitised name {new!r} is not an identifier"
            if new in c["data"] or new in c["ctx"] or new in TRANSFORMS or hasattr(_builtins, new) or hasattr(_builtins, old):
                return f"sanitised name {new!r} (for {old!r}) is already bound"
            if new in olds:
                return f"sanitised name {new!r} is itself a back-quoted name"
    return None


def impl(c):
    from formulaic import Formula
    from formulaic.materializers import PandasMaterializer
    from formulaic.utils.variables import _get_ast_node_variables

    df = frame(c["data"])
    ctx = build_context(c)
    ENV_KEYS[:] = env_keys(c, ctx)
    if c["kind"] == "dot":
        return impl_dot(c, df, ctx)
    if c["kind"] == "history":
        return impl_history(c, df, ctx)
    try:
        F = Formula(c["formula"])
    except Exception as e:
        return dict(parse_error=pc.exc_class(e), ctx_desc=describe_context(ctx), codes=_token_codes(c["formula"]))
    parts = _parts(F)
    fs = [f for p in parts for f in p]
    factors, bfs = [], []
    for f in fs:
        m = f.eval_method.value
        d = dict(x=f.expr, m=m)
        if m == "python":
            d["code"] = code_json(f.expr)
            tree, aliases, _ = pycode(f.expr)
            if tree is None:
                bfs.append(None)
            else:
                try:
                    vs = _get_ast_node_variables(tree, aliases)
                    bfs.append([[str(v), "value" in {r.value for r in v.roles}, "callable" in {r.value for r in v.roles}, None] for v in vs])
                except Exception as e:
                    bfs.append(dict(error=type(e).__name__))
        else:
            bfs.append(None)
        factors.append(d)
    sizes = [len(p) for p in parts]
    out = dict(factors=factors, parts=[factors[sum(sizes[:i]):sum(sizes[:i + 1])] for i in range(len(sizes))],
               bfs=[[k, v] for k, v in sorted({f.expr: b for f, b in zip(fs, bfs)}.items())], formula=pc.canon_val(F), codes=_token_codes(c["formula"]),
               ctx_desc=describe_context(ctx), ctx_keys=[str(k) for k in ctx])
    out.update(_named_obs(PandasMaterializer(df, context=ctx).layered_context))
    # before materialisation
    try:
        pre = F.required_variables
        out["pre"] = dict(vars=_varlist(pre, with_source=False))
        # a model spec that has not been materialised yet falls back to the formula
        from formulaic import ModelSpec

        out["pre"]["spec"] = sorted(str(v) for v in ModelSpec.from_spec(F).required_variables)
    except Exception as e:
        pre = None
        out["pre"] = dict(error=type(e).__name__)
    out["contract"] = _alias_contract(c, factors)
    SPY.update(on=True, keys=list(c["data"]) + [k for k in c["ctx"] if k not in c["data"]] + ["log", "C", "nosuch"], log=[])
    try:
        full, mm = _run(F, df, ctx)
    finally:
        SPY["on"] = False
    out["spy"] = list(SPY["log"])
    out["spy_keys"] = list(SPY["keys"])
    out["full"] = full
    if "error" in full:
        out["error"] = f"{full['error']}<-{full.get('cause')}"
    if pre is not None:
        out["pre"].update(_sweep(F, df, ctx, sorted(str(v) for v in pre)))
    if mm is not None:
        out["post"] = _sweep(mm.model_spec, df, ctx, full["req"])
        out["columns"] = _columns(mm)
    else:
        out["post"] = None
    return out


PROBE = ["data", "context", "transforms", NAMED_SUBLAYER, "nosuch"]
TOKEN_PROBES = ["x +", "f(x", "np.log(`a b`) + g(z, k=w) + C(u)", "sum([a * y for a in x])"]


def _named_obs(lc):
    """named-layer lookups on the materializer's layered context: `named_layers` and `getattr(lc, name)`"""
    probe = []
    for n in PROBE:
        try:
            probe.append([n, [str(k) for k in getattr(lc, n)]])
        except AttributeError:
            probe.append([n, "AttributeError"])
    return dict(named=sorted(lc.named_layers), probe=probe)


def canon_specs(ms):
    """`required_variables` of every part of a (structured) model spec, in the shape of `pc.canon_val`"""
    from formulaic.utils.structured import Structured

    if isinstance(ms, Structured):
        return {"s": {k: canon_specs(v) for k, v in ms._structure.items()}}
    if isinstance(ms, tuple):
        return {"t": [canon_specs(x) for x in ms]}
    return sorted(str(v) for v in ms.required_variables)


def _sanitized_tokens(formula):
    """the tokens the real tokenizer + sanitiser yield before they raise (if they do)"""
    from formulaic.parser.algos.sanitize_tokens import sanitize_tokens
    from formulaic.parser.algos.tokenize import tokenize

    toks = []
    try:
        for t in sanitize_tokens(tokenize(formula)):
            toks.append(t)
    except Exception:
        pass
    return toks


def _token_codes(formula):
    """what CPython makes of every Python token of the formula (keyed by the normalised text, which is also the
    expression of the factor the token becomes)"""
    codes, seen = [], set()
    for t in _sanitized_tokens(formula):
        if t.kind.value == "python" and t.token not in seen:
            seen.add(t.token)
            codes.append(dict(k=t.token, code=code_json(t.token)))
    return codes


def impl_dot(c, df, ctx):
    from formulaic import Formula
    from formulaic.materializers import PandasMaterializer

    if c.get("mat", "pandas") == "narwhals":
        # the other materializer of the package (picked for Arrow / polars data): same layered context over a dict of columns
        import pyarrow
        from formulaic.materializers import NarwhalsMaterializer

        mat = NarwhalsMaterializer(pyarrow.Table.from_pandas(df, preserve_index=False), context=ctx)
    else:
        mat = PandasMaterializer(df, context=ctx)
    out = dict(ctx_desc=describe_context(ctx), ctx_keys=[str(k) for k in ctx])
    out.update(_named_obs(mat.layered_context))
    out["codes"] = _token_codes(c["formula"])
    # `Token.required_variables` on its own: a Python token that cannot be parsed contributes nothing (the formula fails
    # more gracefully later); a well-formed one its free, non-transform names
    from formulaic.parser.types import Token

    out["tokprobe"] = []
    for text in TOKEN_PROBES:
        out["tokprobe"].append(dict(text=text, code=code_json(text), vars=sorted(str(v) for v in Token(text, kind="python").required_variables)))
    mode = c.get("avail_mode", "layers")
    try:
        if mode == "explicit":
            # the documented way of telling the parser which variables exist without any data
            F = Formula.from_spec(c["formula"], context={"__formulaic_variables_available__": list(c["avail_list"])})
        elif mode == "none":
            F = Formula.from_spec(c["formula"], context=dict(ctx) if isinstance(ctx, dict) else {})
        else:
            F = Formula.from_spec(c["formula"], context=mat.layered_context)
    except Exception as e:
        out["parse_error"] = pc.exc_class(e)
        return out
    out["formula"] = pc.canon_val(F)
    lhs = getattr(F, "lhs", None)
    out["lhs_factors"] = [dict(x=f.expr, m=f.eval_method.value) for t in (lhs if lhs is not None else []) for f in t.factors]
    if mode != "layers":
        return out
    err, mm = _outcome(lambda: mat.get_model_matrix(F, na_action="ignore"))
    out["full"] = err or dict(ok=True)
    if mm is not None:
        out["parts"] = canon_specs(mm.model_spec)
    return out


def _history_objects(c, df, ctx):
    """(the context object every parse of the history is handed, the materializer or None, the parser)"""
    from formulaic.materializers import NarwhalsMaterializer, PandasMaterializer
    from formulaic.parser import DefaultFormulaParser
    from formulaic.utils.layered_mapping import LayeredMapping

    own = c.get("own")
    parser = None
    if own:
        pctx = {k: 1 for k in own["keys"]}
        if own.get("avail") is not None:
            pctx["__formulaic_variables_available__"] = list(own["avail"])
        parser = DefaultFormulaParser(context=pctx)
    if c.get("mat") == "narwhals":
        import pyarrow

        mat = NarwhalsMaterializer(pyarrow.Table.from_pandas(df, preserve_index=False), context=ctx)
    else:
        mat = PandasMaterializer(df, context=ctx)
    if c["target"] == "materializer":
        return mat.layered_context, mat, parser
    if c["target"] == "context":
        # a layered context of the caller's own making, with a layer called `data`
        return LayeredMapping(LayeredMapping({k: df[k] for k in df.columns}, name="data"), ctx), None, parser
    obj = dict(ctx) if isinstance(ctx, dict) else {k: ctx[k] for k in ctx}
    if c.get("explicit") is not None:
        obj["__formulaic_variables_available__"] = list(c["explicit"])
    return obj, None, parser


def _keys(obj):
    return [str(k) for k in obj]


def impl_history(c, df, ctx):
    from formulaic import Formula

    obj, mat, parser = _history_objects(c, df, ctx)
    out = dict(ctx_desc=describe_context(ctx), caller_desc=describe_context(obj), keys_before=_keys(obj),
               own_before=_keys(parser.context) if parser is not None else None, steps=[], codes=[])
    seen = set()
    for tpl in c["steps"]:
        f = tpl.replace("§", ".")
        for code in _token_codes(f):
            if code["k"] not in seen:
                seen.add(code["k"])
                out["codes"].append(code)
        st = dict(tpl=tpl)
        try:
            F = Formula(f, _context=obj) if parser is None else Formula(f, _parser=parser, _nested_parser=parser, _context=obj)
        except Exception as e:
            st["parse_error"] = pc.exc_class(e)
        else:
            st["formula"] = pc.canon_val(F)
            lhs = getattr(F, "lhs", None)
            st["lhs_factors"] = [dict(x=x.expr, m=x.eval_method.value) for t in (lhs if lhs is not None else []) for x in t.factors]
            if mat is not None:
                err, mm = _outcome(lambda: mat.get_model_matrix(F, na_action="ignore"))
                st["full"] = err or dict(ok=True)
                if mm is not None:
                    st["parts"] = canon_specs(mm.model_spec)
        st["keys_after"] = _keys(obj)
        st["own_after"] = _keys(parser.context) if parser is not None else None
        out["steps"].append(st)
    return out


def request(c, o):
    if "ctx_desc" not in o:
        return dict(op="none")
    if c["kind"] == "history":
        steps = []
        norm = []
        for tpl in c["steps"]:
            r = pc.request_for(tpl.replace("§", "."), "history")
            steps.append(dict(s=r["s"], w=r["w"], sp=r["sp"]))
            norm += [n for n in r["norm"] if n not in norm]
        own = c.get("own") or {}
        explicit = c.get("explicit") if c.get("explicit") is not None else own.get("avail")
        return dict(op="history", steps=steps, norm=norm, pyvars=[], codes=o["codes"], data=list(c["data"]), context=o["ctx_desc"],
                    caller=o["caller_desc"], target=c["target"], explicit=explicit,
                    own=list(own.get("keys", [])) + (["__formulaic_variables_available__"] if own.get("avail") is not None else []),
                    builtins=sorted(_LAST_RESORT), probe=PROBE, cfg=pc.CFG_DEFAULT)
    if c["kind"] == "dot":
        r = pc.request_for(c["formula"], "dot")
        r.update(pyvars=[], codes=o["codes"], data=list(c["data"]), context=o["ctx_desc"], builtins=sorted(_LAST_RESORT), probe=PROBE,
                 avail_mode=c.get("avail_mode", "layers"), avail_list=list(c.get("avail_list", [])),
                 tokprobe=[dict(text=t["text"], code=t["code"]) for t in o.get("tokprobe", [])])
        return r
    # the model parses the formula string itself (the whole parser model); CPython's view of the Python tokens goes along
    r = pc.request_for(c["formula"], "formula")
    r.update(pyvars=[], codes=o["codes"], data=list(c["data"]), context=o["ctx_desc"], builtins=sorted(_LAST_RESORT), probe=PROBE,
             ctxkeys=o.get("spy_keys", []))
    return r


# ----------------------------------------------------------------------------- model vs implementation


_SUFFIX = re.compile(r"^(_?\w*?)_\d+(\..*)$")


def _norm_name(n):
    """`sanitize_variable_name` appends a numeric suffix when the sanitised name is already in use (which depends on the
    environment it is run against); the sanitised name only ever leaks through finding C17-F2."""
    m = _SUFFIX.match(n)
    return m.group(1) + m.group(2) if m else n


def _norm_vars(vs, with_source=True):
    rows = {}
    for v in vs:
        rows.setdefault(_norm_name(v[0]), [_norm_name(v[0]), v[1], v[2]] + ([v[3]] if with_source else []))
    return sorted(rows.values(), key=lambda r: r[0])


def _cmp_run(tag, io, mo, compare_vars=True):
    """one materialisation outcome: impl vs model.

    The model's operations never fail, so it predicts `ok` or `FactorEvaluationError <- NameError`.
    * model ok: the implementation must not fail with NameError (it may fail because an operation fails: that is a
      parameter of the model); if it succeeds the reported variables must be equal.
    * model NameError: the implementation must fail as well (FactorEvaluationError caused by NameError, or an operation /
      the encoding of an earlier factor's value failing before the unbound name is reached)."""
    if io is None or mo is None:
        return None if io is None and mo is None else f"{tag}: one side has no run"
    i_fee = io.get("error") == "FactorEvaluationError"
    if "error" in mo:
        # the implementation must fail too: with FactorEvaluationError, or - when an earlier factor evaluated to
        # something that cannot be a column (e.g. a builtin function un-shadowed by the removal) - with whatever the
        # encoding of that value raises before the unbound name is reached (outside the model: counted, accepted)
        if "error" not in io:
            return f"{tag}: model fails ({mo.get('cause')}) but the implementation succeeds"
        return None
    if i_fee and io.get("cause") == "NameError":
        return f"{tag}: implementation fails with NameError, the model finds every name bound"
    if "error" in io:
        return None
    if not compare_vars:
        return None
    if _norm_vars(io["vars"]) != _norm_vars(mo["vars"]):
        return f"{tag}: variables differ: impl {_norm_vars(io['vars'])} vs model {_norm_vars(mo['vars'])}"
    if sorted(io["req"]) != sorted(mo["req"]):
        return f"{tag}: required_variables differ: impl {sorted(io['req'])} vs model {sorted(mo['req'])}"
    if "fvars" in io and "fvars" in mo:
        if [[k, sorted(set(map(_norm_name, v)))] for k, v in io["fvars"]] != sorted([k, sorted(set(map(_norm_name, v)))] for k, v in mo["fvars"]):
            return f"{tag}: factor_variables differ: impl {io['fvars']} vs model {sorted(mo['fvars'])}"
    ib = sorted(([k, sorted(v)] for k, v in io["by_source"]), key=lambda kv: str(kv[0]))
    mb = sorted(([k, sorted(v)] for k, v in mo["by_source"]), key=lambda kv: str(kv[0]))
    if ib != mb:
        return f"{tag}: variables_by_source differ: impl {ib} vs model {mb}"
    return None


def _cmp_sweep(tag, isw, msw, compare_vars=True):
    w = _cmp_run(tag + " restricted", isw["restricted"], msw["restricted"], compare_vars)
    if w:
        return w
    md = {k: v for k, v in msw["removed"]}
    for v, o in isw["removed"]:
        if v not in md:
            return f"{tag}: model has no run without {v!r}"
        w = _cmp_run(f"{tag} without {v!r}", o, md[v], compare_vars)
        if w:
            return w
    return None


def _sorted_parts(x):
    if isinstance(x, dict) and "s" in x:
        return {"s": {k: _sorted_parts(v) for k, v in x["s"].items()}}
    if isinstance(x, dict) and "t" in x:
        return {"t": [_sorted_parts(v) for v in x["t"]]}
    return sorted(x) if isinstance(x, list) else x


def _cmp_named(o, m):
    if sorted(set(m.get("named", []))) != o["named"]:
        return f"named_layers differ: impl {o['named']} vs model {sorted(set(m.get('named', [])))}"
    if m.get("probe") != o["probe"]:
        return f"named-layer lookups differ: impl {o['probe']} vs model {m.get('probe')}"
    return None


def _agree_history(c, o, m):
    if "error" in m and "steps" not in m:
        return f"model: {m['error']}"
    if len(m["steps"]) != len(o["steps"]):
        return "model and implementation ran a different number of steps"
    for i, (so, sm) in enumerate(zip(o["steps"], m["steps"])):
        tag = f"step {i + 1} `{so['tpl'].replace('§', '.')}`"
        if "parse_error" in so:
            if sm.get("error") != so["parse_error"]:
                return f"{tag}: impl {so['parse_error']} vs model {sm.get('error', 'a formula')}"
            continue
        if "error" in sm:
            return f"{tag}: model {sm['error']} vs impl formula"
        if so["formula"] != sm["formula"]:
            return f"{tag}: impl {so['formula']} vs model {sm['formula']}"
        if "full" in so:
            w = _cmp_run(tag, so["full"], sm["full"], compare_vars=False)
            if w:
                return w
            if "parts" in so and "error" not in sm["full"] and _sorted_parts(so["parts"]) != _sorted_parts(sm["parts"]):
                return f"{tag}: required_variables per part: impl {_sorted_parts(so['parts'])} vs model {_sorted_parts(sm['parts'])}"
    if HISTORY_CONTEXT_MUST_BE_UNCHANGED and c["target"] != "dict" and o["steps"] and o["steps"][-1]["keys_after"] != m["keys"]:
        return f"the context after the history holds {o['steps'][-1]['keys_after']}, the model's {m['keys']}"
    return None


def agree(c, o, m):
    ENV_KEYS[:] = env_keys(c)
    if "driver_error" in m:
        return "driver: " + m["driver_error"][:300]
    if "parse_error" in o and "ctx_desc" not in o:
        return None
    if c["kind"] == "history":
        return _agree_history(c, o, m)
    if c["kind"] != "dot" and "parse_error" in o:
        return None if m.get("error") == o["parse_error"] else f"Formula(...) raises {o['parse_error']}, the parser model gives {m.get('error', 'a formula')}"
    if c["kind"] != "dot":
        if "error" in m and "bfs" not in m:
            return f"the parser model rejects the formula ({m['error']}), the implementation parses it"
        if m.get("formula") != o["formula"]:
            return f"Formula(...) differs from the parser model: impl {o['formula']} vs model {m.get('formula')}"
    if c["kind"] == "dot":
        if "parse_error" in o:
            return None if m.get("error") == o["parse_error"] else f"impl {o['parse_error']} vs model {m.get('error', 'a formula')}"
        if "error" in m:
            return f"model {m['error']} vs impl formula"
        w = _cmp_named(o, m)
        if w:
            return w
        if [sorted(x) for x in m.get("tokprobe", [])] != [t["vars"] for t in o.get("tokprobe", [])]:
            return f"Token.required_variables differs: impl {[t['vars'] for t in o.get('tokprobe', [])]} vs model {m.get('tokprobe')}"
        if c.get("avail_mode", "layers") == "layers" and m.get("available") != list(dict.fromkeys(c["data"])):
            return f"variables available to `.`: model {m.get('available')} vs data columns {list(c['data'])}"
        if o["formula"] != m["formula"]:
            return f"`.` expansion differs: impl {o['formula']} vs model {m['formula']}"
        if "full" not in o:
            return None
        w = _cmp_run("all parts", o["full"], m["full"], compare_vars=False)
        if w:
            return w
        if "parts" in o and m.get("parts") is not None and "error" not in m["full"]:
            if _sorted_parts(o["parts"]) != _sorted_parts(m["parts"]):
                return f"required_variables per part differ: impl {_sorted_parts(o['parts'])} vs model {_sorted_parts(m['parts'])}"
        return None
    w = _cmp_named(o, m)
    if w:
        return w
    if o.get("contract"):
        return "contract of sanitize_variable_names not met on this case: " + o["contract"]
    if [list(x) for x in o["bfs"]] != [[k, v] for k, v in sorted({x[0]: x[1] for x in m["bfs"]}.items())]:
        return f"_get_ast_node_variables differs: impl {o['bfs']} vs model {m['bfs']}"
    if "error" in o["pre"] or "error" in m["pre"]:
        if o["pre"].get("error") != m["pre"].get("error"):
            return f"required_variables (before): impl {o['pre'].get('error', 'ok')} vs model {m['pre'].get('error', 'ok')}"
    else:
        if _norm_vars(o["pre"]["vars"], False) != _norm_vars(m["pre"]["vars"], False):
            return f"required_variables (before) differ: impl {_norm_vars(o['pre']['vars'], False)} vs model {_norm_vars(m['pre']['vars'], False)}"
        if o["pre"]["spec"] != sorted(v[0] for v in m["pre"]["vars"]):
            return f"ModelSpec.from_spec(formula).required_variables {o['pre']['spec']} vs model {sorted(v[0] for v in m['pre']['vars'])}"
        w = _cmp_sweep("before-set", o["pre"], m["pre"])
        if w:
            return w
    early = _early_calls(o["factors"])
    for entry in o.get("spy", []):
        if entry["seen"] is None and early:
            continue
        if entry["seen"] != m.get("ctx_probe"):
            return f"the `_context` handed to a stateful transform resolves {entry['seen']}, the model's environment {m.get('ctx_probe')}"
        if not (entry["spec"] and entry["state"]):
            return f"a stateful transform was not handed `_spec` / `_state`: {entry}"
    w = _cmp_run("full data", o["full"], m["full"])
    if w:
        return w
    if o["post"] is not None and m["post"] is not None:
        # the after-set runs re-use the ModelSpec, whose recorded structure (hence `.variables`) is that of the
        # first materialisation: only the outcome is compared there
        w = _cmp_sweep("after-set", o["post"], m["post"], compare_vars=False)
        if w:
            return w
    return None


# ----------------------------------------------------------------------------- oracle (implementation only)


def _layer_of(key, c, without=None):
    from formulaic.transforms import TRANSFORMS

    if key in c["data"] and key != without:
        return "data"
    if key in c["ctx"]:
        return _ctx_source(key, c)
    if key in TRANSFORMS:
        return "transforms"
    return None


def _free_name_nodes(tree):
    """the `Name` nodes of an expression that CPython looks up in the evaluation namespace, with `dotted` = the node is
    the base of an attribute access: a plain recursive walk that carries the locally bound names (lambda parameters,
    comprehension targets), written independently of the library and of the model; cross-checked below against the
    compiler's own symbol tables"""
    bases = {id(n.value) for n in ast.walk(tree) if isinstance(n, ast.Attribute)}
    out = []

    def targets(t):
        return {n.id for n in ast.walk(t) if isinstance(n, ast.Name) and isinstance(n.ctx, ast.Store)}

    def go(n, bound):
        if isinstance(n, ast.Name):
            if isinstance(n.ctx, ast.Load) and n.id not in bound:
                out.append((n, id(n) in bases))
            return
        if isinstance(n, ast.Lambda):
            a = n.args
            for d in (*a.defaults, *a.kw_defaults):
                if d is not None:
                    go(d, bound)
            ps = {x.arg for x in (*a.posonlyargs, *a.args, *a.kwonlyargs)} | {x.arg for x in (a.vararg, a.kwarg) if x}
            go(n.body, bound | ps)
            return
        if isinstance(n, (ast.ListComp, ast.SetComp, ast.GeneratorExp, ast.DictComp)):
            inner = set(bound)
            for g in n.generators:
                inner |= targets(g.target)
            for i, g in enumerate(n.generators):
                go(g.iter, bound if i == 0 else inner)
                go(g.target, inner)
                for c in g.ifs:
                    go(c, inner)
            for e in ((n.key, n.value) if isinstance(n, ast.DictComp) else (n.elt,)):
                go(e, inner)
            return
        for ch in ast.iter_child_nodes(n):
            go(ch, bound)

    go(tree, frozenset())
    return out


def _symtable_globals(src):
    """(names the compiler resolves outside the expression, names it also binds in an inlined comprehension): from its
    symbol tables. CPython 3.12 inlines list/set/dict comprehensions, so their targets show up in the enclosing table as
    assigned symbols; a name that is both such a target and a free name elsewhere is reported in the second set only."""
    import symtable

    free, ambiguous = set(), set()

    def walk(t):
        for sym in t.get_symbols():
            if sym.is_referenced() and sym.is_global():
                (ambiguous if sym.is_assigned() else free).add(sym.get_name())
        for ch in t.get_children():
            walk(ch)

    walk(symtable.symtable(src, "<factor>", "eval"))
    return free, ambiguous - free


def _occurrences(factors):
    """every place a factor list reads a key of the environment, found by an independent walk:
    (key, where, dotted) with where = 'lookup' | 'python'; key = the (de-aliased) identifier of a Name node or
    the name of a lookup factor; dotted = the Name node is the base of an attribute access."""
    occ = []
    for f in factors:
        if f["m"] == "lookup":
            occ.append((f["x"], "lookup", False))
        elif f["m"] == "python":
            tree, aliases, src = pycode(f["x"])
            if tree is None:
                continue
            nodes = _free_name_nodes(tree)
            ids = {n.id for n, _d in nodes}
            free, ambiguous = _symtable_globals(src)
            if not (free <= ids <= free | ambiguous):
                raise AssertionError(f"free names of {src!r}: walk {sorted(ids)} vs symtable {sorted(free)} (+{sorted(ambiguous)})")
            for n, dotted in nodes:
                occ.append((aliases.get(n.id, n.id), "python", dotted))
            # patsy's quoting transform reads the data column its string argument names (`_context.data[name]`)
            free_q = {id(n) for n, _d in nodes if n.id == "Q"}
            for n in ast.walk(tree):
                if (isinstance(n, ast.Call) and id(n.func) in free_q and len(n.args) == 1 and not n.keywords
                        and isinstance(n.args[0], ast.Constant) and isinstance(n.args[0].value, str)):
                    occ.append((n.args[0].value, "Q", False))
    return occ


def _reads(factors):
    return list(dict.fromkeys(k for k, _w, _d in _occurrences(factors)))


def _bound_below(v, c):
    """a layer below the data (context, transforms, Python's builtins) binds `v`"""
    from formulaic.transforms import TRANSFORMS

    return v in c["ctx"] or v in TRANSFORMS or _is_last_resort(v)


def _ok(o):
    return o is not None and "error" not in o


def _expected_column(f, c):
    """independent evaluation of a single factor over data > context > transforms (or None)"""
    from formulaic.transforms import TRANSFORMS

    df = frame(c["data"])
    env = collections.ChainMap({k: df[k] for k in df.columns}, {k: ctx_value(s) for k, s in c["ctx"].items()}, dict(TRANSFORMS))
    try:
        if f["m"] == "lookup":
            v = env[f["x"]]
        else:
            tree, aliases, s = pycode(f["x"])
            local = {new: env[old] for new, old in aliases.items() if new != old and old in env}
            # one flat namespace (data shadows context shadows transforms), used as globals so that nested scopes see it
            v = eval(compile(tree, "", "eval"), dict(collections.ChainMap(local, env)))  # noqa: S307
        a = numpy.asarray(v, dtype=float)
    except Exception:
        return None
    if a.shape != (NROWS,):
        return None
    return [float(x) for x in a]


def _diagnose_named(c, o):
    """the three named layers of the materializer's context, looked up by name: `data` is the data, `context` what the
    caller supplied, `transforms` the built-in transforms — whatever the caller's context contains; a named sub-layer of
    the caller's context is found under its own name; any other name is an AttributeError"""
    from formulaic.transforms import TRANSFORMS

    upper, lower = _ctx_parts(c)
    form = c.get("ctx_form", "dict")
    want = {
        "data": list(dict.fromkeys(c["data"])),
        "context": o["ctx_keys"],
        "transforms": list(TRANSFORMS),
        NAMED_SUBLAYER: list(lower) if form in ("named", "grown") else "AttributeError",
        "nosuch": "AttributeError",
    }
    for name, got in o.get("probe", []):
        if got != want[name]:
            return ("named-layer", dict(name=name, got=got, want=want[name]))
    return None


def _diagnose_spy(c, o):
    """a stateful transform is handed the evaluation context: every key resolves in it as in the three layers"""
    from formulaic.transforms import TRANSFORMS

    early = _early_calls(o["factors"])
    for entry in o.get("spy", []):
        if entry["seen"] is None and early:
            continue  # a call made while `stateful_eval` inspects a call target (outside the evaluation proper)
        want = [[k, (k in c["data"] or k in c["ctx"] or k in TRANSFORMS), _layer_of(k, c)] for k in o["spy_keys"]]
        if entry["seen"] != want:
            return ("transform-context", dict(got=entry["seen"], want=want))
    return None


def _early_calls(factors):
    """does some call target contain a call? `stateful_eval` evaluates every call target once ahead of the evaluation
    (to see whether it is a stateful transform), so such an inner call happens an extra time, without `_context`"""
    for f in factors:
        if f["m"] != "python":
            continue
        tree, _aliases, _src = pycode(f["x"])
        if tree is None:
            continue
        for n in ast.walk(tree):
            if isinstance(n, ast.Call) and any(isinstance(m, ast.Call) for m in ast.walk(n.func)):
                return True
    return False


def _tpl(c):
    """the formula with § for every `.` operator (cases written before the template was recorded: a `.` that stands alone)"""
    if "tpl" in c:
        return c["tpl"]
    lhs, _, rhs = c["formula"].rpartition("~")
    return lhs + "~" + re.sub(r"(?<![\w.`)\]])\.(?![\w.`(\[])", "§", rhs)


def _dot_expected(c, unused):
    """the formula with EVERY occurrence of `.` written out as the given columns, parsed without any `.`"""
    from formulaic import Formula

    if unused:
        sub = "(" + " + ".join(q(u) for u in unused) + ")"
    else:
        sub = "(x - x)"  # the empty set of terms
    try:
        return pc.canon_val(Formula(_tpl(c).replace("§", sub)))
    except Exception as e:
        return {"error": pc.exc_class(e)}


def _leaves(x):
    if isinstance(x, dict) and "s" in x:
        return [l for v in x["s"].values() for l in _leaves(v)]
    if isinstance(x, dict) and "t" in x:
        return [l for v in x["t"] for l in _leaves(v)]
    return [x]


def _diagnose_dot(c, o):
    import itertools

    # what the left-hand side reads is found on the text before the top-level `~` (independent walk of the CPython trees)
    if "parse_error" in o:
        lhs_factors = None
    else:
        lhs_factors = o["lhs_factors"]
    mode = c.get("avail_mode", "layers")
    available = list(c["avail_list"]) if mode == "explicit" else list(c["data"])
    if mode == "none":
        # nothing tells the parser which variables exist: `.` must be rejected as a formula error
        if o.get("parse_error") != "FormulaParsingError":
            return ("dot-nodata", dict(got=o.get("parse_error", "a formula")))
        return None
    if lhs_factors is None:
        # the implementation rejected the formula: it must also be rejected with every `.` written out (whatever the columns)
        want = _dot_expected(c, available)
        if "error" not in want:
            return ("dot-rejected", dict(error=o["parse_error"]))
        return None
    reads = _reads(lhs_factors)
    unused = [col for col in dict.fromkeys(available) if col not in reads]
    want = _dot_expected(c, unused)
    got = o["formula"]
    if got != want:
        f1, f2, _f3, f4 = _signatures(c, lhs_factors)
        cand = [col for col in dict.fromkeys(available) if col in reads and (col in f1 or col in f2 or col in f4)]
        for n in range(len(cand), 0, -1):
            for extra in itertools.combinations(cand, n):
                alt = [col for col in dict.fromkeys(available) if col not in reads or col in extra]
                if _dot_expected(c, alt) == got:
                    return ("dot", dict(got=got, want=want, unused=unused, extra=list(extra)))
        return ("dot", dict(got=got, want=want, unused=unused, extra=None))
    if "parts" in o:
        rhs = o["parts"]["s"].get("rhs") if isinstance(o["parts"], dict) and "s" in o["parts"] else None
        if rhs is not None:
            used = [k for k in reads if k in c["data"]]
            for leaf in _leaves(rhs):
                bad = sorted(set(leaf) & set(used))
                if bad:
                    return ("dot-response", dict(bad=bad, leaf=leaf))
    return None


def _diagnose_history(c, o):
    """every step of a history on one context object stands on its own: each `.` expands to the columns not used on the
    left-hand side OF ITS OWN formula (all of them for a one-sided formula), the required variables of right-hand parts
    never contain that formula's response, and a parse leaves the object it was handed (and the parser's own context)
    as it found them"""
    own = c.get("own") or {}
    if c["target"] == "dict":
        available = c.get("explicit") if c.get("explicit") is not None else own.get("avail")
    else:
        available = own.get("avail") if own.get("avail") is not None else list(c["data"])
    before, own_before = o["keys_before"], o["own_before"]
    for i, st in enumerate(o["steps"]):
        cc = dict(c, tpl=st["tpl"], formula=st["tpl"].replace("§", "."))
        where = dict(step=i + 1, formula=cc["formula"], history=[t.replace("§", ".") for t in c["steps"][:i]])
        if available is None:
            if "§" in st["tpl"] and st.get("parse_error") != "FormulaParsingError":
                return ("history-dot", dict(where, got=st.get("parse_error", st.get("formula")), want="FormulaParsingError", unused=None))
            continue
        if "parse_error" in st:
            want = _dot_expected(cc, list(available))
            if "error" not in want:
                return ("history-dot", dict(where, got=st["parse_error"], want=want, unused=None))
            continue
        reads = _reads(st["lhs_factors"])
        unused = [col for col in dict.fromkeys(available) if col not in reads]
        want = _dot_expected(cc, unused)
        if st["formula"] != want:
            return ("history-dot", dict(where, got=st["formula"], want=want, unused=unused))
        if "parts" in st and isinstance(st["parts"], dict) and "s" in st["parts"] and "rhs" in st["parts"]["s"]:
            used = [k for k in reads if k in c["data"]]
            for leaf in _leaves(st["parts"]["s"]["rhs"]):
                if set(leaf) & set(used):
                    return ("history-response", dict(where, bad=sorted(set(leaf) & set(used)), leaf=leaf))
        if "parts" in st and not isinstance(st["parts"], dict) and "§" in st["tpl"] and st["tpl"] in ("§", "0 + §"):
            if sorted(st["parts"]) != sorted(dict.fromkeys(c["data"])):
                return ("history-required", dict(where, got=st["parts"], want=sorted(dict.fromkeys(c["data"]))))
    if HISTORY_CONTEXT_MUST_BE_UNCHANGED:
        # the state leak that makes the above possible, reported on its own: scratch keys left in an object the parse
        # was only handed (the materializer's `layered_context`, the caller's mapping, the parser's own context)
        for i, st in enumerate(o["steps"]):
            if st["keys_after"] != before or st["own_after"] != own_before:
                changed = st["keys_after"] != before
                return ("history-context", dict(step=i + 1, formula=st["tpl"].replace("§", "."),
                                                history=[t.replace("§", ".") for t in c["steps"][:i]],
                                                before=before if changed else own_before,
                                                after=st["keys_after"] if changed else st["own_after"]))
    return None


def diagnose(c, o):
    """first way in which the implementation's observables contradict the property: (kind, details) or None"""
    ENV_KEYS[:] = env_keys(c)
    if "harness_exception" in o:
        return ("harness", dict(msg=o["harness_exception"]))
    if "parse_error" in o and ("ctx_desc" not in o or c["kind"] != "dot"):
        return None  # the formula string itself is rejected: outside C17
    if c["kind"] == "history":
        return _diagnose_history(c, o)
    d = _diagnose_named(c, o)
    if d is not None:
        return d
    if c["kind"] == "dot":
        return _diagnose_dot(c, o)
    d = _diagnose_spy(c, o)
    if d is not None:
        return d
    reads = _reads(o["factors"])
    data_reads = [k for k in reads if k in c["data"]]
    if "error" in o["pre"]:
        return ("pre-error", dict(error=o["pre"]["error"]))
    full = o["full"]
    unbound = [k for k in reads if _layer_of(k, c) is None and not _is_last_resort(k)]
    if unbound and _ok(full):
        return ("unbound-ok", dict(names=unbound))
    if not unbound and full.get("error") == "FactorEvaluationError" and full.get("cause") == "NameError":
        return ("bound-nameerror", {})
    if unbound and full.get("error") != "FactorEvaluationError":
        return ("unbound-wrong-class", dict(names=unbound, error=full.get("error")))
    if not _ok(full):
        # not materialisable on the full data: sufficiency/necessity say nothing. But the failure itself must have a
        # reason: when every factor evaluates (independently, names resolved data > context > transforms) to a numeric
        # column, the materialisation has to succeed.
        if full.get("error") == "FactorEvaluationError" and not any(k in RESERVED_NAMES for k in list(c["data"]) + list(c["ctx"])):
            cols = [_expected_column(f, c) for f in o["factors"] if f["m"] != "literal"]
            if cols and all(col is not None for col in cols):
                return ("spurious-failure", dict(cause=full.get("cause")))
        return None
    for tag, sw, names in (("before", o["pre"], [v[0] for v in o["pre"]["vars"]]), ("after", o["post"], full["req"])):
        r = sw["restricted"]
        if not _ok(r):
            return ("insufficient", dict(tag=tag, names=sorted(names), missing=sorted(set(data_reads) - set(names)),
                                         error=r.get("error"), cause=r.get("cause")))
        for v, r in sw["removed"]:
            base = v if v in c["data"] else v.split(".", 1)[0]
            # assumption: a name that a lower layer also binds is exempt. After materialisation the sources are
            # known, so this only applies to reported names that really are data columns (removing them un-shadows
            # the lower binding); before materialisation it also covers names the context/builtins will provide.
            if (_bound_below(v, c) or _bound_below(base, c)) and (tag == "before" or v in c["data"]):
                # un-shadowing: the name must now resolve to the next layer (observable on a fresh materialisation)
                if tag == "before" and _ok(r) and v in c["data"] and any(k == v and not d for k, _w, d in _occurrences(o["factors"])):
                    src = {x[0]: x[3] for x in r["vars"]}
                    want = _layer_of(v, c, without=v)
                    if v in src and src[v] != want:
                        return ("reshadow", dict(v=v, want=want, got=src[v]))
                continue
            if r.get("error") != "FactorEvaluationError":
                return ("unnecessary", dict(tag=tag, v=v, outcome=r.get("error", "success")))
    for name, _val, _call, src in full["vars"]:
        cands = [k for k in reads if name == k or name.startswith(k + ".")]
        if not cands:
            return ("source-noread", dict(name=name, reads=reads))
        if src not in {_layer_of(k, c) for k in cands}:
            return ("source-wrong", dict(name=name, src=src, truth=sorted({str(_layer_of(k, c)) for k in cands})))
    for k in reads:
        lay = _layer_of(k, c)
        if lay is not None and not any((name == k or name.startswith(k + ".")) and src == lay for name, _v, _c, src in full["vars"]):
            return ("read-unreported", dict(k=k, layer=lay))
    cols = o.get("columns") or {}
    for f in o["factors"]:
        if f["m"] == "literal" or any(t in f["x"] for t in ("center(", "scale(")):
            continue
        want, got = _expected_column(f, c), cols.get(f["x"])
        if want is None or got is None or len(got) != len(want):
            continue
        if not numpy.allclose(got, want, rtol=1e-9, atol=1e-9, equal_nan=True):
            return ("value", dict(col=f["x"], got=got, want=want))
    return None


def oracle(c, o):
    d = diagnose(c, o)
    if d is None:
        return None
    k, x = d
    if k == "harness":
        return "harness could not run the implementation: " + x["msg"]
    if k == "dot-rejected":
        return f"`lhs ~ .` rejected with {x['error']}"
    if k == "dot":
        return (f"`{c['formula']}` gives {x['got']}; with EVERY `.` = the data columns not used on the left-hand side, in data order "
                f"{x['unused']}, it is {x['want']}")
    if k == "spurious-failure":
        return (f"the materialisation fails with a factor-evaluation error ({x['cause']}) although every factor evaluates to a numeric "
                "column when its names are resolved data > context > transforms")
    if k in ("history-dot", "history-context", "history-response", "history-required"):
        pre = f"step {x['step']} `{x['formula']}` on a context object that already served {x['history']}: "
        if k == "history-dot":
            return pre + (f"gives {x['got']}; with EVERY `.` = the available columns not used on the left-hand side of THIS formula "
                          f"{x['unused']} it is {x['want']}")
        if k == "history-context":
            return pre + f"the parse changed a context it was only handed: keys before {x['before']}, after {x['after']}"
        if k == "history-response":
            return pre + f"a right-hand part reports the response variable(s) {x['bad']} as required: {x['leaf']}"
        return pre + f"required_variables {x['got']}, all data columns are {x['want']}"
    if k == "named-layer":
        return f"layered_context.{x['name']} gives {x['got']}; the layer of that name holds {x['want']}"
    if k == "transform-context":
        return f"the `_context` handed to a stateful transform resolves the keys as {x['got']}; data > context > transforms gives {x['want']}"
    if k == "dot-nodata":
        return f"`{c['formula']}` without any information about the available variables gives {x['got']} instead of a formula error"
    if k == "dot-response":
        return f"a right-hand part of `{c['formula']}` reports the response variable(s) {x['bad']} as required: {x['leaf']}"
    if k == "pre-error":
        return f"Formula.required_variables raised {x['error']}"
    if k == "unbound-ok":
        return f"names {x['names']} are bound in no layer but the materialisation succeeded"
    if k == "bound-nameerror":
        return "every name is bound in some layer but the materialisation failed with NameError"
    if k == "unbound-wrong-class":
        return f"unbound names {x['names']}: expected a factor-evaluation error, got {x['error']}"
    if k == "insufficient":
        return (f"not sufficient ({x['tag']} materialisation): reported {x['names']}; on the data restricted to these columns the "
                f"materialisation fails with {x['error']}/{x['cause']} (data columns read but not reported: {x['missing']})")
    if k == "unnecessary":
        return (f"not necessary ({x['tag']} materialisation): reported variable {x['v']!r}; without it the materialisation gives "
                f"{x['outcome']} instead of a factor-evaluation error")
    if k == "reshadow":
        return f"with data column {x['v']!r} removed the name should resolve to the {x['want']} layer, reported source {x['got']!r}"
    if k == "source-noread":
        return f"reported variable {x['name']!r} corresponds to no name the formula reads ({x['reads']})"
    if k == "source-wrong":
        return f"variable {x['name']!r} reported with source {x['src']!r}, its value comes from {x['truth']}"
    if k == "read-unreported":
        return f"{x['k']!r} is read from the {x['layer']} layer but no reported variable says so"
    if k == "value":
        return f"column {x['col']!r} = {x['got']}, resolution data > context > transforms gives {x['want']}"
    return str(d)


# ----------------------------------------------------------------------------- known findings


def _signatures(c, factors):
    """data columns (for `.` with an explicit list: the variables declared available) that occur in Python code in one
    of the known-defective ways"""
    from formulaic.transforms import TRANSFORMS

    f1, f2, f3, f4 = set(), set(), set(), set()
    columns = set(c["avail_list"]) if c.get("avail_mode") == "explicit" else set(c["data"])
    q_is_transform = "Q" not in c["data"] and "Q" not in c["ctx"]
    for k, where, dotted in _occurrences(factors):
        if where == "Q":
            if k in columns and q_is_transform:
                f4.add(k)
            continue
        if where != "python" or k not in columns:
            continue
        if dotted:
            f2.add(k)
        else:
            if k.split(".", 1)[0] in TRANSFORMS:
                f1.add(k)
            if "." in k:
                f3.add(k)
    return f1, f2, f3, f4


def classify(c, o, why):
    """C17-F1  a data column whose name (up to the first '.') is a key of TRANSFORMS is used as a value inside Python
               code: filtered out of Formula.required_variables / of the left-hand-side variables of `.`;
       C17-F2  attribute access or method call on a data column inside Python code: reported under the dotted name
               (`x.T`, source data) instead of the column, or dropped (callable role, before materialisation);
       C17-F3  a back-quoted data column whose name contains '.' inside Python code: its source is looked up under
               the part before the first '.';
       C17-F4  a data column read through the quoting transform `Q("name")`: the name is a string constant, not a
               `Name` node, and is reported neither before nor after materialisation."""
    d = diagnose(c, o)
    if d is None:
        return None  # a model/implementation disagreement without a property failure is never a known finding
    k, x = d
    if c["kind"] == "history":
        return None
    factors = o.get("lhs_factors", []) if c["kind"] == "dot" else o["factors"]
    f1, f2, f3, f4 = _signatures(c, factors)
    if k == "dot":
        if not x["extra"]:
            return None
        ids = ["C17-F2" if e in f2 else "C17-F1" if e in f1 else "C17-F4" if e in f4 else None for e in x["extra"]]
        return ids[0] if all(ids) else None
    if k == "insufficient":
        if not x["missing"]:
            return None
        ids = []
        for m in x["missing"]:
            if m in f2:
                ids.append("C17-F2")
            elif m in f1 and x["tag"] == "before":
                ids.append("C17-F1")
            elif m in f3 and x["tag"] == "after":
                ids.append("C17-F3")
            elif m in f4:
                ids.append("C17-F4")
            else:
                ids.append(None)
        return ids[0] if all(ids) else None
    if k == "unnecessary":
        v = x["v"]
        if v in c["data"] or "." not in v:
            return None
        base = v.split(".", 1)[0]
        return "C17-F2" if any(base == b or base.startswith(sanitized(b)) for b in f2) else None
    if k == "source-noread":
        base = x["name"].split(".", 1)[0]
        return "C17-F2" if "." in x["name"] and any(not b.isidentifier() and base.startswith(sanitized(b)) for b in f2) else None
    if k == "source-wrong":
        return "C17-F3" if x["name"] in f3 else None
    if k == "reshadow":
        return "C17-F3" if x["v"] in f3 else None
    if k == "read-unreported":
        if x["layer"] != "data":
            return None
        return "C17-F2" if x["k"] in f2 else "C17-F3" if x["k"] in f3 else "C17-F4" if x["k"] in f4 else None
    return None


def sanitized(name):
    from formulaic.utils.code import sanitize_variable_name

    return sanitize_variable_name(name, {})


LEVEL_TEXT = (
    "Proof: Lean theorems (Props/C17.lean) about the executable model of variables.py / required_variables / the three-layer "
    "context with its named layers / stateful_eval's name handling show, for ALL expressions — strict fragment plus lambdas "
    "and the four comprehensions —, all alias tables and all layer contents: lookup returns the value of the first of data, "
    "context, transforms containing the key and the reported source is that layer's name; `layered_context.data/.context/"
    ".transforms` denote the three layers whatever the caller's context holds; the breadth-first extraction terminates and "
    "reports exactly the FREE Name nodes (lambda parameters and comprehension targets are never reported); evaluation depends "
    "only on what the free names resolve to, inside nested scopes as at top level; it fails whenever a name in strict "
    "position is unbound and a NameError always names an unbound free name; a reserved name in any layer rejects every "
    "Python factor; hence the reported sets — of one spec and of the union over several parts — are sufficient and necessary "
    "under explicitly stated side conditions (each side condition is a reported finding or assumption); `.` is the "
    "duplicate-free list of the keys of the data layer not among the left-hand-side variables, in data order, and EVERY "
    "occurrence of `.` in a formula tree evaluates to that one list; a parse reads the context it is handed through a fresh "
    "layer, so any history of parses on one materializer / context gives, step by step, what each formula gives alone and "
    "leaves the context unchanged. The model is tied to the code by a differential "
    "correspondence on every run and the property is checked on the real objects by the oracle."
)
LEVEL_NOTE = (
    "Partial: CPython's parser and scoping, the back-quote sanitiser and the semantics of operations on values (including "
    "when closures run and whether iterables are empty) are parameters; conditional expressions, `and`/`or`, chained "
    "comparisons, starred arguments and `:=` are not modelled (generator stays outside); `Q(\"name\")` is opaque (finding C17-F4)."
)
