"""C15 — Lexing is whitespace-insensitive, quote-faithful and normalises Python code.

Correspondence stream `c01` (op `tokenize`): token (text, kind, start, stop) lists of the real
`tokenize(s)` against `Model.tokenize`, on re-spaced grammar formulas, arbitrary quoted column names,
Python fragments printed with random formatting, and random strings.
Oracle (impl only): re-spacing around operators/brackets does not change `Formula(s)`; a
backtick-quoted name / brace / call fragment is one token with the text verbatim; reformatted
fragments denote the same factor; spans delimit the text, are ordered and do not overlap.
"""
from __future__ import annotations

import ast
import re

from harness import parser_common as pc
from harness.props import c01

PROPERTY = "C15"
ENGINE = "c01"
REQUIRED_THEOREMS = ["backtick_verbatim", "whitespace_noop", "whitespace_flushes", "spans_ordered", "ws_insensitive", "positions_irrelevant",
                     "span_delimits_text", "tokens_have_kinds", "quoted_verbatim", "brace_verbatim",
                     "call_verbatim", "call_chain_verbatim", "dotted_call_verbatim", "call_at_end", "call_then", "token_text_exact"]
TRUSTED = list(c01.TRUSTED) + [
    "that two formattings of one Python fragment have the same ast.unparse normal form is CPython's (exercised, not proved)"
]
ASSUMPTIONS = []
RULE = (
    "grammar-derived formulas rendered twice with independent random whitespace at token boundaries; column names drawn from arbitrary "
    "printable/Unicode characters except the backtick (operator characters, quotes, brackets, backslashes, leading digits, spaces); Python call/brace "
    "fragments from a small expression grammar printed with random spacing, redundant parentheses, either quote style and string literals "
    "containing brackets, braces and quotes; random strings over an adversarial alphabet. non-trivial = has a quote, bracket or operator; distinct by JSON"
)

NAME_CHARS = "abcxyz019_ .+-*/:^~|(){}[]'\"%$#@!,;<>=&\\éß漢١\t"


def rand_name(rng):
    n = rng.randint(1, 8)
    return "".join(rng.choice(NAME_CHARS) for _ in range(n))


# ---- small Python expression grammar, printed with random formatting


def gen_pyexpr(rng, depth):
    r = rng.random()
    if depth <= 0 or r < 0.3:
        return rng.choice([("n", "a"), ("n", "x1"), ("n", "b"), ("c", 1), ("c", 2.5), ("s", rng.choice(["q", "a)b", "(", "]}", "it's", '"', "{", "a b", "", "it's `50%`", "`x`", 'say "`q`" now', "`", "a `b", "'`a`'"]))])
    if r < 0.5:
        return ("call", rng.choice(["f", "np.log", "g"]), [gen_pyexpr(rng, depth - 1) for _ in range(rng.randint(0, 3))])
    if r < 0.7:
        return ("bin", rng.choice(["+", "*", "-", "/", "**"]), gen_pyexpr(rng, depth - 1), gen_pyexpr(rng, depth - 1))
    if r < 0.8:
        return ("sub", gen_pyexpr(rng, depth - 1), gen_pyexpr(rng, depth - 1))
    if r < 0.9:
        return ("list", [gen_pyexpr(rng, depth - 1) for _ in range(rng.randint(0, 3))])
    return ("dict", [(("s", rng.choice(["k", "}", ")"])), gen_pyexpr(rng, depth - 1)) for _ in range(rng.randint(1, 2))])


BT_NAME = {}  # grammar name -> backtick-quoted spelling; set around show_py calls by cases()
# pairs chosen so that the sanitised aliases collide, are prefixes of one another, or are identifier-valid
# names that occur inside other identifiers of the fragment (`o` in np.log, `a` in a call name, ...)
BT_CHOICES = [
    {"a": "a b"}, {"a": "x+y"}, {"a": "2nd"}, {"a": "it's"}, {"a": "p)q"}, {"a": "é"},
    {"a": "a"}, {"a": "o"}, {"a": "g"}, {"a": "f"}, {"a": "n"}, {"b": "x"}, {"a": "l", "b": "p"},
    {"a": "a b", "b": "a|b"}, {"a": "a-b", "b": "a-"}, {"a": "a-", "b": "a-b"}, {"a": "a_", "b": "a-"},
    {"a": "a b", "b": "a_b"}, {"a": "a-1", "b": "a-"}, {"a": "x1", "b": "x"}, {"a": "log", "b": "np"},
]


def show_py(e, rng):
    w = lambda: rng.choice(["", "", " ", "  "])
    k = e[0]
    if k == "n":
        # optionally one name of the fragment is a backtick-quoted (non-identifier) column name
        return ("`" + BT_NAME[e[1]] + "`") if e[1] in BT_NAME else e[1]
    if k == "c":
        return repr(e[1])
    if k == "s":
        s = e[1]
        q = rng.choice("'\"")  # either quote style; the style's own quote character is backslash-escaped
        return q + s.replace("\\", "\\\\").replace(q, "\\" + q) + q
    if k == "call":
        args = (w() + "," + w()).join(show_py(a, rng) for a in e[2])
        return e[1] + "(" + w() + args + w() + ")"
    if k == "bin":
        inner = show_py(e[2], rng) + w() + e[1] + w() + show_py(e[3], rng)
        return "(" + w() + inner + w() + ")"
    if k == "sub":
        base = show_py(e[1], rng)
        if e[1][0] not in ("n", "call", "sub", "list", "dict"):
            base = "(" + base + ")"
        return base + "[" + w() + show_py(e[2], rng) + w() + "]"
    if k == "list":
        return "[" + (w() + "," + w()).join(show_py(a, rng) for a in e[1]) + "]"
    if k == "dict":
        return "{" + (w() + "," + w()).join(show_py(a, rng) + w() + ":" + w() + show_py(b, rng) for a, b in e[1]) + "}"
    raise ValueError(k)


def cases(rng, tier):
    n = {"quick": 1200, "thorough": 30000, "search": 1200}[tier]
    for _ in range(n):
        r = rng.random()
        if r < 0.3:
            f = pc.gen_formula(rng, depth=rng.choice([1, 2]))
            try:
                pc.denote(pc.to_lists(f), pc.CFG_DEFAULT, None, ordered=True)
            except pc.TooBig:
                continue
            except Exception:
                pass
            yield dict(kind="respace", s=pc.render_formula(f, rng), s2=pc.render_formula(f, rng))
        elif r < 0.55:
            name = rand_name(rng)
            tmpl = rng.choice(["`{}`", "a + `{}`", "`{}`:b + c", "y ~ `{}` * x", "(`{}`)", "f(`{}`)", "{{`{}` + 1}}"])
            yield dict(kind="name", name=name, tmpl=tmpl, s=tmpl.format(name))
        elif r < 0.85:
            e = gen_pyexpr(rng, 3)
            BT_NAME.clear()
            if rng.random() < 0.5:
                BT_NAME.update(rng.choice(BT_CHOICES))
                if rng.random() < 0.5:  # make sure the quoted names occur, next to look-alike identifiers
                    e = ("call", rng.choice(["g", "np.log", "f"]), [("n", "a"), e, ("n", "b"), ("n", "a")])
            a, b = show_py(e, rng), show_py(e, rng)
            BT_NAME.clear()
            form = rng.choice(["call", "brace"])
            if form == "call":
                a, b = "f(" + a + ")", "f( " + b + " )"
                yield dict(kind="py", form=form, frag=a, frag2=b, s="x + " + a + " : y", s2="x+" + b + ":y")
            else:
                yield dict(kind="py", form=form, frag=a, frag2=b, s="x + {" + a + "} : y", s2="x+{ " + b + " }:y")
        else:
            m = rng.randint(1, 14)
            yield dict(kind="random", s="".join(rng.choice(c01.ALPHABET + "\\é\t") for _ in range(m)))


def describe(c):
    return c["kind"] + ("/" + c["form"] if "form" in c else "")


def nontrivial(c):
    return any(ch in c["s"] for ch in "+-*:/^~|()[]{}`%'\"")


def impl(c):
    out = dict(tok=pc.impl_tokenize(c["s"]))
    if c["kind"] in ("respace", "py"):
        out["f1"] = pc.impl_formula(c["s"], pc.CFG_DEFAULT)
        out["f2"] = pc.impl_formula(c["s2"], pc.CFG_DEFAULT)
    if c["kind"] == "name":
        out["f1"] = pc.impl_formula(c["s"], pc.CFG_DEFAULT)
    return out


def request(c, o):
    return pc.request_for(c["s"], "tokenize")


def agree(c, o, m):
    if "driver_error" in m:
        return "driver: " + m["driver_error"][:300]
    t = o["tok"]
    if "error" in t or "error" in m:
        return None if t.get("error") == m.get("error") else f"impl {t.get('error', 'ok')} vs model {m.get('error', 'ok')}"
    return None if t["tokens"] == m["tokens"] else "token lists differ"


def _all_factors(v, acc):
    if isinstance(v, dict):
        for x in (v.get("s", {}).values() if "s" in v else v.get("t", [])):
            _all_factors(x, acc)
    else:
        for t in v:
            for f in t:
                acc.append(f)
    return acc


def _odd_trailing_backslashes(name):
    return (len(name) - len(name.rstrip("\\"))) % 2 == 1


def oracle(c, o):
    if "harness_exception" in o:
        return "harness failure: " + o["harness_exception"]
    tok = o["tok"]
    s = c["s"]
    # spans: ordered, non-overlapping, delimit the text
    if "tokens" in tok:
        prev = -1
        for text, kind, a, b in tok["tokens"]:
            if a is None or b is None or not (prev < a <= b < len(s)):
                return f"span of token {text!r} is not ordered/non-overlapping: ({a}, {b}) after {prev}"
            prev = b
            src = s[a:b + 1]
            if kind == "operator" and not src.startswith("%"):
                src = re.sub(r"\s", "", src)
            if src.startswith(("`", "{", "%")) and kind in ("name", "python", "operator") and src[1:] == text:
                continue
            if src != text:
                return f"span ({a},{b}) = {src!r} does not delimit token text {text!r}"
    if c["kind"] == "respace":
        if o["f1"] != o["f2"]:
            return f"re-spacing changed the parsed formula: {c['s']!r} -> {o['f1']} vs {c['s2']!r} -> {o['f2']}"
    if c["kind"] == "name":
        name = c["name"]
        if "error" in tok:
            return f"column name {name!r} cannot be referenced: tokenisation of {s!r} fails with {tok['error']}"
        if c["tmpl"] in ("`{}`", "a + `{}`", "`{}`:b + c", "y ~ `{}` * x", "(`{}`)"):
            names = [t for t in tok["tokens"] if t[1] == "name" and t[0] == name]
            if not names:
                return f"quoted name {name!r} not taken verbatim: tokens {[(t[0], t[1]) for t in tok['tokens']]}"
            if "error" in o["f1"]:
                return f"formula {s!r} with quoted name {name!r} rejected: {o['f1']['error']}"
            if [name, "lookup"] not in _all_factors(o["f1"]["formula"], []):
                return f"no lookup factor named {name!r} in {o['f1']}"
        else:  # inside a Python fragment the whole fragment must be one python token
            py = [t for t in tok["tokens"] if t[1] == "python"]
            if len(py) != 1 or ("`" + name + "`") not in py[0][0]:
                return f"fragment containing quoted name {name!r} not taken verbatim: {[(t[0], t[1]) for t in tok['tokens']]}"
    if c["kind"] == "py":
        if "error" in tok:
            return f"Python fragment {c['frag']!r} not lexed: {tok['error']}"
        py = [t for t in tok["tokens"] if t[1] == "python"]
        want = c["frag"]
        if len(py) != 1 or py[0][0] != want:
            return f"Python fragment not taken verbatim: want {want!r}, tokens {[(t[0], t[1]) for t in tok['tokens']]}"
        if o["f1"] != o["f2"]:
            return f"fragments differing only in formatting denote different formulas: {c['s']!r} -> {o['f1']} vs {c['s2']!r} -> {o['f2']}"
        if "error" in o["f1"]:
            return f"valid Python fragment rejected: {o['f1']}"
        want_ast = _frag_ast(c["frag"])
        if want_ast is not None:
            got = [f[0] for f in _all_factors(o["f1"]["formula"], []) if f[1] == "python"]
            if len(got) != 1:
                return f"expected exactly one Python factor for {c['s']!r}, got {got}"
            expr = got[0]
            if c["form"] == "brace":
                want_ast = _frag_ast("(" + c["frag"] + ")")
                expr = "(" + expr + ")"
            if _frag_ast(expr) != want_ast:
                return (f"the factor {got[0]!r} is not the Python expression written as {c['frag']!r} "
                        f"(same code over the same back-quoted names)")
    return None


def _frag_ast(frag):
    """AST dump of a fragment in which every back-quoted name (outside string literals) is replaced by a
    placeholder carrying the name; None when the fragment is outside what this reader handles"""
    import ast as _ast

    out, names, i, n = [], [], 0, len(frag)
    while i < n:
        ch = frag[i]
        if ch in "'\"":
            j = i + 1
            while j < n and frag[j] != ch:
                j += 2 if frag[j] == "\\" else 1
            out.append(frag[i:j + 1])
            i = j + 1
        elif ch == "`":
            j = frag.find("`", i + 1)
            if j < 0:
                return None
            names.append(frag[i + 1:j])
            out.append(f" __bt{len(names) - 1}__ ")
            i = j + 1
        else:
            out.append(ch)
            i += 1
    if any(q in nm for nm in names for q in "'\""):
        return None  # quote characters inside a quoted name: known finding C15-F3 territory
    try:
        tree = _ast.parse("".join(out).strip(), mode="eval")
    except SyntaxError:
        return None
    # identify placeholders by the NAME they stand for, not by their position
    class R(_ast.NodeTransformer):
        def visit_Name(self, node):
            if node.id.startswith("__bt") and node.id.endswith("__"):
                k = int(node.id[4:-2])
                return _ast.copy_location(_ast.Name(id="`" + names[k] + "`", ctx=node.ctx), node)
            return node
    return _ast.dump(R().visit(tree))


def classify(c, o, why):
    if c["kind"] == "name" and _odd_trailing_backslashes(c["name"]):
        return "C15-F1"
    if c["kind"] == "name" and c["name"] == "1" and "no lookup factor" in str(why):
        return "C15-F2"
    if c["kind"] == "py":
        import re as _re

        for frag in (c["frag"], c["frag2"]):
            for nm in _re.findall(r"`([^`]*)`", frag):
                for q in "'\"":
                    if q in nm and frag.count(q) >= 2:
                        return "C15-F3"
    return None


LEVEL_TEXT = (
    'Proof (the lexer clauses in full; the CPython normal form by oracle): Lean theorems about the executable model of tokenize() show for ALL bodies (any characters of any class except backtick/backslash) that a backtick-quoted name is one name token with the body verbatim and the documented span, that unquoted whitespace is a no-op after an operator/between tokens and otherwise only ends the pending token, and that for EVERY string that tokenises all spans lie inside the string, are ordered and do not overlap (loop invariant). Whole-string whitespace insensitivity IS a theorem (ws_insensitive: one unquoted whitespace character inserted at any point where no quote is open and the pending token is empty or an operator changes no token text/kind and no accept/reject outcome; positions never influence texts/kinds). Also theorems for EVERY string: span_delimits_text (the text of each token is a subsequence of the source characters inside its span, ends with the character at its stop and starts at its start, or just after the quote character that opened it; the only characters skipped are the opening quote and whitespace inside an operator run), tokens_have_kinds (every emitted token has a kind and a non-empty text), and quoted_verbatim/brace_verbatim (a brace-, backtick- or percent-quoted body that leaves the quote stack as it found it is ONE token with the body verbatim; the stack discipline is a small executable function of the body). Call-style fragments are theorems as well: a name (word characters, not all digits/dots, dotted names included) directly followed by any chain of balanced ( ) / [ ] groups is ONE python token with the whole fragment verbatim, alone, after any prefix and before any follower that is not an opening bracket or a quote (call_verbatim, call_chain_verbatim, dotted_call_verbatim, call_at_end, call_then); and token_text_exact determines the text of EVERY token of EVERY string from its span and kind (contiguous slice; slice after the opening quote character; for an operator run the slice with whitespace removed). Only the reformatting-invariance of Python fragments (ast.parse/unparse of CPython) is NOT a theorem: it is covered by the correspondence of the model against the real tokenizer (texts, kinds and spans) and by oracles on the real code (same formula for two formattings; the normalised factor is the same Python expression over the same back-quoted names).'
)
LEVEL_NOTE = (
    "Trusted: Lean kernel + the three standard axioms; the hand model of tokenize()/Token validated token-by-token incl. spans on every run; Python's re classes enter as data; ast.unparse is CPython's."
)
